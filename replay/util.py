import re
from fractions import Fraction


def ival(model, name, default=1):
    """integer value of a model constant (z3 prints negatives as '-3' or '(- 3)')"""
    v = model.get(name)
    if v is None:
        return default
    v = v.replace("(", "").replace(")", "").replace(" ", "")
    try:
        return int(v)
    except ValueError:
        return default


def rval(model, name, default=1.0):
    v = model.get(name)
    if v is None:
        return default
    v = v.replace("(", "").replace(")", "").strip()
    m = re.fullmatch(r"(-?)\s*(/?)\s*(-?[\d.]+)\??(?:\s+([\d.]+))?", v)
    try:
        if v.startswith("/"):
            a, b = v[1:].split()
            return float(Fraction(a) / Fraction(b))
        if v.startswith("- /"):
            a, b = v[3:].split()
            return -float(Fraction(a) / Fraction(b))
        if v.startswith("-"):
            return -float(Fraction(v[1:].strip().rstrip("?")))
        return float(Fraction(v.rstrip("?")))
    except Exception:
        return default


def bval(model, name, default=False):
    v = model.get(name)
    return default if v is None else v == "True"


def find(model, prefix, default=1):
    """value of the first constant whose name starts with prefix (fresh names carry a !n suffix)"""
    for k in sorted(model):
        if k == prefix or k.startswith(prefix + "!"):
            return ival(model, k, default)
    return default
