"""Replay for C18: the real UrwidImageScreen driven with real urwid canvases; output captured instead of written to a tty."""


def screen(m, meta):
    import tests
    import urwid
    from PIL import Image
    import term_image.geometry as G
    from term_image.image import KittyImage
    from term_image.widget import UrwidImage, UrwidImageScreen
    import term_image._ctlseqs as ctlseqs
    tests.set_cell_size(G.Size(9, 18))
    tests.set_terminal_name_version("kitty", "0.30.0")
    KittyImage._supported = True
    KittyImage._TERM, KittyImage._KITTY_VERSION = "kitty", (0, 30, 0)
    problems = []
    out = []
    scr = UrwidImageScreen.__new__(UrwidImageScreen)
    scr._ti_screen_canv = None
    scr._ti_image_cviews = frozenset()
    scr.write = lambda data: out.append(("write", data))
    scr.flush = lambda: out.append(("flush",))
    img = KittyImage(Image.new("RGB", (20, 20), (1, 2, 3)))
    widget = UrwidImage(img)
    layout = urwid.Pile([("pack", urwid.Text("header")), urwid.Filler(widget)])
    canv1 = layout.render((30, 12))
    scr._ti_screen_canv = canv1
    scr._ti_clear_images()
    if not scr._ti_image_cviews:
        problems.append("image view not registered after drawing an image layout")
    # the image disappears: the top widget is now a SolidFill (its canvas is not a CompositeCanvas)
    canv2 = urwid.SolidFill("x").render((30, 12))
    scr._ti_screen_canv = canv2
    n0 = len(out)
    try:
        scr._ti_clear_images()
    except Exception as e:
        problems.append(f"redraw without the image raised {type(e).__name__}: {e}")
    else:
        sent = "".join(d for k, *r in out[n0:] if k == "write" for d in r)
        if "a=d" not in sent:
            problems.append("the image that disappeared was not deleted")
        if scr._ti_image_cviews:
            problems.append("stale image views kept")
    # the same with kitty support FORCED on a terminal that reports none (images are drawn, so they have to be tracked and deleted)
    from term_image.image import ITerm2Image
    saved_sup = (KittyImage._supported, ITerm2Image._supported)
    try:
        KittyImage._supported, ITerm2Image._supported = False, False
        KittyImage.forced_support = True
        tests.set_terminal_name_version("wezterm", "2023")
        scr2 = UrwidImageScreen.__new__(UrwidImageScreen)
        scr2._ti_image_cviews = frozenset()
        out2 = []
        scr2.write = lambda data: out2.append(data)
        scr2.flush = lambda: None
        scr2._ti_screen_canv = urwid.Pile([("pack", urwid.Text("header")), urwid.Filler(UrwidImage(KittyImage(Image.new("RGB", (20, 20)))))]).render((30, 12))
        scr2._ti_clear_images()
        scr2._ti_screen_canv = urwid.SolidFill("x").render((30, 12))
        n1 = len(out2)
        scr2._ti_clear_images()
        if "a=d" not in "".join(out2[n1:]):
            problems.append("forced kitty support on a terminal that reports none: the image that disappeared was not deleted")
    finally:
        KittyImage.forced_support = False
        KittyImage._supported, ITerm2Image._supported = saved_sup
        tests.set_terminal_name_version("kitty", "0.30.0")
    # clear_images(): whatever the arguments, every image it deletes from the terminal is forced to be drawn again (the trailing
    # "disguise" of its canvas lines changes, so urwid's line cache cannot skip them)
    from term_image.widget import UrwidImageCanvas
    import term_image.widget._urwid as UW
    UW.write_tty = lambda data: out.append(("write", data.decode()))       # what `now=True` uses instead of the screen's buffer
    for now in (False, True):
        for targets in ((), (widget,)):
            n0 = len(out)
            before = (UrwidImageCanvas._ti_disguise_state, widget._ti_disguise_state)
            scr._ti_screen_canv = canv1
            line_before = [b"".join(seg[2] for seg in row) for row in layout.render((30, 12)).content()]
            scr.clear_images(*targets, now=now)
            after = (UrwidImageCanvas._ti_disguise_state, widget._ti_disguise_state)
            layout._invalidate(); widget._invalidate()
            line_after = [b"".join(seg[2] for seg in row) for row in layout.render((30, 12)).content()]
            img_rows = [i for i, l in enumerate(line_before) if b"\x1b_G" in l]
            if after == before or any(line_before[i] == line_after[i] for i in img_rows):
                problems.append(f"clear_images({'widget' if targets else ''}{', ' if targets else ''}now={now}) deleted images but their canvas lines are "
                                f"byte-identical afterwards (disguise {before} -> {after}): the redraw will skip them")
            sent_now = any(k == "write" for k, *r in out[n0:])
            if now and not sent_now:
                problems.append(f"clear_images(now=True) wrote nothing")
    return {"reproduced": bool(problems), "input": "Pile(Text, Filler(UrwidImage(KittyImage))) drawn, then SolidFill drawn; clear_images in its four forms", "observed": problems}


def hooks(m, meta):
    """clear() / stop() / start() with an image on the terminal that the screen does not track (an image widget that is itself the top
    widget: its canvas is not composite) and with a tracked one (inside a Pile): a delete-all is written each time; then screen()"""
    import io, sys
    import tests
    import urwid
    from PIL import Image
    import term_image.geometry as G
    import term_image._ctlseqs as ctlseqs
    from term_image.image import KittyImage
    from term_image.widget import UrwidImage, UrwidImageScreen
    tests.set_cell_size(G.Size(10, 20))
    tests.set_terminal_name_version("kitty", "0.30.0")
    saved = (KittyImage._supported, getattr(KittyImage, "_TERM", None), getattr(KittyImage, "_KITTY_VERSION", None))
    KittyImage._supported = True
    KittyImage._TERM, KittyImage._KITTY_VERSION = "kitty", (0, 30, 0)
    problems = []
    try:
        size = (30, 15)
        buf = io.StringIO()
        scr = UrwidImageScreen(sys.__stdin__, buf)
        scr.start()
        try:
            w = UrwidImage(KittyImage(Image.new("RGB", (300, 200), "red")), upscale=True)
            for label, top in (("image inside a Pile", urwid.Pile([w, (1, urwid.SolidFill("-"))])), ("image as the top widget", w)):
                for hook in ("clear", "stop+start"):
                    scr.draw_screen(size, urwid.SolidFill("x").render(size, True))
                    scr.draw_screen(size, top.render(size, True))
                    buf.seek(0); buf.truncate()
                    if hook == "clear":
                        scr.clear()
                    else:
                        scr.stop()
                        stopped = buf.getvalue()
                        buf.seek(0); buf.truncate()
                        scr.start()
                        if ctlseqs.KITTY_DELETE_ALL not in stopped:
                            problems.append({"layout": label, "hook": "stop()", "observed": "no delete-all written"})
                    if ctlseqs.KITTY_DELETE_ALL not in buf.getvalue():
                        problems.append({"layout": label, "hook": hook.split("+")[-1] + "()", "observed": "no delete-all written: the image stays on the terminal"})
        finally:
            try:
                scr.stop()
            except Exception:  # noqa: BLE001
                pass
    except Exception as e:  # noqa: BLE001
        problems.append({"error": f"{type(e).__name__}: {e}"})
    finally:
        KittyImage._supported, KittyImage._TERM, KittyImage._KITTY_VERSION = saved
    if problems:
        return {"reproduced": True, "input": "clear / stop / start with an untracked and a tracked image on screen", "observed": problems[:3]}
    return screen(m, meta)


def noncomposite(m, meta):
    """layouts with kitty and / or (on Konsole) iterm2 image widgets are drawn, then a top widget whose canvas is not composite
    (SolidFill): everything that was shown has to be deleted in that redraw - iterm2 images on Konsole only go away with a
    delete-all - and forgotten; then the scenarios of screen()"""
    import tests
    import urwid
    from PIL import Image
    import term_image.geometry as G
    from term_image.image import KittyImage, ITerm2Image
    from term_image.widget import UrwidImage, UrwidImageScreen
    import term_image._ctlseqs as ctlseqs
    tests.set_cell_size(G.Size(9, 18))
    problems = []
    saved = (KittyImage._supported, ITerm2Image._supported, getattr(ITerm2Image, "_TERM", None), getattr(KittyImage, "_TERM", None), getattr(KittyImage, "_KITTY_VERSION", None))
    try:
        for term, styles in (("konsole", ("iterm2",)), ("konsole", ("iterm2", "kitty")), ("konsole", ("kitty", "iterm2", "kitty")), ("konsole", ("kitty",)),
                             ("kitty", ("kitty", "kitty"))):
            tests.set_terminal_name_version(term, "22.12.3" if term == "konsole" else "0.30.0")
            KittyImage._supported = True
            KittyImage._TERM, KittyImage._KITTY_VERSION = ("kitty", (0, 30, 0)) if term == "kitty" else ("", ())
            ITerm2Image._supported = term == "konsole"
            ITerm2Image._TERM = term if term == "konsole" else ""
            out = []
            scr = UrwidImageScreen.__new__(UrwidImageScreen)
            scr._ti_image_cviews = frozenset()
            scr.write = out.append
            scr.flush = lambda: None
            widgets = [UrwidImage({"kitty": KittyImage, "iterm2": ITerm2Image}[st_](Image.new("RGB", (20, 20), (1, 2, 3)))) for st_ in styles]
            scr._ti_screen_canv = urwid.Columns([urwid.Filler(w) for w in widgets]).render((12 * len(widgets), 8))
            scr._ti_clear_images()
            if not scr._ti_image_cviews:
                problems.append({"terminal": term, "images": styles, "observed": "views not registered"})
                continue
            scr._ti_screen_canv = urwid.SolidFill("x").render((12 * len(widgets), 8))
            n0 = len(out)
            try:
                scr._ti_clear_images()
            except Exception as e:  # noqa: BLE001
                problems.append({"terminal": term, "images": styles, "observed": f"{type(e).__name__}: {e}"})
                continue
            sent = "".join(out[n0:])
            delete_all = ctlseqs.KITTY_DELETE_ALL in sent
            zs = [w._ti_z_index for w in widgets if isinstance(w._ti_image, KittyImage)]
            by_z = all((ctlseqs.KITTY_DELETE_Z_INDEX % z) in sent for z in zs)
            enough = delete_all or ("iterm2" not in styles and by_z)
            if not enough or scr._ti_image_cviews:
                problems.append({"terminal": term, "images on screen before the non-composite redraw": styles, "delete-all written": delete_all,
                                 "kitty z-indexes deleted": by_z, "views still on the books": len(scr._ti_image_cviews)})
    finally:
        KittyImage._supported, ITerm2Image._supported, ITerm2Image._TERM, KittyImage._TERM, KittyImage._KITTY_VERSION = saved
        tests.set_terminal_name_version("kitty", "0.30.0")
    if problems:
        return {"reproduced": True, "input": "Columns of image widgets drawn, then SolidFill drawn", "observed": problems[:3]}
    return screen(m, meta)


def overlay(m, meta, scenarios=None):
    """the real UrwidImageScreen.draw_screen() with real urwid canvases: a pop-up moves over a kitty image (the image canvas is then
    split into several views); after every redraw the rows that carry a live kitty placement on the terminal must be exactly the
    rows of the canvas just drawn that contain the image"""
    import os, pty, re
    import tests  # noqa: F401
    import urwid
    from PIL import Image
    import term_image.geometry as G
    from term_image.image import KittyImage
    from term_image.widget import UrwidImage, UrwidImageScreen
    tests.set_cell_size(G.Size(9, 18))
    tests.set_terminal_name_version("kitty", "0.30.0")
    saved = (KittyImage._supported, getattr(KittyImage, "_TERM", None), getattr(KittyImage, "_KITTY_VERSION", None))
    KittyImage._supported = True
    KittyImage._TERM, KittyImage._KITTY_VERSION = "kitty", (0, 30, 0)
    problems = []
    ptys = [pty.openpty(), pty.openpty()]
    try:
        scr = UrwidImageScreen(input=os.fdopen(ptys[0][1], "r", closefd=False), output=os.fdopen(ptys[1][1], "w", closefd=False))
        chunks = []
        scr.write = chunks.append
        scr.flush = lambda: None
        scr.start = lambda *a, **k: None
        scr._started = True
        size = (40, 20)
        tok = re.compile(r"\x1b\[(\d*)(?:;(\d*))?([ABH])|\x1b_G([^\x1b;]*)[^\x1b]*\x1b\\|(\n)")
        for moves in scenarios or (((5, 0), (8, 0)), ((5, 0), (11, 0), (2, 0)), ((5, 15), (8, 15)), ((0, 0), (3, 0)), ((5, 30), (2, 30), (9, 30)), ((4, 0), (4, 10), (4, 30))):
            widget = UrwidImage(KittyImage(Image.new("RGB", (200, 200), (1, 2, 3))), upscale=True)
            scr._ti_screen_canv, scr._ti_image_cviews = None, frozenset()
            scr.screen_buf = None          # a fresh terminal screen for every scenario
            scr._screen_buf_canvas = None
            live, row = {}, 0
            for move in moves:
                if move is None:          # nothing over the image
                    canv = urwid.Columns([widget]).render(size)
                else:
                    top, left, pw, ph = move if len(move) == 4 else move + (10, 4)
                    pop = urwid.LineBox(urwid.SolidFill("p"))
                    canv = urwid.Overlay(pop, widget, ("fixed left", left), pw, ("fixed top", top), ph).render(size)
                n0 = len(chunks)
                scr.draw_screen(size, canv)
                data = "".join(chunks[n0:])
                if data.count("\x1b[?2026h") != 1 or data.count("\x1b[?2026l") != 1:
                    problems.append({"moves": moves, "observed": "redraw not bracketed by exactly one begin / end synchronized update"})
                row = 0
                for mm in tok.finditer(data):
                    a, b, f, g, nl = mm.groups()
                    if f == "H":
                        row = (int(a) if a else 1) - 1
                    elif f == "B":
                        row += int(a) if a else 1
                    elif f == "A":
                        row -= int(a) if a else 1
                    elif nl:
                        row += 1
                    elif g is not None:
                        keys = dict(kv.split("=") for kv in g.split(",") if "=" in kv)
                        if keys.get("a") == "d" and keys.get("d", "").lower() == "z":
                            live = {r: z for r, z in live.items() if z != keys.get("z")}
                        elif keys.get("a") == "d" and keys.get("d", "").lower() == "a":
                            live = {}
                        elif keys.get("a") == "T":
                            live[row] = keys.get("z")
                want = set()
                for y, crow in enumerate(canv.content()):
                    if any(b"\x1b_Ga=T" in seg[2] for seg in crow):
                        want.add(y)
                if set(live) != want:
                    problems.append({"pop-up positions (top, left[, width, height]) drawn in turn": moves[:moves.index(move) + 1],
                                     "rows of the canvas with the image": sorted(want), "rows with a live placement on the terminal": sorted(live)})
                    break
            if problems:
                break
    finally:
        KittyImage._supported, KittyImage._TERM, KittyImage._KITTY_VERSION = saved
        for a_, b_ in ptys:
            os.close(a_)
            os.close(b_)
    return {"reproduced": bool(problems), "input": "a pop-up moved over a kitty image widget, real draw_screen()", "observed": problems[:2]}


def narrowed_view(m, meta):
    """panels that cover one side of a kitty image over its full height or width: the visible view keeps its corner and only gets
    narrower / shorter (or wider / taller again), and the scenarios of overlay() after them"""
    W, H = 40, 20
    scen = []
    for a, b in ((10, 15), (15, 10), (5, 20), (20, 5)):
        scen.append((None, (0, W - a, a, H), (0, W - b, b, H), None))            # right-hand panel, full height: the view only changes width
        scen.append((None, (H - a // 2, 0, W, a // 2), (H - b // 2, 0, W, b // 2), None))      # bottom panel, full width: only the height changes
        scen.append((None, (0, 0, a, H), (0, 0, b, H), None))                    # left-hand panel
        scen.append((None, (0, 0, W, a // 2), (0, 0, W, b // 2), None))          # top panel
    scen.append(((0, 30, 10, 20), (5, 30, 10, 4), (0, 25, 15, 20)))
    r = overlay(m, meta, scenarios=tuple(scen))
    if r.get("reproduced"):
        return r
    return overlay(m, meta)


def alloc(m, meta):
    """z-indexes of live kitty image widgets: pairwise distinct, within the signed 32-bit range excluding its minimum, recycled
    only after the widget that held them is gone"""
    import gc, random
    import tests  # noqa: F401
    from PIL import Image
    from term_image.image import BlockImage, KittyImage
    from term_image.widget import UrwidImage
    KittyImage._supported = True
    rng = random.Random(8)
    img = Image.new("RGB", (4, 4))
    live, problems = [], []
    for step in range(600):
        if live and rng.random() < 0.45:
            live.pop(rng.randrange(len(live)))
            gc.collect()
        else:
            live.append(UrwidImage(KittyImage(img) if rng.random() < 0.8 else BlockImage(img)))
        zs = [w._ti_z_index for w in live if isinstance(w._ti_image, KittyImage)]
        if len(set(zs)) != len(zs) or any(not (-(1 << 31) < z < (1 << 31)) for z in zs):
            problems.append({"step": step, "z-indexes of the live kitty widgets": sorted(zs)[:12]})
            break
    del live
    gc.collect()
    return {"reproduced": bool(problems), "input": "600 random creations / deletions of image widgets", "observed": problems[:1]}


def widget_z_index(m, meta):
    """real UrwidImage widgets over KittyImage with and without a z-index in the format specifier: the z-index the widget renders with
    is the one it was allocated (and is later deleted by), live widgets never share one"""
    import tests  # noqa: F401
    from PIL import Image
    from term_image.image import KittyImage, BlockImage
    from term_image.widget import UrwidImage
    KittyImage._supported = True
    problems = []
    img = Image.new("RGB", (4, 4))
    live = []
    for spec in ("", "+z5", "+z5", "+z-7", "+L", "+Wz1"):
        w = UrwidImage(KittyImage(img), spec)
        used = w._ti_style_args.get("z_index")
        if used != w._ti_z_index:
            problems.append(f"UrwidImage(KittyImage, {spec!r}) renders with z-index {used} but is cleared by z-index {w._ti_z_index}")
        canv = w.render((4, 2))
        text = b"".join(seg[2] for row in canv.content() for seg in row).decode()
        if f",z={w._ti_z_index}" not in text:
            problems.append(f"UrwidImage(KittyImage, {spec!r}): render output does not carry z={w._ti_z_index}")
        live.append(w)
    zs = [w._ti_style_args["z_index"] for w in live]
    if len(set(zs)) != len(zs):
        problems.append(f"live widgets render with shared z-indexes: {zs}")
    tw = UrwidImage(BlockImage(img), "")
    if "z_index" in tw._ti_style_args or hasattr(tw, "_ti_z_index"):
        problems.append("a text image widget took a z-index")
    return {"reproduced": bool(problems), "input": "kitty image widgets with format specifiers '', '+z5' (twice), '+z-7', '+L', '+Wz1'", "observed": problems[:4]}


def shard_walk(m, meta, budget=600):
    """BOUNDED stand-in for the assumed half of the walk-step unit: the positions `_ti_clear_images` records for image views against
    urwid's own shard semantics (`urwid.canvas.shard_body` / `shard_body_tail`), on layouts built by urwid itself (`CanvasJoin` of
    `CanvasCombine`s of image and text canvases, 1-3 columns of 1-3 canvases, widths 1-3, heights 1-3)."""
    import itertools, random
    import tests  # noqa: F401
    import urwid
    from urwid import canvas as uc
    from term_image.image import KittyImage
    from term_image.widget import UrwidImageScreen
    from term_image.widget._urwid import UrwidImageCanvas
    KittyImage._supported = True
    problems, n = [], 0
    rnd = random.Random(1)

    class W:
        pass

    def leaf(cols, rows, image):
        if image:
            c = UrwidImageCanvas("\n".join([" " * cols] * rows), (cols, rows), (cols, rows))
            w = W()
            w._ti_image = object.__new__(KittyImage)
            c._widget_info = (w, (cols, rows), False)
            return c
        return urwid.TextCanvas([b" " * cols] * rows, maxcol=cols)
    shapes = [[(h, rnd.random() < 0.6) for h in hs] for k in (1, 2, 3) for hs in itertools.product((1, 2, 3), repeat=k)]
    combos = [c for k in (1, 2, 3) for c in itertools.product(range(len(shapes)), repeat=k)]
    rnd.shuffle(combos)

    class Scr(UrwidImageScreen):
        def __del__(self):
            pass
    screen = object.__new__(Scr)
    for combo in combos[:budget]:
        widths = [rnd.choice((1, 2, 3)) for _ in combo]
        cols_canv = []
        for ci, wd in zip(combo, widths):
            cols_canv.append(urwid.CanvasCombine([(leaf(wd, h, img), None, False) for h, img in shapes[ci]]))
        height = max(c.rows() for c in cols_canv)
        joined = urwid.CanvasJoin([(c, None, False, c.cols()) for c in cols_canv]) if len(cols_canv) > 1 else urwid.CompositeCanvas(cols_canv[0])
        n += 1
        # oracle: urwid's own shard bodies
        want = set()
        tail, row = [], 1
        for num_rows, cviews in joined.shards:
            body = uc.shard_body(cviews, tail, False)
            col = 1
            for done_rows, _it, cview in body:
                if done_rows == 0 and isinstance(cview[5], UrwidImageCanvas):
                    want.add((cview[5], row, col, cview[0], cview[1], cview[2], cview[3]))
                col += cview[2]
            tail = uc.shard_body_tail(num_rows, body)
            row += num_rows
        screen._ti_screen_canv = joined
        screen._ti_image_cviews = frozenset()
        screen.clear_images = lambda *a, **k: None
        screen._ti_clear_images()
        got = set(screen._ti_image_cviews)
        # the layout of the key tuple is the library's own business: a view is compared as (its canvas, the numbers recorded for it)
        norm = lambda st: sorted((id(next(x for x in k if isinstance(x, UrwidImageCanvas))), tuple(sorted(x for x in k if isinstance(x, int)))) for k in st)
        if norm(got) != norm(want):
            pos = lambda st: sorted(tuple(x for x in k if isinstance(x, int)) for k in st)
            problems.append({"columns": [[(wd, h, img) for h, img in shapes[ci]] for ci, wd in zip(combo, widths)], "recorded": pos(got), "urwid": pos(want)})
            if len(problems) >= 3:
                break
    return {"reproduced": bool(problems), "input": f"{n} layouts (<= 3 columns of <= 3 canvases, widths and heights 1..3)", "observed": problems}
