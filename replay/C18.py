"""Replay for C18: the real UrwidImageScreen driven with real urwid canvases; output captured instead of written to a tty."""


def screen(m, meta):
    import tests
    import urwid
    from PIL import Image
    import term_image.geometry as G
    from term_image.image import KittyImage
    from term_image.widget import UrwidImage, UrwidImageScreen
    import term_image._ctlseqs as ctlseqs
    tests.set_cell_size(G.Size(9, 18))
    tests.set_terminal_name_version("kitty", "0.30.0")
    KittyImage._supported = True
    KittyImage._TERM, KittyImage._KITTY_VERSION = "kitty", (0, 30, 0)
    problems = []
    out = []
    scr = UrwidImageScreen.__new__(UrwidImageScreen)
    scr._ti_screen_canv = None
    scr._ti_image_cviews = frozenset()
    scr.write = lambda data: out.append(("write", data))
    scr.flush = lambda: out.append(("flush",))
    img = KittyImage(Image.new("RGB", (20, 20), (1, 2, 3)))
    widget = UrwidImage(img)
    layout = urwid.Pile([("pack", urwid.Text("header")), urwid.Filler(widget)])
    canv1 = layout.render((30, 12))
    scr._ti_screen_canv = canv1
    scr._ti_clear_images()
    if not scr._ti_image_cviews:
        problems.append("image view not registered after drawing an image layout")
    # the image disappears: the top widget is now a SolidFill (its canvas is not a CompositeCanvas)
    canv2 = urwid.SolidFill("x").render((30, 12))
    scr._ti_screen_canv = canv2
    n0 = len(out)
    try:
        scr._ti_clear_images()
    except Exception as e:
        problems.append(f"redraw without the image raised {type(e).__name__}: {e}")
    else:
        sent = "".join(d for k, *r in out[n0:] if k == "write" for d in r)
        if "a=d" not in sent:
            problems.append("the image that disappeared was not deleted")
        if scr._ti_image_cviews:
            problems.append("stale image views kept")
    # draw_screen brackets
    return {"reproduced": bool(problems), "input": "Pile(Text, Filler(UrwidImage(KittyImage))) drawn, then SolidFill drawn", "observed": problems}
