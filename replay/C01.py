"""Replay for C01: seeded search of the function-level contract (DESIGN 2.5): real renders of all three styles interpreted by the
concrete VT model; geometry clauses of the property checked on each."""
import random


def _check(tag, out, W, H, rng, problems):
    from replay.vt import VT
    r0 = rng.randint(0, 5)
    vt = VT(width=max(W, 1) + rng.randint(0, 6), height=H + 10, row=r0, col=0).feed(out)
    exp = {(r, c) for r in range(r0, r0 + H) for c in range(W)}
    t = vt.touched()
    errs = []
    if out.count("\n") != H - 1: errs.append(("newlines", out.count("\n"), "expected", H - 1))
    if out.endswith("\n"): errs.append("trailing-newline")
    if vt.incomplete: errs.append("incomplete control sequence")
    if t - exp: errs.append(("cells outside the rectangle", sorted(t - exp)[:3]))
    if exp - t: errs.append(("cells not covered", sorted(exp - t)[:3]))
    if vt.scrolled or vt.wrapped: errs.append(("scroll/wrap", vt.scrolled, vt.wrapped))
    if (vt.row, min(vt.col, vt.W - 1)) != (r0 + H - 1, min(W, vt.W - 1)): errs.append(("cursor", (vt.row, vt.col), "expected", (r0 + H - 1, W)))
    if (vt.fg, vt.bg) != (None, None): errs.append(("attributes not reset", vt.fg, vt.bg))
    if [x for x in vt.log if x[0].endswith("?")]: errs.append(("unknown sequence", vt.log[:2]))
    if errs:
        problems.append({"render": tag, "failed": errs[:3]})


def render(m, meta, trials=60, styles=("block", "kitty", "iterm2")):
    import tests
    import term_image.geometry as G
    from term_image.image import BlockImage, KittyImage, ITerm2Image
    from PIL import Image
    from replay.util import ival
    rng = random.Random(2)
    problems = []
    imgs = []
    for mode in ("RGB", "RGBA", "L", "P", "LA"):
        im = Image.new(mode, (rng.randint(1, 40), rng.randint(1, 40)))
        im.putdata([rng.choice([0, 1, 2, 255]) if mode in ("L", "P") else tuple(rng.choice([0, 128, 255]) for _ in mode) for _ in range(im.width * im.height)])
        imgs.append(im)
    w0, h0 = max(1, min(ival(m, "W", 3), 40)), max(1, min(ival(m, "H", 2), 20))
    for trial in range(trials):
        W, H = (w0, h0) if trial == 0 else (rng.randint(1, 12), rng.randint(1, 6))
        alpha = rng.choice(["", "#", "#.3", "#00ff00", "##"])
        im = rng.choice(imgs)
        if trial % 2 == 0:
            # an image at exactly the render resolution (no resampling): transparent / equal neighbouring pixels survive
            mode = rng.choice(["RGB", "RGBA"])
            im = Image.new(mode, (W, 2 * H))
            im.putdata([tuple(rng.choice([0, 255]) for _ in mode) for _ in range(W * 2 * H)])
        if "block" in styles:
            for bg in (None, (0, 0, 0), (0, 128, 255)):
                tests.set_fg_bg_colors((255, 255, 255), bg)
                if rng.random() < 0.5:
                    tests.toggle_is_on_kitty()
                b = BlockImage(im, width=W, height=H)
                _check(("block", W, H, alpha, im.mode, bg), format(b, "1.1" + alpha), W, H, rng, problems)
        if "kitty" in styles:
            for term in (("kitty", "0.30.0"), ("konsole", "22.12.0")):
                tests.set_terminal_name_version(*term)
                KittyImage._supported = True
                KittyImage._TERM = term[0]
                KittyImage._KITTY_VERSION = (0, 30, 0) if term[0] == "kitty" else ()
                tests.set_cell_size(G.Size(rng.choice([1, 5, 9, 10]), rng.choice([1, 2, 18, 21])))
                k = KittyImage(im, width=W, height=H)
                for meth in ("L", "W"):
                    sp = "1.1" + alpha + "+" + meth + rng.choice(["", "z5", "m1", "c0", "z-3m1c9"])
                    _check(("kitty", term[0], W, H, sp), format(k, sp), W, H, rng, problems)
                    # blend=False is what animations and the urwid widget pass (no format-specifier field for it)
                    mix = rng.random() < 0.5
                    out = k._renderer(k._render_image, None, method={"L": "lines", "W": "whole"}[meth], blend=False, mix=mix)
                    _check(("kitty", term[0], W, H, meth, "blend=False", "mix=%s" % mix), out, W, H, rng, problems)
        if "iterm2" in styles:
            for term in ("iterm2", "konsole", "wezterm"):
                ITerm2Image._TERM = term
                ITerm2Image._supported = True
                tests.set_cell_size(G.Size(rng.choice([1, 5, 9]), rng.choice([1, 2, 18])))
                it = ITerm2Image(im, width=W, height=H)
                for meth in ("L", "W", "A"):
                    sp = "1.1" + alpha + "+" + meth + rng.choice(["", "m1", "c0"])
                    _check(("iterm2", term, W, H, sp), format(it, sp), W, H, rng, problems)
        if problems:
            break
    return {"reproduced": bool(problems), "input": "seeded random renders (first one sized from the model) interpreted by the concrete VT model", "observed": problems[:3]}


def render_block(m, meta):
    return render(m, meta, trials=150, styles=("block",))


def forced_support_quirks(m, meta):
    """fresh style classes (support status not yet determined) with support FORCED before the first instance is created, on each
    terminal identity: the render still has to cover its rectangle in that terminal's quirk mode (WezTerm: the cells are erased
    first, or text already there stays on top of the image)"""
    import tests
    import term_image.geometry as G
    from term_image.image import KittyImage, ITerm2Image
    from PIL import Image
    rng = random.Random(4)
    problems = []
    tests.set_cell_size(G.Size(9, 18))
    saved = {c: (c._supported, getattr(c, "_TERM", None), getattr(c, "_TERM_VERSION", None), c._forced_support) for c in (KittyImage, ITerm2Image)}
    saved_kv = getattr(KittyImage, "_KITTY_VERSION", None)
    try:
        for cls, terms in ((ITerm2Image, (("wezterm", "20230712"), ("konsole", "22.12.3"), ("iterm2", "3.5.0"))), (KittyImage, (("kitty", "0.30.0"), ("konsole", "22.12.3")))):
            for term in terms:
                for forced in (True, False):
                    tests.set_terminal_name_version(*term)
                    cls._supported = None
                    cls._TERM = ""
                    if hasattr(cls, "_TERM_VERSION"):
                        cls._TERM_VERSION = ""
                    cls.forced_support = forced
                    im = Image.new("RGB", (30, 20), (10, 200, 30))
                    try:
                        image = cls(im, width=6, height=3)
                    except Exception as e:  # noqa: BLE001
                        if forced or type(e).__name__ != "StyleError":       # (not forced: the stub terminal may well not answer the support query)
                            problems.append({"style": cls.__name__, "terminal": term[0], "forced": forced, "construction": f"{type(e).__name__}: {e}"})
                        continue
                    W, H = image.rendered_size
                    for meth in ("L", "W"):
                        out = format(image, "1.1+" + meth)
                        n0 = len(problems)
                        _check((cls.__name__, term[0], "forced_support=%s set before the first instance" % forced, "+" + meth), out, W, H, rng, problems)
                        if cls is ITerm2Image and term[0] == "wezterm" and "\x1b[%dX" % W not in out and len(problems) == n0:
                            problems.append({"render": (cls.__name__, term[0], "forced_support=%s" % forced, "+" + meth),
                                             "failed": "the cells are not erased before the image (WezTerm keeps the text under it)"})
        # a subclass is the first iterm2-style class whose support is determined; then the base class and a sibling are used
        for term in (("wezterm", "20230712"), ("konsole", "22.12.3"), ("iterm2", "3.5.0")):
            tests.set_terminal_name_version(*term)
            ITerm2Image.forced_support = False
            ITerm2Image._supported = None
            ITerm2Image._TERM = ""
            ITerm2Image._TERM_VERSION = ""

            class Thumb(ITerm2Image):
                pass

            class Other(ITerm2Image):
                pass
            im = Image.new("RGB", (30, 20), (10, 200, 30))
            try:
                Thumb(im, width=6, height=3)
                for cls in (ITerm2Image, Other):
                    image = cls(im, width=6, height=3)
                    W, H = image.rendered_size
                    for meth in ("L", "W"):
                        out = format(image, "1.1+" + meth)
                        n0 = len(problems)
                        _check((cls.__name__, term[0], "used after a subclass determined the support status", "+" + meth), out, W, H, rng, problems)
                        if term[0] == "wezterm" and "\x1b[%dX" % W not in out and len(problems) == n0:
                            problems.append({"render": (cls.__name__, term[0], "after a subclass determined the support status", "+" + meth),
                                             "failed": "the cells are not erased before the image (WezTerm keeps the text under it)"})
                        if term[0] == "konsole" and "doNotMoveCursor=1" not in out and len(problems) == n0:
                            problems.append({"render": (cls.__name__, term[0], "after a subclass determined the support status", "+" + meth),
                                             "failed": "rendered in non-Konsole mode on Konsole (no doNotMoveCursor=1: the cursor ends elsewhere)"})
            except Exception as e:  # noqa: BLE001
                if type(e).__name__ != "StyleError":
                    problems.append({"terminal": term[0], "subclass first": f"{type(e).__name__}: {e}"})
    finally:
        for c, (sup, term, ver, forced) in saved.items():
            c.forced_support = forced
            c._supported, c._TERM = sup, term
            if ver is not None:
                c._TERM_VERSION = ver
        if saved_kv is not None:
            KittyImage._KITTY_VERSION = saved_kv
        tests.set_terminal_name_version("kitty", "0.30.0")
    return {"reproduced": bool(problems), "input": "fresh style classes, support forced (or not) before the first instance, every terminal identity", "observed": problems[:3]}


def dynamic_size(m, meta):
    """images with a DYNAMIC size setting (Size.AUTO / FIT / ORIGINAL / FIT_TO_WIDTH), sources smaller and larger than the frame:
    the rectangle advertised by rendered_width / rendered_height / rendered_size (each computed on its own) is the rectangle the
    render output occupies"""
    import tests
    import term_image.geometry as G
    from term_image.image import BlockImage, KittyImage, ITerm2Image, Size
    from PIL import Image
    rng = random.Random(8)
    problems = []
    tests.set_cell_size(G.Size(9, 18))
    tests.set_terminal_name_version("kitty", "0.30.0")
    KittyImage._supported = ITerm2Image._supported = True
    KittyImage._TERM, KittyImage._KITTY_VERSION = "kitty", (0, 30, 0)
    ITerm2Image._TERM = "iterm2"
    for cls in (BlockImage, KittyImage, ITerm2Image):
        for src in ((12, 32), (40, 10), (300, 200), (30, 900), (1, 1), (79, 56)):
            for setting in (Size.AUTO, Size.FIT, Size.ORIGINAL, Size.FIT_TO_WIDTH):
                image = cls(Image.new("RGB", src, (9, 99, 199)))
                try:
                    image.size = setting
                    H_ = image.rendered_height
                    W_ = image.rendered_width
                    WH = tuple(image.rendered_size)
                    out = image._renderer(image._render_image, None)
                except Exception as e:  # noqa: BLE001  (a size that does not fit the stub terminal)
                    if type(e).__name__ == "InvalidSizeError":
                        continue
                    raise
                if (W_, H_) != WH:
                    problems.append({"style": cls.__name__, "source": src, "size setting": str(setting), "rendered_width, rendered_height": (W_, H_), "rendered_size": WH})
                    continue
                tag = (cls.__name__, "source %dx%d" % src, "size=%s" % setting.name, "advertised %dx%d" % (W_, H_))
                if W_ <= 80:
                    _check(tag, out, W_, H_, rng, problems)
                elif out.count("\n") != H_ - 1:
                    problems.append({"render": tag, "failed": ("newlines", out.count("\n"), "expected", H_ - 1)})
            if problems:
                break
        if problems:
            break
    return {"reproduced": bool(problems), "input": "dynamic size settings x source sizes x styles: advertised rectangle vs the render output", "observed": problems[:3]}
