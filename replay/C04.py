"""Replays for C04: the solver's model becomes a real image object (original size, no pixel data needed), a patched
terminal size / cell size / cell ratio, and the real _valid_size / set_size is run; the clauses of spec/sizing.py
are then evaluated on the concrete result (exact rational arithmetic)."""
import os
from fractions import Fraction
from replay.util import ival, rval
from spec import sizing as SZ


def _image(fam, ow, oh):
    from term_image.image import BlockImage, KittyImage
    cls = BlockImage if fam == "text" else KittyImage
    img = object.__new__(cls)
    img._original_size = (ow, oh)
    img._size = (1, 1)
    img._closed = False
    return img


def _patch(tw, th, cw, ch, pr):
    import term_image.image.common as C
    from term_image.geometry import Size
    C.get_terminal_size = lambda: os.terminal_size((tw, th))
    C.get_cell_size = lambda: Size(cw, ch)
    C.get_cell_ratio = lambda: pr / 2


def _params(m, fam):
    P = dict(ow=ival(m, "ow"), oh=ival(m, "oh"), tw=ival(m, "tw", 80), th=ival(m, "th", 24), cw=ival(m, "cw", 1), ch=ival(m, "ch", 2),
             pr=rval(m, "pr", 1.0), f0=ival(m, "f0", 0), f1=ival(m, "f1", 0), given=ival(m, "given", 1))
    if fam == "text":
        P["cw"], P["ch"] = 1, 2
    else:
        P["pr"] = 1.0
    return P


def valid_size(m, meta):
    """the model first; if it does not reproduce (the solver's reals need not be doubles), a seeded search of the
    same function-level contract around the model's values (DESIGN 2.5)"""
    import random
    fam = meta.get("fam", "text")
    first = _valid_size_once(_params(m, fam), meta)
    if first["reproduced"]:
        return first
    rng = random.Random(12345)
    base = _params(m, fam)
    for i in range(4000):
        P = dict(base)
        for k in ("ow", "oh", "tw", "th", "given"):
            P[k] = max(1, base[k] + rng.randint(-3, 3)) if rng.random() < 0.5 else rng.randint(1, 40)
        for k in ("f0", "f1"):
            P[k] = rng.choice([base[k], rng.randint(-5, 30)])
        if fam == "text":
            P["pr"] = rng.choice([base["pr"], 0.5, 1.0, 2.0, 0.8, 3.0, rng.uniform(0.2, 4)])
        else:
            P["cw"], P["ch"] = rng.choice([(base["cw"], base["ch"]), (rng.randint(1, 12), rng.randint(1, 24))])
        r = _valid_size_once(P, meta)
        if r["reproduced"]:
            r["note"] = f"found by seeded search around the model (try {i}); model itself: {first['observed']}"
            return r
    first["note"] = "model did not reproduce; seeded search (4000 inputs) found no failing input"
    return first


def _valid_size_once(P, meta):
    from term_image.image import Size
    fam, mode = meta.get("fam", "text"), meta.get("mode", "FIT")
    _patch(P["tw"], P["th"], P["cw"], P["ch"], P["pr"])
    img = _image(fam, P["ow"], P["oh"])
    label = mode.split("(")[0]
    as_height = "(as height)" in mode
    arg = P["given"] if label in ("WIDTH", "HEIGHT") else Size[label]
    args = (None, arg) if (as_height or label == "HEIGHT") else (arg, None)
    cols, lines = SZ.resolve_frame_dim(P["f0"], P["tw"]), SZ.resolve_frame_dim(P["f1"], P["th"])
    try:
        W, H = img._valid_size(*args, (P["f0"], P["f1"]))
    except Exception as e:
        return {"reproduced": True, "input": P, "observed": f"raised {type(e).__name__}: {e}"}
    pr = Fraction(P["pr"])
    failed = []
    if not (isinstance(W, int) and isinstance(H, int)):
        failed.append("result-is-integer-pair")
    else:
        cl = SZ.clauses(label, W, H, cols, lines, P["ow"], P["oh"], pr, P["cw"], P["ch"], P["given"])
        if label == "AUTO":
            cl["fits-frame"] = W <= cols and H <= lines
            fw, fh = SZ.cols_to_px(fam, cols, P["cw"]), SZ.lines_to_px(fam, lines, P["ch"])
            fits = P["ow"] <= fw and round(P["oh"] * P["pr"]) <= fh
            other = img._valid_size(Size.ORIGINAL if fits else Size.FIT, None, (P["f0"], P["f1"]))
            cl["AUTO-rule"] = (W, H) == tuple(other)
        failed = [k for k, v in cl.items() if not v]
    return {"reproduced": bool(failed), "input": {**P, "mode": mode, "family": fam, "frame(cells)": (cols, lines)}, "observed": (W, H), "failed_clauses": failed}


def conversion(m, meta):
    from term_image.image import BlockImage, KittyImage
    import term_image.image.common as C
    from term_image.geometry import Size
    p, cw, ch = ival(m, "p", 0), ival(m, "cw", 1), ival(m, "ch", 2)
    C.get_cell_size = lambda: Size(cw, ch)
    bad = []
    for fam, cls, c, h in (("text", BlockImage, 1, 2), ("gfx", KittyImage, cw, ch)):
        for got, exp, what in ((cls._pixels_cols(pixels=p), SZ.px_to_cols(fam, p, c), "px->cols"), (cls._pixels_cols(cols=p), SZ.cols_to_px(fam, p, c), "cols->px"),
                               (cls._pixels_lines(pixels=p), SZ.px_to_lines(fam, p, h), "px->lines"), (cls._pixels_lines(lines=p), SZ.lines_to_px(fam, p, h), "lines->px")):
            if got != exp:
                bad.append((fam, what, p, got, exp))
    return {"reproduced": bool(bad), "input": {"p": p, "cell": (cw, ch)}, "observed": bad}


def set_size(m, meta):
    w, h = ival(m, "w_arg", 1), ival(m, "h_arg", 1)
    img = _image("text", 10, 10)
    _patch(80, 24, 1, 2, 1.0)
    out = []
    if w > 0 and h > 0:
        img.set_size(w, h)
        if img._size != (w, h):
            out.append(("set_size(w, h) stored", img._size, "expected", (w, h)))
        img.size = (w, h)
        if img._size != (w, h):
            out.append(("size = (w, h) stored", img._size))
    for bad in ((0, None), (None, -1), (w, 0)):
        before = img._size
        try:
            img.set_size(*bad)
            out.append(("no error for", bad))
        except ValueError:
            if img._size != before:
                out.append(("size changed by rejected call", bad))
    return {"reproduced": bool(out), "input": (w, h), "observed": out}


def renderer(m, meta):
    """_renderer(): the image's size setting (fixed or dynamic) is what it was on every exit - normal return, an error in the
    renderer, a size rejected by validation"""
    import tests  # noqa: F401
    from PIL import Image
    from term_image.exceptions import InvalidSizeError
    from term_image.image import BlockImage, Size
    problems = []

    class Boom(Exception):
        pass
    for setting in (Size.FIT, Size.AUTO, Size.ORIGINAL, Size.FIT_TO_WIDTH, "fixed"):
        for outcome in ("return", "raise", "KeyboardInterrupt"):
            for kw in ({}, {"check_size": True}, {"animated": True}, {"scroll": True, "check_size": True}):
                image = BlockImage(Image.new("RGB", (300, 900)))
                if setting == "fixed":
                    image.set_size(width=10)
                else:
                    image.size = setting
                before = image.size

                def render(img, outcome=outcome):
                    if outcome == "raise":
                        raise Boom()
                    if outcome == "KeyboardInterrupt":
                        raise KeyboardInterrupt()
                    return "ok"
                try:
                    image._renderer(render, **kw)
                except (Boom, KeyboardInterrupt, InvalidSizeError):
                    pass
                if image.size != before:
                    problems.append({"size setting": repr(before), "renderer outcome": outcome, "arguments": kw, "size setting afterwards": repr(image.size)})
    # a render attempted on an image that was closed before: it fails, and the size setting is still what it was
    from term_image.exceptions import TermImageError
    for setting in (Size.FIT, Size.AUTO, Size.ORIGINAL, Size.FIT_TO_WIDTH, "fixed"):
        for attempt in ("str", "format", "draw"):
            image = BlockImage(Image.new("RGB", (30, 90)))
            if setting == "fixed":
                image.set_size(width=10)
            else:
                image.size = setting
            before = image._size
            image.close()
            try:
                {"str": lambda: str(image), "format": lambda: format(image, ""), "draw": lambda: image.draw()}[attempt]()
            except (TermImageError, ValueError, AttributeError):
                pass
            if image._size != before:
                problems.append({"size setting": repr(before), "image closed, then": attempt, "size setting afterwards": repr(image._size)})
    return {"reproduced": bool(problems), "input": "every size setting x renderer outcome x validation mode; renders of a closed image", "observed": problems[:3]}
