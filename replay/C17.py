from replay.util import ival
from spec import trim as ST


def calc_trim(m, meta):
    from term_image.widget import UrwidImageCanvas
    a = [ival(m, k, 0) for k in ("size", "image_size", "trim_side1", "pad_side1", "trim_side2", "pad_side2")]
    got = tuple(UrwidImageCanvas._ti_calc_trim(*a))
    exp = tuple(ST.spec_calc_trim(*a))
    return {"reproduced": got != exp, "input": a, "observed": got, "expected": exp}
