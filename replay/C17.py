from replay.util import ival
from spec import trim as ST


def calc_trim(m, meta):
    from term_image.widget import UrwidImageCanvas
    if "size" not in m:
        # no model: every canvas axis up to 9 cells (padding | image | padding) and every window inside it
        n = 0
        for size in range(1, 10):
            for img in range(1, size + 1):
                for p1 in range(0, size - img + 1):
                    p2 = size - img - p1
                    for t1 in range(0, size):
                        for t2 in range(0, size - t1):
                            a = [size, img, t1, p1, t2, p2]
                            n += 1
                            got, exp = tuple(UrwidImageCanvas._ti_calc_trim(*a)), tuple(ST.spec_calc_trim(*a))
                            if got != exp:
                                return {"reproduced": True, "input": a, "observed": got, "expected": exp}
        return {"reproduced": False, "input": f"all {n} (size, image, trims, paddings) with size <= 9", "observed": []}
    a = [ival(m, k, 0) for k in ("size", "image_size", "trim_side1", "pad_side1", "trim_side2", "pad_side2")]
    got = tuple(UrwidImageCanvas._ti_calc_trim(*a))
    exp = tuple(ST.spec_calc_trim(*a))
    return {"reproduced": got != exp, "input": a, "observed": got, "expected": exp}


def _cells(segments):
    """a content() row -> ([(glyph, fg, bg)] per column, colour in force at the end)"""
    import re
    sgr = re.compile(rb"\x1b\[([0-9;]*)m")
    data = b"".join(t for *_, t in segments).replace(b"\0", b"")
    fg = bg = None
    out = []
    i = 0
    while i < len(data):
        mm = sgr.match(data, i)
        if mm:
            p = mm.group(1)
            if p in (b"", b"0"):
                fg = bg = None
            else:
                nums = tuple(map(int, p.split(b";")))
                if nums[0] == 38:
                    fg = nums[2:]
                elif nums[0] == 48:
                    bg = nums[2:]
            i = mm.end()
            continue
        ch = data[i:].decode("utf-8", "replace")[0]
        n = len(ch.encode())
        out.append((ch, None if ch == " " else fg, bg))     # the foreground is invisible on a blank
        i += n
    return out, (fg, bg)


def content(m, meta, budget=4000):
    """text images: every trim of small canvases against the crop of the untrimmed canvas (cell by cell, colours included)"""
    import random
    import tests  # noqa: F401  terminal stubs of the repository's own test package
    from PIL import Image
    from term_image import set_cell_ratio
    from term_image.image import BlockImage
    from term_image.widget import UrwidImage
    set_cell_ratio(0.5)
    rng = random.Random(5)
    pal = [(0, 0, 0, 255), (255, 0, 0, 255), (0, 255, 0, 255), (9, 9, 200, 255), (7, 7, 7, 0)]
    done = 0
    for trial in range(60):
        w, h = rng.randint(1, 6), rng.randint(1, 3) * 2
        img = Image.new("RGBA", (w, h))
        px = []
        for y in range(h):
            c = rng.choice(pal)
            for x in range(w):
                if rng.random() < 0.35:
                    c = rng.choice(pal)
                px.append(c)
        img.putdata(px)
        image = BlockImage(img)
        for fmt in ("", "<", ">", ".^", "._", "<.^", ">._"):
            widget = UrwidImage(image, fmt, upscale=bool(trial % 2))
            size = (w + rng.randint(0, 3), h // 2 + rng.randint(0, 2))
            canv = widget.render(size)
            if not canv.widget_info:
                canv.finalize(widget, size, False)
            W, H = canv.cols(), canv.rows()
            full = [_cells(r)[0] for r in canv.content()]
            if trial % 2:
                # the same widget / image rendered again at another size: a canvas keeps showing what it was built from
                widget.render((size[0] + 3, size[1] + 2))
            if len(full) != H or any(len(r) != W for r in full):
                return {"reproduced": True, "input": f"image {w}x{h} fmt={fmt!r} size={size}", "observed": "untrimmed canvas is not rows x cols"}
            for tl in range(W):
                for tt in range(H):
                    for c in range(1, W - tl + 1):
                        for r in range(1, H - tt + 1):
                            done += 1
                            if done > budget * 40:
                                break
                            got = [_cells(row) for row in canv.content(tl, tt, c, r)]
                            exp = [row[tl:tl + c] for row in full[tt:tt + r]]
                            if [g for g, _ in got] != exp or any(e != (None, None) for _, e in got):
                                return {"reproduced": True, "input": f"image {w}x{h} pixels={px} fmt={fmt!r} size={size} content({tl},{tt},{c},{r})",
                                        "observed": repr([g for g, _ in got])[:600], "expected": repr(exp)[:600]}
    # graphics-based: vertical trimming selects the lines, horizontal trimming gives blanks
    from term_image.image import KittyImage
    KittyImage._supported = True
    for trial in range(6):
        w, h = rng.randint(1, 5), rng.randint(1, 4)
        img = Image.new("RGB", (w * 4, h * 8), (10 * trial, 3, 200))
        widget = UrwidImage(KittyImage(img), "", upscale=True)
        size = (w + rng.randint(0, 2), h + rng.randint(0, 2))
        canv = widget.render(size)
        if not canv.widget_info:
            canv.finalize(widget, size, False)
        W, H = canv.cols(), canv.rows()
        strip = lambda t: t.replace(b"\b ", b"")
        full = [b"".join(strip(t) for *_, t in row) for row in canv.content()]
        for tl in range(W):
            for tt in range(H):
                for c in range(1, W - tl + 1):
                    for r in range(1, H - tt + 1):
                        done += 1
                        got = [b"".join(strip(t) for *_, t in row) for row in canv.content(tl, tt, c, r)]
                        exp = full[tt:tt + r] if (tl == 0 and c == W) else [b" " * c] * r
                        if got != exp:
                            return {"reproduced": True, "input": f"KittyImage canvas {W}x{H} content({tl},{tt},{c},{r})", "observed": repr(got)[:500], "expected": repr(exp)[:500]}
    return {"reproduced": False, "input": f"{done} trims of random small canvases", "observed": []}


def rows(m, meta):
    """flow widgets: rows((cols,)) against the canvas render((cols,)) builds, after earlier calls made under another cell ratio"""
    import random
    import tests  # noqa: F401
    from PIL import Image
    from term_image import set_cell_ratio
    from term_image.image import BlockImage, Size
    from term_image.widget import UrwidImage
    rng = random.Random(3)
    for trial in range(300):
        img = Image.new("RGB", (rng.randint(1, 40), rng.randint(1, 40)))
        for sizing in (Size.FIT, Size.AUTO):
            kw = {"upscale": True} if sizing is Size.FIT else {}
            widget = UrwidImage(BlockImage(img), **kw)
            hist = []
            for step in range(3):
                ratio = rng.choice([0.3, 0.5, 1.0, 2.0])
                set_cell_ratio(ratio)
                cols = rng.randint(1, 60)
                op = rng.choice(["rows", "render", "both"])
                hist.append((ratio, cols, op))
                if op == "rows":
                    widget.rows((cols,))
                elif op == "render":
                    widget.render((cols,))
                else:
                    n = widget.rows((cols,))
                    canv = widget.render((cols,))
                    if n != canv.rows() or canv.cols() != cols:
                        set_cell_ratio(0.5)
                        return {"reproduced": True, "input": f"image {img.size} sizing={sizing} history (cell ratio, cols, call)={hist}",
                                "observed": f"rows() = {n}, rendered canvas = {canv.cols()}x{canv.rows()}"}
    set_cell_ratio(0.5)
    # graphics styles: sizes come from the cell size in pixels, and a source's pixel width need not be a whole number of columns
    import term_image.geometry as G
    from term_image.image import KittyImage, ITerm2Image
    saved = (KittyImage._supported, ITerm2Image._supported)
    KittyImage._supported = ITerm2Image._supported = True
    try:
        for cell in ((10, 20), (9, 18), (7, 15), (1, 2)):
            tests.set_cell_size(G.Size(*cell))
            for cls in (KittyImage, ITerm2Image):
                for trial in range(10):
                    px = (rng.randint(1, 300), rng.randint(1, 500))
                    img = Image.new("RGB", px)
                    for upscale in (False, True):
                        widget = UrwidImage(cls(img), upscale=upscale)
                        for cols in sorted({1, 2, px[0] // cell[0], px[0] // cell[0] + 1, max(1, px[0] // cell[0] - 1), rng.randint(1, 60), rng.randint(1, 60)} - {0}):
                            n = widget.rows((cols,))
                            canv = widget.render((cols,))
                            n_content = len(list(canv.content()))
                            if not (n == canv.rows() == n_content) or canv.cols() != cols:
                                return {"reproduced": True, "input": f"{cls.__name__} image {px} px, cell size {cell}, upscale={upscale}, flow width {cols}",
                                        "observed": f"rows() = {n}, rendered canvas = {canv.cols()}x{canv.rows()}, content yields {n_content} rows"}
    finally:
        KittyImage._supported, ITerm2Image._supported = saved
        tests.set_cell_size(G.Size(9, 18))
    return {"reproduced": False, "input": "900 random three-step histories (text style); graphics styles over cell sizes x pixel sizes x flow widths", "observed": []}
