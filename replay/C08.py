"""Replays for C08/C09/C10: a scripted renderable and the real RenderIterator."""
from replay.util import ival


def _renderable(n_frames=3):
    from term_image.renderable import Renderable, Frame
    from term_image.geometry import Size

    class R(Renderable):
        def __init__(self, n):
            super().__init__(n, 1)
            self.rendered = []
        def _get_render_size_(self):
            return Size(2, 2)
        def _render_(self, render_data, render_args):
            d = render_data[Renderable]
            self.rendered.append(d.frame_offset)
            w, h = d.size
            return Frame(d.frame_offset, 1, d.size, "\n".join([str(d.frame_offset % 10) * w] * h))
    return R(n_frames)


def set_padding(m, meta):
    """set_padding with a relative AlignedPadding: must resolve against the terminal size and apply, not raise"""
    from term_image.render import RenderIterator
    from term_image.padding import AlignedPadding
    from term_image.geometry import Size
    import term_image.render._iterator as I
    import os
    I.get_terminal_size = lambda: os.terminal_size((80, 24))
    it = RenderIterator(_renderable(3))
    next(it)
    pad = AlignedPadding(0, -2)
    before = (it._padding, it._padded_size)
    try:
        it.set_padding(pad)
    except Exception as e:
        half = it._padding is not before[0]
        return {"reproduced": True, "input": "RenderIterator(r); next(it); it.set_padding(AlignedPadding(0, -2))", "observed": f"{type(e).__name__}: {e}",
                "state_half_applied": half, "expected": "padding resolved to (80, 22) and applied from the next frame"}
    f = next(it)
    ok = tuple(f.render_size) == (80, 22)
    return {"reproduced": not ok, "input": "set_padding(AlignedPadding(0, -2)) on an 80x24 terminal", "observed": tuple(f.render_size), "expected": (80, 22)}
