"""Replays for C08/C09/C10: a scripted renderable and the real RenderIterator."""
from replay.util import ival


def _renderable(n_frames=3):
    from term_image.renderable import Renderable, Frame
    from term_image.geometry import Size

    class R(Renderable):
        def __init__(self, n):
            super().__init__(n, 1)
            self.rendered = []
        def _get_render_size_(self):
            return Size(2, 2)
        def _render_(self, render_data, render_args):
            d = render_data[Renderable]
            self.rendered.append(d.frame_offset)
            w, h = d.size
            return Frame(d.frame_offset, 1, d.size, "\n".join([str(d.frame_offset % 10) * w] * h))
    return R(n_frames)


def set_padding(m, meta):
    """set_padding with a relative AlignedPadding: must resolve against the terminal size and apply, not raise"""
    from term_image.render import RenderIterator
    from term_image.padding import AlignedPadding
    from term_image.geometry import Size
    import term_image.render._iterator as I
    import os
    I.get_terminal_size = lambda: os.terminal_size((80, 24))
    it = RenderIterator(_renderable(3))
    next(it)
    pad = AlignedPadding(0, -2)
    before = (it._padding, it._padded_size)
    try:
        it.set_padding(pad)
    except Exception as e:
        half = it._padding is not before[0]
        return {"reproduced": True, "input": "RenderIterator(r); next(it); it.set_padding(AlignedPadding(0, -2))", "observed": f"{type(e).__name__}: {e}",
                "state_half_applied": half, "expected": "padding resolved to (80, 22) and applied from the next frame"}
    f = next(it)
    ok = tuple(f.render_size) == (80, 22)
    if ok:
        # the padded size has to follow the size the ITERATION renders at (set_render_size), not the renderable's own
        from term_image.padding import ExactPadding
        it2 = RenderIterator(_renderable(3))
        next(it2)
        it2.set_render_size(Size(3, 2))
        it2.set_padding(ExactPadding(1, 1, 1, 1))
        f2 = next(it2)
        if tuple(f2.render_size) != (5, 4) or len(f2.render_output.split("\n")) != 4:
            return {"reproduced": True, "input": "next; set_render_size((3, 2)); set_padding(ExactPadding(1, 1, 1, 1)); next",
                    "observed": {"render_size": tuple(f2.render_size), "lines": len(f2.render_output.split("\n"))}, "expected": (5, 4)}
        # ... and the other way round: a new render size under an aligned padding already in effect (per axis: the larger of the
        # minimum and the render dimension), for every combination of narrower / wider and shorter / taller
        for new_size in ((3, 4), (7, 2), (3, 2), (7, 5), (5, 3)):
            it3 = RenderIterator(_renderable(3), padding=AlignedPadding(5, 3))
            next(it3)
            it3.set_render_size(Size(*new_size))
            f3 = next(it3)
            want = (max(5, new_size[0]), max(3, new_size[1]))
            lines = f3.render_output.split("\n")
            if tuple(f3.render_size) != want or len(lines) != want[1] or any(len(l_) != want[0] for l_ in lines):
                return {"reproduced": True, "input": f"AlignedPadding(5, 3) in effect; set_render_size({new_size}); next",
                        "observed": {"render_size": tuple(f3.render_size), "output": (max(len(l_) for l_ in lines), len(lines))}, "expected": want}
        return histories(m, meta, n_hist=1500)
    return {"reproduced": not ok, "input": "set_padding(AlignedPadding(0, -2)) on an 80x24 terminal", "observed": tuple(f.render_size), "expected": (80, 22)}


# ---------------------------------------------------------------------------------------------------------------
# seeded search of the function-level contract (DESIGN 2.5): random operation histories on the real RenderIterator
# against the documented abstract machine, cache on and off (C08 conformance, C09 cache invisibility, C10 typestate)
# ---------------------------------------------------------------------------------------------------------------
def histories(m, meta, n_hist=3000, seed=7):
    import os, random, gc
    import term_image.render._iterator as IT
    from term_image.renderable import Renderable, Frame, FrameDuration, RenderArgs, Seek, ArgsNamespace, IncompatibleRenderArgsError
    from term_image.render import RenderIterator, FinalizedIteratorError
    from term_image.padding import AlignedPadding, ExactPadding
    from term_image.geometry import Size
    IT.get_terminal_size = lambda: os.terminal_size((80, 30))

    class Foo(Renderable):
        renders = 0
        fin = {}
        used_after_fin = 0

        def __init__(self, n, dur=10):
            super().__init__(n, dur)

        def _get_render_size_(self):
            return Size(2, 2)

        def _render_(self, render_data, render_args):
            d = render_data[Renderable]
            if render_data.finalized:
                Foo.used_after_fin += 1
            Foo.renders += 1
            a = render_args[Foo].x
            w, h = d.size
            dur = d.duration if d.duration is not FrameDuration.DYNAMIC else 77
            return Frame(d.frame_offset, dur, d.size, "\n".join((str(d.frame_offset % 10) + str(a))[:w].ljust(w, ".") for _ in range(h)))

        @classmethod
        def _finalize_render_data_(cls, rd):
            Foo.fin[id(rd)] = Foo.fin.get(id(rd), 0) + 1
            super()._finalize_render_data_(rd)

    class FooArgs(ArgsNamespace, render_cls=Foo):
        x: int = 0

    class Bar(Foo):
        pass

    class BarArgs(ArgsNamespace, render_cls=Bar):
        y: int = 0

    derived = {}       # arguments of the operations that depend on the state (computed by the model run, reused by the real runs)

    def model_run(N, loops, ops):
        nxt, loop, closed, size, dur, x, pad = 0, loops, False, Size(2, 2), 10, 0, ExactPadding()
        tr = []
        derived.clear()
        for idx, op in enumerate(ops):
            k = op[0]
            if k == "next":
                if closed:
                    tr.append(("stop",))
                    continue
                if nxt >= N:
                    nxt = 0
                    if loop > 0:
                        loop -= 1
                    if loop == 0:
                        closed = True
                        tr.append(("stop",))
                        continue
                ps = pad.get_padded_size(size)
                w_, h_ = size
                inner = "\n".join((str(nxt % 10) + str(x))[:w_].ljust(w_, ".") for _ in range(h_))
                # (the padded text: the render placed by the padding in effect - alignment, margins and fill included)
                tr.append(("frame", nxt, dur if dur is not FrameDuration.DYNAMIC else 77, tuple(ps), int(str(x)[0]), loop, pad.pad(inner, size)))   # the digit the render shows
                nxt += 1
                continue
            if k == "close":
                closed = True
                tr.append(("ok",))
                continue
            if closed:
                tr.append(("fin",))
                continue
            if k == "seek":
                off, wh = op[1], op[2]
                f = off if wh is Seek.START else (nxt + off if wh is Seek.CURRENT else N + off - 1)
                if not 0 <= f < N:
                    tr.append(("verr",))
                    continue
                nxt = f
            elif k == "size":
                size = op[1]
            elif k == "size=padded":
                size = pad.get_padded_size(size)          # the new render size happens to equal the padded size in effect
                derived[idx] = size
            elif k == "pad~":
                # another padding with the SAME padded size for the current render size: other margins / alignment / fill
                ps = pad.get_padded_size(size)
                dw, dh = ps[0] - size[0], ps[1] - size[1]
                pad = [ExactPadding(dw, 0, 0, dh), ExactPadding(0, dh, dw, 0), ExactPadding(dw // 2, dh // 2, dw - dw // 2, dh - dh // 2, fill="#")][op[1] % 3]
                derived[idx] = pad
            elif k == "dur":
                if isinstance(op[1], int) and op[1] <= 0:
                    tr.append(("verr",))
                    continue
                dur = op[1]
            elif k == "args":
                x = op[1]
            elif k == "childargs":
                # arguments of a proper subclass of the renderable's class are incompatible: rejected, nothing changes
                tr.append(("incompat",))
                continue
            elif k == "pad":
                p = op[1]
                if isinstance(p, AlignedPadding) and p.relative:
                    p = p.resolve(os.terminal_size((80, 30)))
                pad = p
            tr.append(("ok",))
        return tr

    def _x(f):
        for line in f.render_output.split("\n"):
            s = line.strip(" #")
            if len(s) >= 2 and s[0].isdigit():
                return int(s[1]) if s[1].isdigit() else None
        return None

    def real_run(N, loops, cache, ops):
        r = Foo(N)
        it = RenderIterator(r, loops=loops, cache=cache)
        tr = []
        for idx, op in enumerate(ops):
            k = op[0]
            try:
                if k == "next":
                    try:
                        f = next(it)
                        tr.append(("frame", f.number, f.duration, tuple(f.render_size), _x(f), it.loop, f.render_output))
                    except StopIteration:
                        tr.append(("stop",))
                elif k == "seek":
                    it.seek(op[1], op[2]); tr.append(("ok",))
                elif k == "size":
                    it.set_render_size(op[1]); tr.append(("ok",))
                elif k == "size=padded":
                    it.set_render_size(derived.get(idx, Size(2, 2))); tr.append(("ok",))      # (the argument the model derived)
                elif k == "pad~":
                    it.set_padding(derived.get(idx, ExactPadding())); tr.append(("ok",))
                elif k == "dur":
                    it.set_frame_duration(op[1]); tr.append(("ok",))
                elif k == "args":
                    it.set_render_args(RenderArgs(Foo, FooArgs(op[1]))); tr.append(("ok",))
                elif k == "childargs":
                    it.set_render_args(RenderArgs(Bar, BarArgs(op[1]))); tr.append(("ok",))
                elif k == "pad":
                    it.set_padding(op[1]); tr.append(("ok",))
                elif k == "close":
                    it.close(); tr.append(("ok",))
            except FinalizedIteratorError:
                tr.append(("fin",))
            except IncompatibleRenderArgsError:
                tr.append(("incompat",))
            except ValueError:
                tr.append(("verr",))
            except Exception as e:
                tr.append(("EXC", type(e).__name__))
        moved = r.tell() != 0
        return tr, it, moved

    rng = random.Random(seed)

    def rnd_ops(N):
        ops = []
        for _ in range(rng.randint(1, 25)):
            c = rng.random()
            if c < 0.5: ops.append(("next",))
            elif c < 0.7: ops.append(("seek", rng.randint(-N - 1, N + 1), rng.choice(list(Seek))))
            elif c < 0.78: ops.append(("size", Size(rng.randint(2, 4), rng.randint(1, 3))))
            elif c < 0.84: ops.append(("dur", rng.choice([5, 20, FrameDuration.DYNAMIC, 0, -3])))
            elif c < 0.86: ops.append(("args", rng.choice([0, 1, 2, 3, 2 ** 61])))
            elif c < 0.87: ops.append(("size=padded",))
            elif c < 0.88: ops.append(("pad~", rng.randint(0, 2)))
            elif c < 0.9: ops.append(("childargs", rng.choice([4, 5])))      # hash(2**61) == hash(1): equal hashes, different arguments
            elif c < 0.96: ops.append(("pad", rng.choice([ExactPadding(1, 0, 2, 1), AlignedPadding(6, 4), AlignedPadding(1, 1), ExactPadding(), AlignedPadding(0, -2)])))
            else: ops.append(("close",))
        return ops

    for t in range(n_hist):
        N = rng.randint(2, 5)
        loops = rng.choice([1, 2, 3, -1])
        ops = rnd_ops(N)
        mod = model_run(N, loops, ops)
        res = {}
        for cache in (False, True):
            Foo.renders = 0
            Foo.fin.clear()
            Foo.used_after_fin = 0
            tr, it, moved = real_run(N, loops, cache, ops)
            it.close()
            del it
            gc.collect()
            res[cache] = tr
            fin_counts = list(Foo.fin.values())
            if moved or Foo.used_after_fin or fin_counts != [1]:
                return {"reproduced": True, "input": {"frames": N, "loops": loops, "cache": cache, "ops": repr(ops)},
                        "observed": {"renderable_moved": moved, "render_with_finalized_data": Foo.used_after_fin, "finalize_calls": fin_counts}}
        norm = lambda tr: [x[:5] + ((x[5] if loops > 0 else -1),) + x[6:] if x[0] == "frame" else x for x in tr]
        if res[False] != res[True]:
            return {"reproduced": True, "input": {"frames": N, "loops": loops, "ops": repr(ops)}, "observed": {"uncached": res[False], "cached": res[True]},
                    "expected": "identical traces with caching on and off"}
        if norm(res[False]) != norm(mod):
            return {"reproduced": True, "input": {"frames": N, "loops": loops, "ops": repr(ops)}, "observed": res[False], "expected(model)": mod}
    return {"reproduced": False, "note": f"{n_hist} seeded random histories (cache on/off) agree with the documented machine"}
