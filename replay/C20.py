"""Replay for C20: the resolution laws on real classes (fresh subclasses so that nothing leaks between runs)."""


def settings(m, meta):
    import tests
    from term_image.image import KittyImage, ITerm2Image, BlockImage
    from PIL import Image
    bad = []
    img = Image.new("RGB", (2, 2))
    # ---- render method: class-level unset must follow the parent again
    class SubK(KittyImage):
        pass
    class SubSubK(SubK):
        pass
    KittyImage._supported = True
    try:
        KittyImage.set_render_method("whole")
        SubK.set_render_method("lines")
        SubK.set_render_method(None)
        if SubK._render_method != "whole" or SubSubK._render_method != "whole":
            bad.append(("KittyImage.set_render_method('whole'); Sub.set_render_method('lines'); Sub.set_render_method(None)",
                        {"Sub": SubK._render_method, "SubSub": SubSubK._render_method}, "expected to follow the parent: 'whole'"))
        i = SubK(img)
        i.set_render_method("lines"); i.set_render_method(None)
        if i._render_method != SubK._render_method:
            bad.append(("instance unset", i._render_method))
    finally:
        KittyImage.set_render_method(None)
    if KittyImage._render_method != "lines":
        bad.append(("KittyImage default after unset", KittyImage._render_method))
    # instance form: anything that is not None or a known method name is rejected, and the instance's own method stays
    inst = SubK(img)
    inst.set_render_method("whole")
    for wrong in ("bogus", 5, 0, False, (), 0.0, b"", ""):
        try:
            inst.set_render_method(wrong)
            bad.append(("instance form accepted", wrong, "own method now", vars(inst).get("_render_method", "<removed>")))
        except (ValueError, TypeError):
            if vars(inst).get("_render_method") != "whole":
                bad.append(("instance form: rejected value changed state", wrong))
        inst.set_render_method("whole")
    for wrong in ("bogus", 5):
        before = SubK.__dict__.get("_render_method", "<absent>")
        try:
            SubK.set_render_method(wrong)
            bad.append(("accepted", wrong))
        except (ValueError, TypeError):
            if SubK.__dict__.get("_render_method", "<absent>") != before:
                bad.append(("rejected value changed state", wrong))
    # ---- jpeg_quality / read_from_file
    class SubI(ITerm2Image):
        pass
    class SubSubI(SubI):
        pass
    ITerm2Image._supported = True
    for attr, v1, v2, default, wrong in (("jpeg_quality", 50, 80, -1, 96), ("read_from_file", False, True, True, 1)):
        try:
            setattr(SubI, attr, v1)
            if getattr(SubSubI, attr) != v1 or getattr(ITerm2Image, attr) != default:
                bad.append((attr, "class set", getattr(SubSubI, attr), getattr(ITerm2Image, attr)))
            inst = SubSubI(img)
            setattr(inst, attr, v2)
            if getattr(inst, attr) != v2 or getattr(SubSubI, attr) != v1:
                bad.append((attr, "instance set", getattr(inst, attr), getattr(SubSubI, attr)))
            delattr(inst, attr)
            if getattr(inst, attr) != v1:
                bad.append((attr, "instance unset", getattr(inst, attr)))
            try:
                setattr(SubI, attr, wrong)
                bad.append((attr, "accepted invalid", wrong))
            except (TypeError, ValueError):
                if getattr(SubI, attr) != v1:
                    bad.append((attr, "invalid value changed state"))
            delattr(SubI, attr)
            if getattr(SubSubI, attr) != default:
                bad.append((attr, "class unset", getattr(SubSubI, attr)))
        finally:
            try:
                delattr(SubI, attr)
            except Exception:
                pass
    # ---- jpeg_quality / read_from_file: every history of up to three set / unset operations on two classes in line, a sibling class and
    #      an instance of each, against "own value, else the nearest class that has one, else the default"
    import itertools
    class SibI(ITerm2Image):
        pass
    for attr, values, default in (("jpeg_quality", (0, 50, 95, -1), -1), ("read_from_file", (True, False), True)):
        ia, ib = SubI(img), SubSubI(img)
        objs = {"A": SubI, "B": SubSubI, "S": SibI, "a": ia, "b": ib}
        parent = {"A": None, "B": "A", "S": None, "a": "A", "b": "B"}
        ops = [(lv, "set", v) for lv in objs for v in values] + [(lv, "del", None) for lv in objs]

        def model_get(own, lv):
            while lv is not None:
                if lv in own:
                    return own[lv]
                lv = parent[lv]
            return default
        done = False
        for n in (1, 2, 3):
            for seq in itertools.product(ops, repeat=n):
                own = {}
                try:
                    for lv, op, v in seq:
                        if op == "set":
                            setattr(objs[lv], attr, v)
                            own[lv] = v
                        else:
                            delattr(objs[lv], attr)
                            own.pop(lv, None)
                    got = {lv: getattr(o, attr) for lv, o in objs.items()}
                    got["root"] = getattr(ITerm2Image, attr)
                    exp = {lv: model_get(own, lv) for lv in objs}
                    exp["root"] = default
                    if got != exp:
                        bad.append((attr, "history", seq, "effective values", got, "expected", exp))
                        done = True
                except Exception as e:  # noqa: BLE001
                    bad.append((attr, "history", seq, "raised", repr(e)))
                    done = True
                finally:
                    for o in objs.values():
                        try:
                            delattr(o, attr)
                        except Exception:  # noqa: BLE001
                            vars(o).pop("_" + attr, None) if not isinstance(o, type) else None
                if done:
                    break
            if done:
                break
    # ---- native_anim_max_bytes: one global value
    old = ITerm2Image.native_anim_max_bytes
    try:
        SubI.native_anim_max_bytes = 12345
        if ITerm2Image.native_anim_max_bytes != 12345 or SubSubI(img).native_anim_max_bytes != 12345:
            bad.append(("native_anim_max_bytes not global", ITerm2Image.native_anim_max_bytes))
        try:
            SubSubI(img).native_anim_max_bytes = 5
            bad.append(("instance-level write accepted",))
        except AttributeError:
            pass
        del SubI.native_anim_max_bytes
        if ITerm2Image.native_anim_max_bytes != 2 * 2**20:
            bad.append(("delete did not reset", ITerm2Image.native_anim_max_bytes))
        # a style class whose metaclass is DERIVED from the library's: still the same single value, through every class and instance
        class DerivedMeta(type(ITerm2Image)):
            pass

        class MetaSub(ITerm2Image, metaclass=DerivedMeta):
            pass

        class MetaSubSub(MetaSub):
            pass
        views = lambda: {"ITerm2Image": ITerm2Image.native_anim_max_bytes, "SubI": SubI.native_anim_max_bytes, "MetaSub": MetaSub.native_anim_max_bytes,
                         "MetaSubSub": MetaSubSub.native_anim_max_bytes, "ITerm2Image()": ITerm2Image(img).native_anim_max_bytes,
                         "MetaSub()": MetaSub(img).native_anim_max_bytes, "MetaSubSub()": MetaSubSub(img).native_anim_max_bytes}
        for step, (target, value) in enumerate(((MetaSub, 777), (ITerm2Image, 888), (MetaSubSub, 999), (SubI, 555), (MetaSub, None), (MetaSubSub, 444), (ITerm2Image, None))):
            if value is None:
                del target.native_anim_max_bytes
                value = 2 * 2**20
            else:
                target.native_anim_max_bytes = value
            got = views()
            if set(got.values()) != {value}:
                bad.append((f"step {step}: native_anim_max_bytes set/unset through {target.__name__}: not one global value", value, got))
                break
        try:
            MetaSub.native_anim_max_bytes = 0
            bad.append(("invalid native_anim_max_bytes accepted through a class of a derived metaclass",))
        except ValueError:
            pass
    finally:
        c_ = locals().get("DerivedMeta")
        if c_ is not None and "_native_anim_max_bytes" in vars(c_):
            delattr(c_, "_native_anim_max_bytes")
        ITerm2Image.native_anim_max_bytes = old
    # ---- forced_support
    class SubB(BlockImage):
        pass
    try:
        BlockImage.forced_support = True
        if not SubB.forced_support or not SubB(img).forced_support:
            bad.append(("forced_support not inherited",))
        try:
            SubB(img).forced_support = False
            bad.append(("instance-level forced_support write accepted",))
        except AttributeError:
            pass
        try:
            SubB.forced_support = 1
            bad.append(("non-bool forced_support accepted",))
        except TypeError:
            pass
    finally:
        BlockImage.forced_support = False
    return {"reproduced": bool(bad), "input": "resolution laws on fresh subclasses of the real style classes", "observed": [repr(b)[:300] for b in bad[:4]]}


def method_override(m, meta):
    """the render method a render actually uses: str(image) with the per-call override spelled in any letter case equals the render
    with that method set as the image's own; without override the effective method is used (kitty and iterm2)"""
    import tests  # noqa: F401
    from PIL import Image
    from term_image.image import ITerm2Image, KittyImage
    problems = []
    import term_image.geometry as G
    tests.set_cell_size(G.Size(10, 20))
    small = Image.new("RGB", (7, 5))           # fewer pixels than its render size: WHOLE sends it as it is, LINES at the full render size
    small.putdata([(x * 30 % 256, y * 50 % 256, 90) for y in range(5) for x in range(7)])
    for img, cls, methods in [(i_, c_, m_) for i_ in (Image.new("RGB", (40, 40), (10, 200, 30)), small)
                              for c_, m_ in ((KittyImage, ("lines", "whole")), (ITerm2Image, ("lines", "whole")))]:
        saved = cls._supported
        cls._supported = True
        try:
            for own in methods:
                for over in methods:
                    ref_img = cls(img)
                    ref_img.set_size(height=3)
                    ref_img.set_render_method(over)
                    want = ref_img._renderer(ref_img._render_image, None)
                    for spelling in (over, over.upper(), over.capitalize()):
                        image = cls(img)
                        image.set_size(height=3)
                        image.set_render_method(own)
                        got = image._renderer(image._render_image, None, method=spelling)
                        if got != want:
                            problems.append({"style": cls.__name__, "image's own method": own, "per-call override": spelling,
                                             "observed": "output differs from a render with method " + over})
                    image = cls(img)
                    image.set_size(height=3)
                    image.set_render_method(own)
                    ref2 = cls(img)
                    ref2.set_size(height=3)
                    ref2.set_render_method(own)
                    if image._renderer(image._render_image, None) != ref2._renderer(ref2._render_image, None, method=own):
                        problems.append({"style": cls.__name__, "own method": own, "observed": "render without override differs"})
        finally:
            cls._supported = saved
    # an animated draw() with a per-call method: every frame is rendered with that method, whatever the image's own one is
    import io, sys, re
    from replay.C06 import _gif, _Tty
    import term_image.image.common as common
    common.time.sleep = lambda s: None
    saved = (ITerm2Image._supported, ITerm2Image._TERM)
    ITerm2Image._supported = True
    try:
        for term in ("iterm2", "wezterm"):
            ITerm2Image._TERM = term
            for own in ("anim", "whole", "lines"):
                for over in ("lines", "whole"):
                    image = ITerm2Image(_gif(3))
                    image.set_size(height=3)
                    image.set_render_method(own)
                    buf = _Tty()
                    old = sys.stdout
                    sys.stdout = buf
                    try:
                        image.draw(repeat=1, method=over)
                    finally:
                        sys.stdout = old
                    n_images = len(re.findall(r"\x1b\]1337;File=", buf.getvalue()))
                    want = 3 * (3 if over == "lines" else 1)            # LINES: one inline image per line and frame; WHOLE: one per frame
                    if n_images != want:
                        problems.append({"style": "ITerm2Image", "terminal": term, "image's own method": own, "draw(method=...)": over,
                                         "inline images sent for 3 frames of 3 lines": n_images, "expected": want})
    finally:
        ITerm2Image._supported, ITerm2Image._TERM = saved
    return {"reproduced": bool(problems), "input": "renders with / without a per-call method override in three spellings; animated draws with one", "observed": problems[:3]}
