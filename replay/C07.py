"""Replays for C07 (new API): fault enumeration on the real Renderable.draw with a scripted stream on a pty."""
import os, pty, sys, termios, gc


class Stream:
    """buffered=False: write() delivers at once (an interrupted write delivers half of its data);
    buffered=True: write() only stores, flush() delivers (an interrupted flush delivers half of what was stored)"""
    def __init__(self, fd, fail_at=None, exc=KeyboardInterrupt, buffered=False, cut="half", tty=True):
        self.tty = tty
        self.fd, self.fail_at, self.exc, self.ops, self.data, self.log = fd, fail_at, exc, 0, [], []
        self.buffered, self.pending, self.cut = buffered, "", cut
    def _prefix(self, data):
        """what an interrupted write delivered: half of the data, or (cut="in-command") everything up to a point inside the first
        string command (APC / OSC) the data holds"""
        if self.cut == "in-colour":
            # everything up to a point just inside the first coloured run (after a colour-setting SGR, before its reset)
            import re as _re
            mm = _re.search("\x1b\\[[34]8;2;[0-9;]*m", data)
            if mm:
                return data[: mm.end() + 1]
        if self.cut == "in-command":
            starts = [i for i in (data.find("\x1b_"), data.find("\x1b]")) if i >= 0]
            if starts:
                return data[: min(starts) + 8]
        return data[: len(data) // 2]
    def _op(self, data=None):
        self.ops += 1
        self.log.append(data)
        fail = self.fail_at is not None and self.ops == self.fail_at
        if self.buffered:
            if data is not None:
                self.pending += data
                if fail:
                    raise self.exc()
            else:
                out, self.pending = self.pending, ""
                if fail:
                    self.data.append(self._prefix(out))
                    raise self.exc()
                self.data.append(out)
            return
        if fail:
            if data:
                self.data.append(self._prefix(data))     # an interrupted write delivered a prefix
            raise self.exc()
        if data is not None:
            self.data.append(data)
    def write(self, s): self._op(s); return len(s)
    def flush(self): self._op()
    def isatty(self): return self.tty
    def fileno(self): return self.fd


def _renderable(n):
    from term_image.renderable import Renderable, Frame
    from term_image.geometry import Size
    class R(Renderable):
        fin = []
        def __init__(self, n): super().__init__(n, 1)
        def _get_render_size_(self): return Size(2, 2)
        def _render_(self, rd, ra):
            d = rd[Renderable]
            # each line carries a string command (as a graphics-protocol render output would)
            return Frame(d.frame_offset, 1, d.size, "\x1b_Gq=1;AAAA\x1b\\ab\n\x1b_Gq=1;BBBB\x1b\\cd")
        def _handle_interrupted_draw_(self, rd, ra, output):
            output.write("\x1b\\")
            output.flush()
        @classmethod
        def _finalize_render_data_(cls, rd):
            R.fin.append(id(rd)); super()._finalize_render_data_(rd)
    return R(n), R


def draw_faults(m, meta):
    import term_image.renderable._renderable as RR
    from term_image.padding import ExactPadding
    RR.sleep = lambda s: None
    master, slave = pty.openpty()
    out = []
    try:
        for frames, buffered in ((3, False), (1, False), (3, True), (1, True)):
            # faults inside draw()'s own clean-up (the final "\n", SHOW_CURSOR, flush) are excluded by the property
            r0_, _ = _renderable(frames)
            st0 = Stream(slave, buffered=buffered)
            old = sys.stdout
            sys.stdout = st0
            try:
                r0_.draw(loops=1, padding=ExactPadding(), check_size=False)
            finally:
                sys.stdout = old
            cleanup_from = st0.ops - 2
            for k in range(1, cleanup_from):
                r, R = _renderable(frames)
                st = Stream(slave, fail_at=k, buffered=buffered)
                before = termios.tcgetattr(slave)
                old = sys.stdout
                sys.stdout = st
                raised = None
                try:
                    try:
                        r.draw(loops=1, padding=ExactPadding(), check_size=False)
                    except KeyboardInterrupt:
                        raised = "KeyboardInterrupt"
                    except Exception as e:
                        raised = type(e).__name__
                finally:
                    sys.stdout = old
                if st.ops < k:
                    break
                gc.collect()
                text = "".join(st.data)
                hide, show = text.rfind("\x1b[?25l"), text.rfind("\x1b[?25h")
                problems = []
                if hide > show:
                    problems.append("cursor left hidden")
                if termios.tcgetattr(slave) != before:
                    problems.append("terminal attributes not restored")
                if len(R.fin) != 1:
                    problems.append(f"render data finalized {len(R.fin)} times")
                if frames > 1 and raised == "KeyboardInterrupt":
                    problems.append("animated draw propagated KeyboardInterrupt")
                if frames == 1 and raised != "KeyboardInterrupt":
                    problems.append("still draw swallowed KeyboardInterrupt")
                if _string_command_open(text + st.pending):
                    problems.append("a string command of the render output is left open (the interrupt handler did not run)")
                if problems:
                    out.append({"frames": frames, "stream": "buffered until flush()" if buffered else "unbuffered", "KeyboardInterrupt_at_stream_op": k,
                                "operation": "flush()" if st.log[k - 1] is None else "write(%r)" % st.log[k - 1][:20], "problems": problems})
        # undisturbed draws from every kind of terminal mode the caller may have set (echo off, raw, VMIN/VTIME values): byte for byte
        # the same attributes afterwards
        from term_image.padding import ExactPadding as _EP
        base_attr = termios.tcgetattr(slave)
        try:
            for canon in (True, False):
                for echo_on in (True, False):
                    for vmin, vtime in ((1, 0), (0, 5)):
                        attr = [x if not isinstance(x, list) else list(x) for x in base_attr]
                        attr[3] = (attr[3] | termios.ICANON) if canon else (attr[3] & ~termios.ICANON)
                        attr[3] = (attr[3] | termios.ECHO) if echo_on else (attr[3] & ~termios.ECHO)
                        if not canon:
                            attr[6][termios.VMIN], attr[6][termios.VTIME] = vmin, vtime
                        termios.tcsetattr(slave, termios.TCSANOW, attr)
                        before = termios.tcgetattr(slave)
                        for frames in (1, 3):
                            for echo_input in (False, True):
                                r, R = _renderable(frames)
                                st = Stream(slave)
                                old = sys.stdout
                                sys.stdout = st
                                try:
                                    r.draw(loops=1, padding=_EP(), check_size=False, echo_input=echo_input)
                                finally:
                                    sys.stdout = old
                                after = termios.tcgetattr(slave)
                                if after != before:
                                    out.append({"frames": frames, "mode on entry (ICANON, ECHO, VMIN, VTIME)": (canon, echo_on, vmin, vtime), "echo_input": echo_input,
                                                "problems": ["terminal attributes differ after an undisturbed draw()"],
                                                "ECHO afterwards": bool(after[3] & termios.ECHO)})
                                    termios.tcsetattr(slave, termios.TCSANOW, before)
        finally:
            termios.tcsetattr(slave, termios.TCSANOW, base_attr)
        # Ctrl-C surfacing from the tcsetattr call that switches echo off: before it took effect, or just after
        import term_image.renderable._renderable as RR2
        real_set = termios.tcsetattr
        for frames in (3, 1):
            for after in (False, True):
                r, R = _renderable(frames)
                st = Stream(slave)
                before = termios.tcgetattr(slave)
                calls = [0]

                def fake_set(fd, when, attr, after=after, calls=calls):
                    calls[0] += 1
                    if calls[0] == 1 and not after:
                        raise KeyboardInterrupt
                    real_set(fd, when, attr)
                    if calls[0] == 1:
                        raise KeyboardInterrupt
                RR2.termios.tcsetattr = fake_set
                old = sys.stdout
                sys.stdout = st
                raised = None
                try:
                    try:
                        r.draw(loops=1, padding=ExactPadding(), check_size=False, echo_input=False)
                    except KeyboardInterrupt:
                        raised = "KeyboardInterrupt"
                finally:
                    sys.stdout = old
                    RR2.termios.tcsetattr = real_set
                problems = []
                if termios.tcgetattr(slave) != before:
                    problems.append("terminal attributes not restored")
                    real_set(slave, termios.TCSANOW, before)
                if frames > 1 and raised:
                    problems.append("animated draw propagated KeyboardInterrupt")
                if problems:
                    out.append({"frames": frames, "KeyboardInterrupt surfacing from the first tcsetattr": "after it took effect" if after else "before it took effect",
                                "problems": problems})
    finally:
        os.close(master); os.close(slave)
    return {"reproduced": bool(out), "input": "Renderable.draw(loops=1) with KeyboardInterrupt raised by the k-th stream operation / by the first tcsetattr", "observed": out[:6]}


def draw_faults_pre_try(m, meta):
    """KeyboardInterrupt surfacing from the termios.tcgetattr calls that precede draw()'s try block (animated draw)"""
    import term_image.renderable._renderable as RR
    from term_image.padding import ExactPadding
    RR.sleep = lambda s: None
    master, slave = pty.openpty()
    real = termios.tcgetattr
    out = []
    try:
        for k in (1, 2):
            r, R = _renderable(3)
            st = Stream(slave)
            calls = [0]
            def fake(fd, k=k):
                calls[0] += 1
                if calls[0] == k:
                    raise KeyboardInterrupt
                return real(fd)
            RR.termios.tcgetattr = fake
            old = sys.stdout
            sys.stdout = st
            raised = None
            try:
                try:
                    r.draw(loops=1, padding=ExactPadding(), check_size=False)
                except KeyboardInterrupt:
                    raised = "KeyboardInterrupt"
            finally:
                sys.stdout = old
                RR.termios.tcgetattr = real
            if raised:
                out.append({"KeyboardInterrupt_at_tcgetattr_call": k, "problems": ["animated draw propagated KeyboardInterrupt"], "written": "".join(st.data)})
    finally:
        os.close(master); os.close(slave)
    return {"reproduced": bool(out), "input": "animated Renderable.draw() with KeyboardInterrupt raised by the k-th termios.tcgetattr call (before the try block)", "observed": out}


def _string_command_open(text):
    """is the terminal still inside an APC / OSC / DCS string after `text`?"""
    inside, i = False, 0
    while i < len(text):
        if not inside and text[i] == "\x1b" and i + 1 < len(text) and text[i + 1] in "_]P":
            inside, i = True, i + 2
            continue
        if inside and (text.startswith("\x1b\\", i) or text[i] == "\x07"):
            inside = False
            i += 2 if text[i] == "\x1b" else 1
            continue
        i += 1
    return inside


def old_draw_faults(m, meta):
    """old API: KeyboardInterrupt / an exception at the k-th stream operation (write delivering half of its data, or flush) of the
    real BaseImage.draw, still and animated, text and graphics styles: cursor visible again, attributes reset, no command left open,
    current frame and size setting as before, animations silent on Ctrl-C, stills propagate it"""
    import io
    import tests  # noqa: F401
    from replay.C06 import _gif
    from replay.vt import VT
    from term_image.image import BlockImage, KittyImage, ITerm2Image
    import term_image.image.common as common
    common.time.sleep = lambda s: None
    KittyImage._supported = True
    ITerm2Image._supported = True
    ITerm2Image._TERM = "iterm2"

    class Boom(Exception):
        pass
    out = []
    # (style, stdout is a tty?): output that is not a tty may still reach one (tee, a wrapper stream) - only the cursor is left alone then
    for cls, tty in ((BlockImage, True), (KittyImage, True), (ITerm2Image, True), (BlockImage, False), (KittyImage, False), (ITerm2Image, False)):
        for frames, animate in ((3, True), (1, True), (3, False)):        # animation, still image, still draw of an animated image
            image = cls(_gif(frames))
            image.set_size(height=2)
            st0 = Stream(0, tty=tty)
            old = sys.stdout
            sys.stdout = st0
            try:
                image.draw("<", 0, "^", 2, repeat=1, animate=animate)
            finally:
                sys.stdout = old
            n_ops = st0.ops
            # draw()'s own clean-up: the final print (reset, separator, show cursor, newline = 4 writes) and, before it, the
            # cursor-down print of _display_animated's finally clause when there is one
            cleanup_from = n_ops - 4          # (also when stdout is not a tty: the show-cursor argument is then an empty string)
            import re as _re
            if cleanup_from >= 2 and st0.log[cleanup_from - 1] == "" and _re.fullmatch(r"\x1b\[\d+B", st0.log[cleanup_from - 2] or ""):
                cleanup_from -= 2
            for exc, cut in ((KeyboardInterrupt, "half"), (Boom, "half"), (KeyboardInterrupt, "in-command"), (Boom, "in-command"), (KeyboardInterrupt, "in-colour"),
                             (Boom, "in-colour")):
                for k in range(1, cleanup_from + 1):
                    image = cls(_gif(frames))
                    image.set_size(height=2)
                    if frames > 1:
                        image.seek(1)
                    size0, seek0 = image.size, image.tell()
                    st = Stream(0, fail_at=k, exc=exc, cut=cut, tty=tty)
                    old = sys.stdout
                    sys.stdout = st
                    raised = None
                    try:
                        try:
                            image.draw("<", 0, "^", 2, repeat=1, animate=animate)
                        except BaseException as e:      # noqa
                            raised = type(e).__name__
                    finally:
                        sys.stdout = old
                    text = "".join(st.data)
                    vt = VT(width=80, height=30, row=3, col=0).feed(text)
                    errs = []
                    if not vt.vis:
                        errs.append("cursor left hidden")
                    if _string_command_open(text):
                        errs.append("a graphics command (APC/OSC/DCS string) left open")
                    elif (vt.fg, vt.bg) != (None, None):
                        errs.append(f"text attributes not reset (foreground {vt.fg}, background {vt.bg} still in force)")
                    if image.size != size0 or image.tell() != seek0:
                        errs.append(f"size/current frame changed: {image.size}, {image.tell()}")
                    animation = frames > 1 and animate
                    if animation and raised == "KeyboardInterrupt":
                        errs.append("animation propagated KeyboardInterrupt")
                    if not animation and exc is KeyboardInterrupt and raised != "KeyboardInterrupt":
                        errs.append("still draw swallowed KeyboardInterrupt")
                    if errs:
                        out.append({"style": cls.__name__, "stdout_isatty": tty, "cut": cut, "frames": frames, "animate": animate, "fault": exc.__name__, "at stream operation": k, "of": n_ops, "failed": errs})
                        break
                if out:
                    break
            if out:
                break
            # faults in the k-th render call (the frame request of an animation, the render of a still draw)
            for exc in (KeyboardInterrupt, Boom):
                for k in (1, 2, 3):
                    if out:
                        break
                    image = cls(_gif(frames))
                    image.set_size(height=2)
                    if frames > 1:
                        image.seek(2)
                    size0, seek0 = image.size, image.tell()
                    calls = {"n": 0}
                    real = cls._render_image

                    def failing(self, *a, _real=real, _k=k, _exc=exc, **kw):
                        calls["n"] += 1
                        if calls["n"] == _k:
                            raise _exc()
                        return _real(self, *a, **kw)
                    cls._render_image = failing
                    st = Stream(0, tty=tty)
                    old = sys.stdout
                    sys.stdout = st
                    raised = None
                    try:
                        try:
                            image.draw("<", 0, "^", 2, repeat=1, animate=animate)
                        except BaseException as e:      # noqa
                            raised = type(e).__name__
                    finally:
                        sys.stdout = old
                        cls._render_image = real
                    if calls["n"] < k:
                        continue
                    vt = VT(width=80, height=30, row=3, col=0).feed("".join(st.data))
                    errs = []
                    if not vt.vis:
                        errs.append("cursor left hidden")
                    if image.size != size0 or image.tell() != seek0:
                        errs.append(f"size/current frame changed: now {image.size}, frame {image.tell()} (was frame {seek0})")
                    animation = frames > 1 and animate
                    if animation and raised == "KeyboardInterrupt":
                        errs.append("animation propagated KeyboardInterrupt")
                    if not animation and exc is KeyboardInterrupt and raised != "KeyboardInterrupt":
                        errs.append("still draw swallowed KeyboardInterrupt")
                    if errs:
                        out.append({"style": cls.__name__, "frames": frames, "animate": animate, "fault": exc.__name__, "at render call": k, "failed": errs})
            if out:
                break
        if out:
            break
    return {"reproduced": bool(out), "input": "fault at every stream operation and at the first render calls of old-API draw()", "observed": out[:2]}
