import re
from replay.util import ival

DOC = re.compile(r"[<|>]?(\d+)?(\.([-^_]\d*|\d+))?(#(\.\d+|[0-9a-fA-F]{6}|#)?)?(\+.+)?", re.ASCII)


def _s(model, name="spec"):
    v = model.get(name, '""')
    v = v[1:-1] if v.startswith('"') else v
    v = v.replace('""', '"')
    return re.sub(r"\\u\{([0-9a-fA-F]+)\}", lambda m: chr(int(m.group(1), 16)), v)


def _grammar_level(cls, spec):
    """does the real function reject `spec` at the grammar level (before looking at the style part)?"""
    from term_image.exceptions import StyleError
    try:
        cls._check_format_spec(spec)
        return "accepted"
    except StyleError:
        return "accepted-by-grammar (style part invalid for this class)"
    except ValueError:
        return "rejected"


def language(m, meta):
    """the counterexample string: accepted by the real _check_format_spec <=> sentence of the documented grammar?"""
    from term_image.image import BlockImage, KittyImage
    spec = _s(m)
    in_doc = DOC.fullmatch(spec) is not None
    res = {cls.__name__: _grammar_level(cls, spec) for cls in (BlockImage, KittyImage)}
    accepted = not all(v == "rejected" for v in res.values())
    out = {"reproduced": in_doc != accepted, "input": spec, "observed": res, "expected": "accepted" if in_doc else "rejected"}
    if "+" in spec:   # the same string with a style part that is valid for kitty: full acceptance
        w = spec[:spec.index("+")] + "+L"
        out["witness_with_valid_style"] = {"input": w, "KittyImage": _grammar_level(KittyImage, w), "documented": DOC.fullmatch(w) is not None}
    return out


def interpretation(m, meta):
    """accepted specifiers against the documented meaning, computed independently: alignment as written, padding size given /
    zero = terminal-relative 0 / absent = terminal width and terminal height - 2, transparency setting"""
    import itertools
    import tests
    from term_image.image import BlockImage
    from term_image.image.common import _ALPHA_THRESHOLD
    tw, th = 80, 30      # the stub terminal of the test package
    bad = []
    alphas = {"": _ALPHA_THRESHOLD, "#": None, "#.5": 0.5, "#.0": 0.0, "#a1B2c3": "#a1B2c3", "##": "#", "#000000": "#000000", "#123456": "#123456"}
    hex6, thr = _s(m, "hex6"), _s(m, "threshold_digits")      # the counterexample's own colour / threshold fields
    if re.fullmatch(r"[0-9a-fA-F]{6}", hex6, re.ASCII):
        alphas["#" + hex6] = "#" + hex6
    if re.fullmatch(r"\.[0-9]+", thr, re.ASCII):
        alphas["#" + thr] = float(thr)
    for h, w, v, hh, a in itertools.product(("", "<", "|", ">"), ("", "0", "7", "007"), ("", "^", "-", "_"), ("", "0", "3", "40"), tuple(alphas)):
        if not v and not hh:
            spec = f"{h}{w}{a}"
        else:
            spec = f"{h}{w}.{v}{hh}{a}"
        try:
            got = BlockImage._check_format_spec(spec)
        except Exception as e:
            bad.append((spec, f"rejected: {type(e).__name__}"))
            continue
        wn = int(w) if w else 0
        exp_w = wn if wn > 0 else max(tw + wn, 1)
        hn = int(hh) if hh else -2
        exp_h = hn if hn > 0 else max(th + hn, 1)
        exp_a = alphas[a]
        exp = (h or None, exp_w, v or None, exp_h, exp_a, {})
        if tuple(got) != exp:
            bad.append((spec, tuple(got), exp))
    return {"reproduced": bool(bad), "input": "all combinations of the documented fields (80x30 terminal)", "observed": bad[:4]}


def style(m, meta):
    from term_image.image import ITerm2Image
    try:
        return _style(m, meta)
    finally:
        try:
            del ITerm2Image.jpeg_quality
        except Exception:  # noqa: BLE001
            pass


def _style(m, meta):
    """the style part: the model's string first, then every string up to length 5 over the alphabet of the sub-grammars, against the
    documented sub-grammar and meaning, on the real KittyImage / ITerm2Image"""
    import itertools
    import tests  # noqa: F401
    from term_image.exceptions import StyleError
    from term_image.image import ITerm2Image, KittyImage
    docs = {KittyImage: re.compile(r"([LW])?(z-?\d+)?(m[01])?(c[0-9])?"), ITerm2Image: re.compile(r"([LWA])?()(m[01])?(c[0-9])?")}
    meth = {"L": "lines", "W": "whole", "A": "anim"}
    first = _s(m, "style_spec")
    cands = ([first] if first else []) + ["".join(t) for n in range(1, 6) for t in itertools.product("LWAzmc-019 x", repeat=n)]
    # what a specifier denotes does not depend on class-wide settings: the second pass has JPEG re-encoding enabled for the class
    passes = [(cls_, doc_, None) for cls_, doc_ in docs.items()] + [(ITerm2Image, docs[ITerm2Image], 60)]
    for cls, doc, class_quality in passes:
        if class_quality is not None:
            ITerm2Image.jpeg_quality = class_quality
            cands = [c_ for c_ in cands if "c" in c_ and len(c_) <= 4]
        for spec in cands:
            mm = doc.fullmatch(spec)
            seen = {}
            orig = cls._check_style_args.__func__

            def spy(c, args, seen=seen):
                seen.update(args)
                return dict(args)
            cls._check_style_args = classmethod(spy)
            try:
                try:
                    cls._check_style_format_spec(spec, spec)
                    got = "accepted"
                except StyleError:
                    got = "rejected"
                except Exception as e:
                    got = f"{type(e).__name__}"
            finally:
                cls._check_style_args = classmethod(orig)
            exp = "accepted" if mm else "rejected"
            if got != exp:
                return {"reproduced": True, "input": f"{cls.__name__} style part {spec!r}", "observed": got, "expected": exp}
            if mm:
                want = {}
                if mm.group(1):
                    want["method"] = meth[mm.group(1)]
                if mm.group(2):
                    want["z_index"] = int(mm.group(2)[1:])
                if mm.group(3):
                    want["mix"] = mm.group(3) == "m1"
                if mm.group(4):
                    want["compress"] = int(mm.group(4)[1])
                if seen != want:
                    return {"reproduced": True, "input": f"{cls.__name__} style part {spec!r}", "observed": repr(seen), "expected": repr(want)}
    return {"reproduced": False, "input": f"{len(cands)} strings per class", "observed": []}


def format_vs_draw(m, meta):
    """format(image, spec) against draw() with the equivalent explicit parameters (output captured from a fake tty), and the padded box
    it must occupy, for padding widths / heights below, at and above the rendered size on each axis independently"""
    import io, sys
    import tests  # noqa: F401
    from PIL import Image
    from replay.vt import VT
    from term_image.image import BlockImage
    problems = []

    class Tty(io.StringIO):
        def isatty(self):
            return False
    for src, size in (((8, 8), dict(width=4)), ((30, 10), dict(width=10)), ((6, 20), dict(height=5))):
        image = BlockImage(Image.new("RGB", src, (200, 100, 50)))
        image.set_size(**size)
        rw, rh = image.rendered_size
        for w in sorted({1, rw - 1, rw, rw + 1, rw + 7} - {0}):
            for h in sorted({1, rh - 1, rh, rh + 1, rh + 4} - {0}):
                for ha, va in (("<", "^"), (">", "_"), ("|", "-")):
                    spec = f"{ha}{w}.{va}{h}"
                    out = format(image, spec)
                    PW, PH = max(w, rw), max(h, rh)
                    vt = VT(width=PW + 3, height=PH + 3, row=0, col=0).feed(out)
                    t = vt.touched()
                    box = {(r, c) for r in range(PH) for c in range(PW)}
                    errs = []
                    if out.count("\n") != PH - 1:
                        errs.append(f"{out.count(chr(10)) + 1} lines, expected {PH}")
                    if t != box:
                        errs.append(f"cells outside the {PW}x{PH} box: {sorted(t - box)[:2]}; cells of it not written: {sorted(box - t)[:2]}")
                    buf = Tty()
                    old = sys.stdout
                    sys.stdout = buf
                    try:
                        image.draw(ha, w, va, h, check_size=False, scroll=True)
                    finally:
                        sys.stdout = old
                    drawn = buf.getvalue()
                    if out not in drawn:
                        errs.append("draw() with the equivalent parameters writes a different picture")
                    if errs:
                        problems.append({"rendered size": (rw, rh), "spec": spec, "failed": errs[:2]})
                        break
                if problems:
                    break
            if problems:
                break
    return {"reproduced": bool(problems), "input": "padding sizes around the rendered size on each axis x alignments, format() vs draw()", "observed": problems[:3]}


def style_args(m, meta):
    """`_check_style_args` of both graphics styles against the documented parameter tables, on the model's values plus the edges of
    every documented range and one value of every foreign type per parameter"""
    from term_image.exceptions import StyleError
    from term_image.image import ITerm2Image, KittyImage
    doc = {KittyImage: {"method": (str, None, lambda x: x.lower() in ("lines", "whole")), "z_index": (int, 0, lambda x: -(2 ** 31) < x < 2 ** 31),
                        "mix": (bool, False, lambda x: True), "compress": (int, 4, lambda x: 0 <= x <= 9)},
           ITerm2Image: {"method": (str, None, lambda x: x.lower() in ("lines", "whole", "anim")), "mix": (bool, False, lambda x: True),
                         "compress": (int, 4, lambda x: 0 <= x <= 9)}}
    cand = {"method": [_s(m, "method_text"), "lines", "LINES", "Whole", "anim", "bogus", None, 3, True],
            "z_index": [ival(m, "z_index_number", 0), 0, 1, -(2 ** 31), -(2 ** 31) + 1, 2 ** 31 - 1, 2 ** 31, True, False, "1", None],
            "mix": [m.get("mix_flag") == "true", True, False, 0, 1, "x", None],
            "compress": [ival(m, "compress_number", 4), 4, 0, 9, -1, 10, True, False, "4", None]}
    problems = []
    for cls, table in doc.items():
        base = {"method": "lines", "z_index": 7, "mix": True, "compress": 2}
        cases = [{k: v for k, v in base.items() if k in table}]
        for nm in table:
            for v in cand[nm]:
                cases.append({**cases[0], nm: v})
        cases.append({**cases[0], "no_such_parameter": 1})
        for args in cases:
            given = dict(args)
            exp_exc = None
            if any(k not in table for k in given):
                exp_exc = StyleError
            # first offending entry in the order given decides between TypeError / ValueError; the contract only says which are possible
            bad_type = [k for k, v in given.items() if k in table and not isinstance(v, table[k][0])]
            bad_val = [k for k, v in given.items() if k in table and isinstance(v, table[k][0]) and not table[k][2](v)]
            try:
                got = cls._check_style_args(dict(given))
                exc = None
            except Exception as e:  # noqa: BLE001
                got, exc = None, type(e)
            if exc is None:
                want = {k: v for k, v in given.items() if not (table[k][1] is not None and v == table[k][1])} if not (bad_type or bad_val or exp_exc) else None
                if want is None or got != want:
                    problems.append({"class": cls.__name__, "args": repr(given), "returned": repr(got), "expected": repr(want) if want is not None else "an error"})
            else:
                allowed = ({TypeError} if bad_type else set()) | ({ValueError} if bad_val else set()) | ({StyleError} if exp_exc else set())
                if exc not in allowed:
                    problems.append({"class": cls.__name__, "args": repr(given), "raised": exc.__name__, "expected": sorted(a.__name__ for a in allowed) or "accepted"})
    return {"reproduced": bool(problems), "input": problems[:4], "checked": "both graphics styles, edges of every documented range"}
