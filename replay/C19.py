import re
from replay.util import ival

DOC = re.compile(r"[<|>]?(\d+)?(\.([-^_]\d*|\d+))?(#(\.\d+|[0-9a-fA-F]{6}|#)?)?(\+.+)?", re.ASCII)


def _s(model, name="spec"):
    v = model.get(name, '""')
    v = v[1:-1] if v.startswith('"') else v
    v = v.replace('""', '"')
    return re.sub(r"\\u\{([0-9a-fA-F]+)\}", lambda m: chr(int(m.group(1), 16)), v)


def _grammar_level(cls, spec):
    """does the real function reject `spec` at the grammar level (before looking at the style part)?"""
    from term_image.exceptions import StyleError
    try:
        cls._check_format_spec(spec)
        return "accepted"
    except StyleError:
        return "accepted-by-grammar (style part invalid for this class)"
    except ValueError:
        return "rejected"


def language(m, meta):
    """the counterexample string: accepted by the real _check_format_spec <=> sentence of the documented grammar?"""
    from term_image.image import BlockImage, KittyImage
    spec = _s(m)
    in_doc = DOC.fullmatch(spec) is not None
    res = {cls.__name__: _grammar_level(cls, spec) for cls in (BlockImage, KittyImage)}
    accepted = not all(v == "rejected" for v in res.values())
    out = {"reproduced": in_doc != accepted, "input": spec, "observed": res, "expected": "accepted" if in_doc else "rejected"}
    if "+" in spec:   # the same string with a style part that is valid for kitty: full acceptance
        w = spec[:spec.index("+")] + "+L"
        out["witness_with_valid_style"] = {"input": w, "KittyImage": _grammar_level(KittyImage, w), "documented": DOC.fullmatch(w) is not None}
    return out
