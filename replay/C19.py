import re
from replay.util import ival

DOC = re.compile(r"[<|>]?(\d+)?(\.([-^_]\d*|\d+))?(#(\.\d+|[0-9a-fA-F]{6}|#)?)?(\+.+)?", re.ASCII)


def _s(model, name="spec"):
    v = model.get(name, '""')
    v = v[1:-1] if v.startswith('"') else v
    v = v.replace('""', '"')
    return re.sub(r"\\u\{([0-9a-fA-F]+)\}", lambda m: chr(int(m.group(1), 16)), v)


def _grammar_level(cls, spec):
    """does the real function reject `spec` at the grammar level (before looking at the style part)?"""
    from term_image.exceptions import StyleError
    try:
        cls._check_format_spec(spec)
        return "accepted"
    except StyleError:
        return "accepted-by-grammar (style part invalid for this class)"
    except ValueError:
        return "rejected"


def language(m, meta):
    """the counterexample string: accepted by the real _check_format_spec <=> sentence of the documented grammar?"""
    from term_image.image import BlockImage, KittyImage
    spec = _s(m)
    in_doc = DOC.fullmatch(spec) is not None
    res = {cls.__name__: _grammar_level(cls, spec) for cls in (BlockImage, KittyImage)}
    accepted = not all(v == "rejected" for v in res.values())
    out = {"reproduced": in_doc != accepted, "input": spec, "observed": res, "expected": "accepted" if in_doc else "rejected"}
    if "+" in spec:   # the same string with a style part that is valid for kitty: full acceptance
        w = spec[:spec.index("+")] + "+L"
        out["witness_with_valid_style"] = {"input": w, "KittyImage": _grammar_level(KittyImage, w), "documented": DOC.fullmatch(w) is not None}
    return out


def interpretation(m, meta):
    """accepted specifiers against the documented meaning, computed independently: alignment as written, padding size given /
    zero = terminal-relative 0 / absent = terminal width and terminal height - 2, transparency setting"""
    import itertools
    import tests
    from term_image.image import BlockImage
    from term_image.image.common import _ALPHA_THRESHOLD
    tw, th = 80, 30      # the stub terminal of the test package
    bad = []
    for h, w, v, hh, a in itertools.product(("", "<", "|", ">"), ("", "0", "7", "007"), ("", "^", "-", "_"), ("", "0", "3", "40"), ("", "#", "#.5", "#.0", "#a1B2c3", "##")):
        if not v and not hh:
            spec = f"{h}{w}{a}"
        else:
            spec = f"{h}{w}.{v}{hh}{a}"
        try:
            got = BlockImage._check_format_spec(spec)
        except Exception as e:
            bad.append((spec, f"rejected: {type(e).__name__}"))
            continue
        wn = int(w) if w else 0
        exp_w = wn if wn > 0 else max(tw + wn, 1)
        hn = int(hh) if hh else -2
        exp_h = hn if hn > 0 else max(th + hn, 1)
        exp_a = {"": _ALPHA_THRESHOLD, "#": None, "#.5": 0.5, "#.0": 0.0, "#a1B2c3": "#a1B2c3", "##": "#"}[a]
        exp = (h or None, exp_w, v or None, exp_h, exp_a, {})
        if tuple(got) != exp:
            bad.append((spec, tuple(got), exp))
    return {"reproduced": bool(bad), "input": "all combinations of the documented fields (80x30 terminal)", "observed": bad[:4]}
