"""Replays for C12 (value / decision part)."""
from replay.util import ival


def x_parse_color(m, meta):
    from term_image._ctlseqs import x_parse_color as f
    lens = [min(max(ival(m, f"len_{c}", 1), 1), 4) for c in "rgb"]
    vals = [ival(m, f"val_{c}", 0) % (16 ** l) for c, l in zip("rgb", lens)]
    cands = [(lens, vals), ([1, 2, 3], [15, 255, 4095]), ([4, 1, 2], [0xffff, 0xf, 0x80])]
    for lens, vals in cands:
        spec = "rgb:" + "/".join(format(v, f"0{l}x") for v, l in zip(vals, lens))
        got = tuple(f(spec))
        exp = tuple(v * 255 // (16 ** l - 1) for v, l in zip(vals, lens))
        if got != exp:
            return {"reproduced": True, "input": spec, "observed": got, "expected": exp}
    return {"reproduced": False}


def support(m, meta):
    """decision tables of KittyImage.is_supported / ITerm2Image.is_supported against the documented rules"""
    import tests
    import term_image.image.kitty as K
    import term_image.image.iterm2 as I
    bad = []

    def ver_ge(v, ref):
        try:
            return tuple(map(int, v.split("."))) >= ref
        except (ValueError, AttributeError):
            return False
    for name in ("kitty", "konsole", "iterm2", "wezterm", "xterm", None):
        for version in (None, "", "abc", "0.19.9", "0.20.0", "22.3.9", "22.4.0", "23.1"):
            I.get_terminal_name_version = lambda: (name, version)
            I.ITerm2Image._supported = None
            exp = name in ("iterm2", "wezterm") or (name == "konsole" and ver_ge(version, (22, 4, 0)))
            try:
                got = I.ITerm2Image.is_supported()
            except Exception as e:
                got = f"raised {type(e).__name__}: {e}"
            if got != exp:
                bad.append(("ITerm2Image.is_supported", (name, version), got, "expected", exp))
            for reply in (None, b"", b"\x1b_Gi=31;OK\x1b\\\x1b[?62;c", b"\x1b_Gi=31;ENOENT\x1b\\\x1b[?62;c", b"\x1b[?62;c"):
                K.get_terminal_name_version = lambda: (name, version)
                K.query_terminal = lambda *a, **k: reply
                K.KittyImage._supported = None
                ok = reply is not None and b"i=31;OK" in reply
                exp_k = name != "iterm2" and ok and ((name == "kitty" and ver_ge(version, (0, 20, 0))) or name == "konsole")
                try:
                    got_k = K.KittyImage.is_supported()
                except Exception as e:
                    got_k = f"raised {type(e).__name__}: {e}"
                if got_k != exp_k:
                    bad.append(("KittyImage.is_supported", (name, version, reply), got_k, "expected", exp_k))
    return {"reproduced": bool(bad), "input": "terminal name x version x graphics-query reply", "observed": [repr(b)[:300] for b in bad[:4]]}
