"""Replays for C12 (value / decision part)."""
from replay.util import ival


def x_parse_color(m, meta):
    from term_image._ctlseqs import x_parse_color as f
    lens = [min(max(ival(m, f"len_{c}", 1), 1), 4) for c in "rgb"]
    vals = [ival(m, f"val_{c}", 0) % (16 ** l) for c, l in zip("rgb", lens)]
    cands = [(lens, vals), ([1, 2, 3], [15, 255, 4095]), ([4, 1, 2], [0xffff, 0xf, 0x80])]
    for lens, vals in cands:
        spec = "rgb:" + "/".join(format(v, f"0{l}x") for v, l in zip(vals, lens))
        got = tuple(f(spec))
        exp = tuple(v * 255 // (16 ** l - 1) for v, l in zip(vals, lens))
        if got != exp:
            return {"reproduced": True, "input": spec, "observed": got, "expected": exp}
    return {"reproduced": False}


def support(m, meta):
    """decision tables of KittyImage.is_supported / ITerm2Image.is_supported against the documented rules"""
    import tests
    import term_image.image.kitty as K
    import term_image.image.iterm2 as I
    bad = []

    def ver_ge(v, ref):
        try:
            return tuple(map(int, v.split("."))) >= ref
        except (ValueError, AttributeError):
            return False
    for name in ("kitty", "konsole", "iterm2", "wezterm", "xterm", None):
        for version in (None, "", "abc", "0.19.9", "0.20.0", "22.3.9", "22.4.0", "23.1"):
            I.get_terminal_name_version = lambda: (name, version)
            I.ITerm2Image._supported = None
            exp = name in ("iterm2", "wezterm") or (name == "konsole" and ver_ge(version, (22, 4, 0)))
            try:
                got = I.ITerm2Image.is_supported()
            except Exception as e:
                got = f"raised {type(e).__name__}: {e}"
            if got != exp:
                bad.append(("ITerm2Image.is_supported", (name, version), got, "expected", exp))
            # (a terminal that answers the graphics query but not DA1 leaves a reply without the trailing "c": still an answer)
            for reply in (None, b"", b"\x1b_Gi=31;OK\x1b\\\x1b[?62;c", b"\x1b_Gi=31;ENOENT\x1b\\\x1b[?62;c", b"\x1b[?62;c", b"\x1b_Gi=31;OK\x1b\\"):
                K.get_terminal_name_version = lambda: (name, version)
                K.query_terminal = lambda *a, **k: reply
                K.KittyImage._supported = None
                ok = reply is not None and b"i=31;OK" in reply
                exp_k = name != "iterm2" and ok and ((name == "kitty" and ver_ge(version, (0, 20, 0))) or name == "konsole")
                try:
                    got_k = K.KittyImage.is_supported()
                except Exception as e:
                    got_k = f"raised {type(e).__name__}: {e}"
                if got_k != exp_k:
                    bad.append(("KittyImage.is_supported", (name, version, reply), got_k, "expected", exp_k))
    return {"reproduced": bool(bad), "input": "terminal name x version x graphics-query reply", "observed": [repr(b)[:300] for b in bad[:4]]}


def name_version(m, meta):
    """get_terminal_name_version on scripted replies (query_terminal / read_tty replaced by stubs that record their use)"""
    import os
    import term_image            # NOT the tests package here: it replaces get_terminal_name_version by a stub
    import term_image.utils as U
    from term_image import _ctlseqs as C
    problems = []
    saved = (U.query_terminal, U.read_tty, dict(os.environ))
    fn = U.get_terminal_name_version
    fn = getattr(fn, "__wrapped__", fn)
    try:
        for reply, exp_reply in ((b"\x1bP>|WezTerm 20230712\x1b\\\x1b[", ("wezterm", "20230712")), (b"\x1bP>|kitty(0.31.0)\x1b\\\x1b[", ("kitty", "0.31.0")),
                                 (b"\x1bP>|XTerm(388)\x07\x1b[", ("xterm", "388")), (b"\x1b[", None), (b"", None), (None, None)):
            for env in ({}, {"TERM_PROGRAM": "Konsole", "TERM_PROGRAM_VERSION": "23.08"}, {"TERM_PROGRAM": "Apple_Terminal"}):
                for enabled in (True, False):
                    calls = {"q": [], "r": 0}

                    def q(request, more, timeout=None):
                        calls["q"].append((request, more))
                        return reply if U._queries_enabled else None

                    def r(*a, **k):
                        calls["r"] += 1
                        if a or k:
                            problems.append(("drain called with arguments", a, k))
                        return b"?62;c"
                    U.query_terminal, U.read_tty = q, r
                    for k_ in ("TERM_PROGRAM", "TERM_PROGRAM_VERSION"):
                        os.environ.pop(k_, None)
                    os.environ.update(env)
                    (term_image.enable_queries if enabled else term_image.disable_queries)()
                    got = tuple(fn())
                    if enabled and exp_reply:
                        exp = exp_reply
                    else:
                        exp = (env.get("TERM_PROGRAM", None) and env["TERM_PROGRAM"].lower(), env.get("TERM_PROGRAM_VERSION"))
                    if got != exp or calls["r"] != (1 if enabled else 0):
                        problems.append({"reply": reply, "env": env, "queries_enabled": enabled, "got": got, "expected": exp, "drains": calls["r"]})
                    if enabled and calls["q"]:
                        req, more = calls["q"][0]
                        if req != C.XTVERSION_b + C.DA1_b or more(bytearray(b"abc" + C.CSI_b)) or not more(bytearray(b"\x1bP>|x(1)\x1b\\")):
                            problems.append(("request / stop predicate", req))
    finally:
        U.query_terminal, U.read_tty = saved[0], saved[1]
        os.environ.clear()
        os.environ.update(saved[2])
        term_image.enable_queries()
    return {"reproduced": bool(problems), "input": "scripted XTVERSION replies x environment x queries on/off", "observed": [repr(p)[:300] for p in problems[:3]]}


def colors(m, meta):
    """get_fg_bg_colors on scripted replies (query_terminal / read_tty replaced by recording stubs)"""
    import term_image
    import term_image.utils as U
    problems = []
    saved = (U.query_terminal, U.read_tty)
    fn = getattr(U.get_fg_bg_colors, "__wrapped__", U.get_fg_bg_colors)
    try:
        E = "\x1b"
        for reply, exp in ((f"{E}]10;rgb:ffff/0000/8080{E}\\{E}]11;rgb:1/2/3{E}\\{E}[".encode(), ((255, 0, 128), (17, 34, 51))),
                           (f"{E}]11;rgb:00/ff/7f\x07{E}[".encode(), (None, (0, 255, 127))),
                           (f"{E}]10;rgb:fff/000/fff{E}\\{E}[".encode(), ((255, 0, 255), None)),
                           (f"{E}]11;rgb:0a/0b/0c{E}\\{E}]10;rgb:1a/1b/1c{E}\\{E}[".encode(), ((26, 27, 28), (10, 11, 12))),
                           (b"\x1b[", (None, None)), (b"", (None, None)), (None, (None, None))):
            for enabled in (True, False):
                calls = {"r": 0}

                def q(request, more, timeout=None):
                    return reply if U._queries_enabled else None

                def r(*a, **k):
                    calls["r"] += 1
                    return b"?62;c"
                U.query_terminal, U.read_tty = q, r
                (term_image.enable_queries if enabled else term_image.disable_queries)()
                got = tuple(fn())
                want = exp if enabled else (None, None)
                if got != want or calls["r"] != (1 if enabled else 0):
                    problems.append({"reply": reply, "queries_enabled": enabled, "got": got, "expected": want, "drains": calls["r"]})
                if enabled and want != (None, None):
                    try:
                        hx = tuple(fn(hex=True))
                    except Exception as e:  # noqa: BLE001
                        hx = f"{type(e).__name__}: {e}"
                    whx = tuple(None if c is None else "#%02x%02x%02x" % c for c in want)
                    if hx != whx:
                        problems.append({"reply": reply, "hex": hx, "expected": whx})
    finally:
        U.query_terminal, U.read_tty = saved
        term_image.enable_queries()
    return {"reproduced": bool(problems), "input": "scripted OSC 10 / 11 replies x queries on/off", "observed": [repr(p)[:300] for p in problems[:3]]}


def read_loops(m, meta):
    """read_tty on a pty: the timed read stops exactly where its predicate is first satisfied (what follows stays queued), the
    drain takes everything that has arrived"""
    import os, pty
    import term_image.utils as U
    master, slave = pty.openpty()
    saved = U._tty_fd
    problems = []
    try:
        U._tty_fd = slave
        for data, stop_after in ((b"\x1bP>|kitty(0.31)\x1b\\\x1b[?62;c", 2), (b"abc\x1b[zzz", 0), (b"\x1b[?1;2c", 0), (b"x" * 150 + b"\x1b[rest", 0)):
            os.write(master, data)
            got = U.read_tty(lambda s: not s.endswith(b"\x1b["), 0.5)
            k = data.index(b"\x1b[") + 2
            if got != data[:k]:
                problems.append(("timed read", data[:30], "returned", got[-20:], "expected to stop after", data[:k][-20:]))
            rest = U.read_tty()
            if rest != data[k:]:
                problems.append(("drain", "returned", rest[:30], "expected", data[k:][:30]))
            if U.read_tty() != b"":
                problems.append(("second drain not empty",))
        # nothing queued: the timed read gives up after its timeout, the drain returns at once.  A silent terminal must not block
        # the read: it runs on a watched thread (a read that hangs keeps the tty lock, so nothing else is tried after it)
        import threading, time
        for tmo, pred in ((0.05, lambda s: True), (0.2, lambda s: not s.endswith(b"c")), (0.05, lambda s: len(s) < 3)):
            box = {}
            th = threading.Thread(target=lambda: box.setdefault("got", U.read_tty(pred, tmo)), daemon=True)
            t0 = time.monotonic()
            th.start()
            th.join(tmo * 20 + 2)
            if th.is_alive():
                problems.append((f"timed read (timeout {tmo} s) on a terminal that sends nothing has not returned after {time.monotonic() - t0:.1f} s",))
                return {"reproduced": True, "input": "a pty that never replies", "observed": [repr(p)[:300] for p in problems[:3]]}
            if box.get("got") != b"" or time.monotonic() - t0 < tmo:
                problems.append(("timed read on an empty queue", "returned", box.get("got"), "after", round(time.monotonic() - t0, 3), "s; time-out", tmo))
        if U.read_tty() != b"":
            problems.append(("drain on an empty queue returned data",))
    finally:
        U._tty_fd = saved
        os.close(master)
        os.close(slave)
    return {"reproduced": bool(problems), "input": "scripted reply streams on a pty", "observed": [repr(p)[:300] for p in problems[:3]]}


def unread(m, meta):
    """a scripted terminal on a pty answers the colour queries at once and the DA1 query a little later (well within the time-out):
    after get_fg_bg_colors() / get_terminal_name_version() no reply bytes may be left unread"""
    import os, pty, select, threading, time
    import term_image
    import term_image.utils as U
    problems = []
    for fn_name, first, delay in (("get_fg_bg_colors", b"\x1b]10;rgb:ffff/0000/0000\x1b\\\x1b]11;rgb:0000/0000/ffff\x1b\\", 0.03),
                                  ("get_fg_bg_colors", b"\x1b]10;rgb:ffff/0000/0000\x07\x1b]11;rgb:0000/0000/ffff\x07", 0.0),
                                  ("get_terminal_name_version", b"\x1bP>|kitty(0.31.0)\x1b\\", 0.03)):
        master, slave = pty.openpty()
        saved = (U._tty_fd, U._query_timeout)
        stop = threading.Event()

        def terminal():
            buf = b""
            while not stop.is_set():
                r, _, _ = select.select([master], [], [], 0.02)
                if r:
                    buf += os.read(master, 1024)
                    if buf.endswith(b"\x1b[c"):          # the DA1 query closes the request
                        os.write(master, first)
                        time.sleep(delay)
                        os.write(master, b"\x1b[?62;22c")
                        buf = b""
        th = threading.Thread(target=terminal, daemon=True)
        try:
            U._tty_fd = slave
            U._query_timeout = 0.5
            term_image.enable_queries()
            th.start()
            fn = getattr(U, fn_name)
            fn = getattr(fn, "__wrapped__", fn)
            got = fn()
            time.sleep(0.15)
            left = U.read_tty() or b""
            if left:
                problems.append({"function": fn_name, "replies": first[:24], "DA1 delayed by (s)": delay, "result": repr(got)[:60], "left unread": left})
        finally:
            stop.set()
            th.join(1)
            U._tty_fd, U._query_timeout = saved
            os.close(master)
            os.close(slave)
    return {"reproduced": bool(problems), "input": "scripted terminal on a pty, DA1 reply delayed", "observed": [repr(p)[:300] for p in problems[:2]]}


def stale_input(m, meta):
    """bytes already queued on the terminal when a query starts (the late reply to an earlier, interrupted query) are not taken for
    the reply: the query returns exactly what the terminal answers to THIS request"""
    import os, pty, threading, time, termios
    import term_image
    import term_image.utils as U
    problems = []
    master, slave = pty.openpty()
    saved = U._tty_fd
    try:
        U._tty_fd = slave
        term_image.enable_queries()
        attr = termios.tcgetattr(slave)
        attr[3] &= ~(termios.ICANON | termios.ECHO)
        termios.tcsetattr(slave, termios.TCSANOW, attr)
        for stale in (b"\x1b]10;rgb:1111/2222/3333\x1b\\\x1b[?62;c", b"\x1b[?1;2c", b"xyz"):
            os.write(master, stale)                 # arrives before the query is made
            time.sleep(0.05)
            got_request = []

            def terminal():
                deadline = time.time() + 2
                buf = b""
                while time.time() < deadline and not buf.endswith(b"\x1b[c"):
                    try:
                        buf += os.read(master, 100)
                    except OSError:
                        break
                got_request.append(buf)
                os.write(master, b"\x1bP>|term 9.9\x1b\\\x1b[?62;c")
            t = threading.Thread(target=terminal)
            t.start()
            reply = U.query_terminal(b"\x1b[>q\x1b[c", lambda s: not s.endswith(b"c"), 1.0)
            t.join(3)
            if reply != b"\x1bP>|term 9.9\x1b\\\x1b[?62;c":
                problems.append({"queued before the query": stale, "query returned": reply, "the terminal's answer to the request": b"\x1bP>|term 9.9\x1b\\\x1b[?62;c"})
            U.read_tty()
    finally:
        U._tty_fd = saved
        os.close(master); os.close(slave)
    return {"reproduced": bool(problems), "input": "a pty with bytes queued before query_terminal() is called", "observed": [repr(p)[:300] for p in problems[:2]]}


def queued_reply(m, meta):
    """bytes the terminal sent before the reader switches the terminal mode (a reply that arrived at once) are still read: a pty whose
    master side has already written the reply when read_tty() starts"""
    import os, pty, time
    import tests  # noqa: F401
    from term_image import utils
    master, slave = pty.openpty()
    old_fd = utils._tty_fd
    problems = []
    try:
        utils._tty_fd = slave
        for mode in ("drain", "timed"):
            reply = b"\x1b[?62;c"
            os.write(master, reply)
            time.sleep(0.05)
            raw = utils.read_tty.__wrapped__ if hasattr(utils.read_tty, "__wrapped__") else utils.read_tty
            try:
                got = raw() if mode == "drain" else raw(lambda s: not s.endswith(b"c"), 0.3)
            except Exception as e:  # noqa: BLE001
                got = repr(e)
            if got != reply:
                problems.append({"mode": mode, "queued before the mode switch": repr(reply), "read": repr(got)})
    finally:
        utils._tty_fd = old_fd
        os.close(master)
        os.close(slave)
    return {"reproduced": bool(problems), "input": problems}
