"""Replay for C02: real block renders interpreted on the concrete VT model against pixels computed independently with PIL
from the property's wording (the kitty work-around is the one permitted deviation)."""
import random


def render(m, meta, trials=400):
    import tests
    from replay.vt import VT
    from term_image.image import BlockImage
    from PIL import Image
    from replay.util import ival
    rng = random.Random(9)
    problems = []

    def cell_colors(cell):
        _, ch, fg, bg = cell
        return {" ": (bg, bg), "▀": (fg, bg), "▄": (bg, fg)}.get(ch, (("?", ch), ("?", ch)))
    for trial in range(trials):
        W, H = (max(1, min(ival(m, "W", 3), 12)), max(1, min(ival(m, "H", 2), 6))) if trial == 0 else (rng.randint(1, 8), rng.randint(1, 4))
        mode = rng.choice(["RGB", "RGBA", "L", "LA", "P", "1", "CMYK"])
        exact = rng.random() < 0.6
        size = (W, 2 * H) if exact else (rng.randint(1, 30), rng.randint(1, 30))
        pal = [0, 40, 41, 128, 255]
        im = Image.new("RGBA", size)
        im.putdata([tuple(rng.choice([0, 255, 17]) for _ in range(3)) + (rng.choice(pal),) if rng.random() < .7 else (255, 0, 0, rng.choice(pal)) for _ in range(size[0] * size[1])])
        im = im.convert(mode) if mode != "RGBA" else im
        termbg = rng.choice([None, (0, 0, 0), (255, 0, 0), (17, 17, 17)])
        tests.set_fg_bg_colors((255, 255, 255), termbg)
        kitty = rng.random() < 0.5
        if kitty != tests.is_on_kitty:
            tests.toggle_is_on_kitty()
        thr = rng.choice([0.0, 0.16, 0.5, 0.999])
        alpha = rng.choice([None, thr, "#", "#00ff00"])
        b = BlockImage(im, width=W, height=H)
        out = b._renderer(b._render_image, alpha)
        vt = VT(width=W + 2, height=H + 3).feed(out)
        if alpha is None or mode in ("1", "L", "RGB", "HSV", "CMYK"):
            e = im.convert("RGB")
            e = e.resize((W, 2 * H), Image.Resampling.BOX) if e.size != (W, 2 * H) else e
            rgb = list(e.getdata()); a = [255] * len(rgb); transp = False
        else:
            e = im.convert("RGBA")
            e = e.resize((W, 2 * H), Image.Resampling.BOX) if e.size != (W, 2 * H) else e
            if isinstance(alpha, str):
                bgc = (("#%02x%02x%02x" % termbg) if termbg else "#000000") if alpha == "#" else alpha
                bg = Image.new("RGBA", e.size, bgc); bg.alpha_composite(e)
                rgb = list(bg.convert("RGB").getdata()); a = [255] * len(rgb); transp = False
            else:
                t = round(alpha * 255); a = [0 if v < t else 255 for v in e.getdata(3)]
                bg = Image.new("RGBA", e.size, ("#%02x%02x%02x" % termbg) if termbg else "#000000"); bg.alpha_composite(e)
                rgb = list(bg.convert("RGB").getdata()); transp = True
        errs = []
        for i in range(H):
            for j in range(W):
                cell = vt.cells.get((i, j))
                if cell is None:
                    errs.append(("missing", i, j)); continue
                up, lo = cell_colors(cell)
                if kitty and termbg is not None and cell[3] == termbg:
                    # kitty does not paint a cell background equal to its own default background: that half of the picture is whatever
                    # shows through the window, not the pixel
                    errs.append({"cell": (i, j), "emitted background": cell[3], "is the terminal's default background": termbg,
                                 "effect": "left unpainted by kitty", "glyph": cell[1]})
                    continue
                for half, got, idx in (("up", up, (2 * i) * W + j), ("lo", lo, (2 * i + 1) * W + j)):
                    want = None if (transp and a[idx] == 0) else rgb[idx]
                    if got != want:
                        if kitty and half == "lo" and want == termbg and got is not None and got[1:] == want[1:] and abs(got[0] - want[0]) == 1 and cell[1] != "▄": continue
                        if kitty and want == termbg and got is not None and got[1:] == want[1:] and abs(got[0] - want[0]) == 1 and cell[1] == " ": continue
                        errs.append({"half": half, "cell": (i, j), "shown": got, "pixel": want, "glyph": cell[1]})
        if errs:
            problems.append({"size(cols,lines)": (W, H), "mode": mode, "alpha": alpha, "terminal_bg": termbg, "on_kitty": kitty, "source_size": size, "wrong_cells": errs[:2]})
            break
    return {"reproduced": bool(problems), "input": "seeded random images (first sized from the model)", "observed": problems[:2]}


def source_untouched(m, meta):
    """a PIL image handed in by the caller is the source of EVERY render: after any sequence of renders under different transparency
    settings, a render equals the render of an untouched copy of the original image under the same setting, and the image's info
    (where a paletted image keeps its transparent entry) is what it was"""
    import copy
    import tests
    from term_image.image import BlockImage
    from PIL import Image
    rng = random.Random(12)
    tests.set_fg_bg_colors((255, 255, 255), (10, 20, 30))
    if tests.is_on_kitty:
        tests.toggle_is_on_kitty()
    problems = []

    def sources():
        p = Image.new("P", (4, 4))
        p.putpalette([255, 0, 0, 0, 255, 0, 0, 0, 255] + [9] * (253 * 3))
        p.putdata([0, 1, 2, 1] * 4)
        p.info["transparency"] = 1                       # palette entry 1 is fully transparent
        yield "P, transparency = palette index", p
        q = p.copy()
        q.info["transparency"] = bytes([255, 0, 128] + [255] * 253)        # tRNS table
        yield "P, transparency = alpha table", q
        rgba = Image.new("RGBA", (4, 4))
        rgba.putdata([(200, 100, 50, rng.choice([0, 100, 255])) for _ in range(16)])
        rgba.info["comment"] = "kept"
        yield "RGBA", rgba
        la = Image.new("LA", (4, 4))
        la.putdata([(rng.randint(0, 255), rng.choice([0, 200])) for _ in range(16)])
        yield "LA", la
    for label, im in sources():
        pristine = im.copy()
        info0 = copy.deepcopy(im.info)
        image = BlockImage(im, width=4, height=2)
        for seq in ((None, 0.5), (None, "#"), (None, 0.0, "#112233", 0.5), (0.5, None, 0.5), ("#", None, None, 0.3)):
            for alpha in seq:
                got = image._renderer(image._render_image, alpha)
                ref = BlockImage(pristine.copy(), width=4, height=2)
                exp = ref._renderer(ref._render_image, alpha)
                if got != exp or im.info != info0:
                    problems.append({"source": label, "renders so far (alpha settings)": [repr(a_) for a_ in seq[:seq.index(alpha) + 1]] if alpha in seq else repr(seq),
                                     "render equals the render of an untouched copy": got == exp, "info before": repr(info0)[:80], "info now": repr(im.info)[:80]})
                    break
            if problems:
                break
        if problems:
            break
    return {"reproduced": bool(problems), "input": "sequences of renders of one caller-supplied PIL image under changing transparency settings", "observed": problems[:2]}
