"""Replay for C16: random class trees and constructions on the real RenderArgs / ArgsNamespace against the documented law
(ported from the calibration script; seeded)."""
import random


def construct(m, meta):
    import tests
    from term_image.renderable import Renderable, RenderArgs, ArgsNamespace, IncompatibleArgsNamespaceError, IncompatibleRenderArgsError
    from term_image.geometry import Size
    rng = random.Random(3)
    problems = []
    def make_tree(n):
        classes=[Renderable]; has=[False]  # Renderable itself has no Args
        for i in range(n):
            p=rng.choice(classes)
            C=type(f"C{i}",(p,),{"_get_render_size_":lambda s:Size(1,1),"_render_":lambda s,a,b:None})
            h=rng.random()<0.6
            if h:
                ns=type(f"A{i}",(ArgsNamespace,),{"__annotations__":{"a":int,"b":int},"a":0,"b":0}, render_cls=C)
            classes.append(C); has.append(h)
        return classes[1:]
    def anc(C): return [c for c in C.__mro__ if isinstance(c,type) and issubclass(c,Renderable) and c.Args]
    def snapshot(ra): return (ra.render_cls, {k:(v.a,v.b) for k,v in ra._namespaces.items()})
    bad=0; n=0
    for t in range(120):
        cls=make_tree(rng.randint(2,7))
        objs=[]  # (obj, snapshot) to check immutability
        held_ids=[]  # (obj, {class: id(namespace)})
        for c_ in cls:
            d_ = RenderArgs(c_)
            held_ids.append((d_, {k: id(v) for k, v in d_._namespaces.items()}))      # the shared default sets
        def rnd_ns():
            C=rng.choice([c for c in cls if c.Args] or [None])
            if C is None: return None
            if rng.random() < 0.3:
                return RenderArgs(C)[C]        # the shared default namespace object itself, not a fresh equal one
            return C.Args(rng.randint(0,1), rng.randint(0,1))
        for step in range(60):
            C=rng.choice(cls)
            init=rng.choice([None]+[o for o,_ in objs][-6:]) if objs else None
            nss=[x for x in (rnd_ns() for _ in range(rng.randint(0,3))) if x is not None]
            # expected
            ok=True
            if init is not None and not issubclass(C, init.render_cls): exp=IncompatibleRenderArgsError
            elif any(type(x)._RENDER_CLS not in anc(C) for x in nss): exp=IncompatibleArgsNamespaceError
            else:
                d={A:(0,0) for A in anc(C)}
                if init is not None:
                    for k,v in init._namespaces.items(): d[k]=(v.a,v.b)
                for x in nss: d[type(x)._RENDER_CLS]=(x.a,x.b)
                exp=(C,d)
            try:
                r=RenderArgs(C, init, *nss) if init is not None else RenderArgs(C,*nss)
                got=snapshot(r)
            except (IncompatibleArgsNamespaceError, IncompatibleRenderArgsError) as e:
                got=type(e); r=None
            n+=1
            if got!=exp:
                bad+=1
                problems.append(("construction", C.__name__, repr(init), [repr(x) for x in nss], "got", repr(got), "expected", repr(exp)))
            # immutability of all old objects
            for o,s in objs:
                if snapshot(o)!=s:
                    bad+=1; problems.append(("an existing object was altered", repr(o))); break
            # ... down to the identity of what they hold (the shared default set of a class among them): an equal namespace put in the
            # place of another is an alteration too
            for o, ids in held_ids:
                if {k: id(v) for k, v in o._namespaces.items()} != ids:
                    bad += 1; problems.append(("an existing set now holds other namespace objects (equal values, different identity)", repr(o))); break

            # update / convert / | / unary + return new objects obeying the same rule
            if r is not None and nss:
                x = nss[-1]
                before = snapshot(r)
                for name, f in (("update", lambda: r.update(x)), ("|", lambda: r | x), ("+", lambda: +x), ("convert", lambda: r.convert(C))):
                    try:
                        res = f()
                    except (IncompatibleArgsNamespaceError, IncompatibleRenderArgsError):
                        continue
                    if snapshot(r) != before:
                        bad += 1; problems.append((name + " altered its operand", repr(r)))
                    if name in ("update", "|") and snapshot(res)[1].get(type(x)._RENDER_CLS) != (x.a, x.b):
                        bad += 1; problems.append((name + ": the namespace given does not win", repr(res), repr(x)))
            # update() with several namespaces of ONE class: the last one given wins - also when it equals what the set already holds
            if r is not None:
                for A in anc(r.render_cls):
                    held = r[A]
                    other = A.Args(1 - held.a, held.b)
                    again = A.Args(held.a, held.b)
                    for seq, want in (((other, again), (held.a, held.b)), ((again, other), (other.a, other.b)), ((other, held), (held.a, held.b))):
                        res = r.update(*seq)
                        if (res[A].a, res[A].b) != want:
                            bad += 1; problems.append(("update(ns1, ns2) of one class: the last one given does not win", repr(r), [repr(x) for x in seq], "result", repr(res[A])))
                    break
            # convert(): to every class of the tree and to the root - a new set of the TARGET class holding, for each class with
            # arguments that the target knows, this set's namespace if it has one, else the default; unrelated classes are rejected
            if r is not None:
                for T in cls + [Renderable]:
                    related = issubclass(T, r.render_cls) or issubclass(r.render_cls, T)
                    try:
                        res = r.convert(T); err = None
                    except ValueError as e:
                        res = None; err = e
                    if (res is not None) != related:
                        bad += 1; problems.append(("convert", r.render_cls.__name__, "->", T.__name__, "related:", related, "result:", repr(err or res)))
                    elif res is not None:
                        mine = snapshot(r)[1]
                        exp_c = (T, {A: mine.get(A, (0, 0)) for A in anc(T)})
                        if snapshot(res) != exp_c:
                            bad += 1; problems.append(("convert", repr(r), "->", T.__name__, "gives", repr(snapshot(res)), "expected", repr(exp_c)))
            # `|` between a namespace and a set: accepted exactly when one class descends from the other (whether or not the set's
            # class has a namespace of its own), and then equal to the constructor's result for the more derived class
            if r is not None:
                x = rnd_ns()
                if x is not None:
                    X, R = type(x)._RENDER_CLS, r.render_cls
                    related = issubclass(X, R) or issubclass(R, X)
                    for name, f in (("ns | set", lambda: x | r), ("set | ns", lambda: r | x)):
                        try:
                            res = f(); err = None
                        except (IncompatibleArgsNamespaceError, IncompatibleRenderArgsError) as e:
                            res = None; err = type(e).__name__
                        if (res is not None) != related:
                            bad += 1; problems.append((name, "classes related:", related, "result:", err or repr(res), repr(x), repr(r)))
                        elif res is not None:
                            # ... the set of the more derived class: defaults, overlaid with everything the set holds, overlaid with
                            # the namespace (which takes precedence in both orders)
                            T = X if issubclass(X, R) else R
                            d = {A: (0, 0) for A in anc(T)}
                            d.update(snapshot(r)[1])
                            d[X] = (x.a, x.b)
                            if snapshot(res) != (T, d):
                                bad += 1; problems.append((name, repr(x), repr(r), "gives", repr(snapshot(res)), "expected", repr((T, d))))
            # update(render_cls, **fields): only the named fields of that class change - every other namespace the set holds stays
            if r is not None:
                for A in anc(r.render_cls):
                    for fields in ({"a": 1 - r[A].a}, {"b": 1 - r[A].b}, {"a": 1, "b": 1}):
                        res = r.update(A, **fields)
                        d = dict(snapshot(r)[1])
                        d[A] = (fields.get("a", r[A].a), fields.get("b", r[A].b))
                        if snapshot(res) != (r.render_cls, d):
                            bad += 1; problems.append(("update(cls, **fields)", repr(r), A.__name__, fields, "gives", repr(snapshot(res)), "expected", repr((r.render_cls, d))))
                            break
            # a namespace subclass that inherits fields and association: equal to its parent's instance, hence the same hash
            if nss:
                x = nss[-1]
                Sub = type("Sub" + type(x).__name__, (type(x),), {})
                y = Sub(x.a, x.b)
                if (x == y) and hash(x) != hash(y):
                    bad += 1; problems.append(("equal namespaces hash differently", repr(x), repr(y)))
            if r is not None:
                held_ids.append((r, {k: id(v) for k, v in r._namespaces.items()}))
                # an initial set equal to the default of its class, but another object: RenderArgs(C, thatset) and thatset.convert(C)
                if rng.random() < 0.3 and anc(C):
                    twin = RenderArgs(C, *[A.Args(0, 0) for A in anc(C)])
                    if twin == RenderArgs(C) and twin is not RenderArgs(C):
                        for T in cls:
                            if issubclass(T, C):
                                RenderArgs(T, twin)
            if r is not None:
                objs.append((r,snapshot(r)))
                # eq/hash
                for o,_ in objs[-8:]:
                    if o==r and hash(o)!=hash(r): bad+=1; problems.append(("equal sets hash differently", repr(o), repr(r)))
                    if (snapshot(o)==snapshot(r)) != (o==r): bad+=1; problems.append(("== disagrees with contents", repr(snapshot(o)), repr(snapshot(r)), o==r))
    return {"reproduced": bool(problems), "input": f"{n} constructions over random class trees", "observed": [repr(p)[:400] for p in problems[:3]]}


def namespace_classes(m, meta):
    """defining namespace classes on the real metaclasses: every combination of the documented rules"""
    import tests  # noqa: F401
    from term_image.renderable import ArgsNamespace, Renderable
    from term_image.geometry import Size
    problems = []

    def render_cls(name):
        return type(name, (Renderable,), {"_get_render_size_": lambda s: Size(1, 1), "_render_": lambda s, a, b: None})
    n = 0
    for two_bases in (False, True):
        for base_kind in ("plain", "associated", "below-associated"):
            for own in (False, True):
                for all_defaults in (True, False):
                    for rc in ("none", "fresh", "has-args", "not-a-class"):
                        if not own and not all_defaults:
                            continue
                        n += 1
                        if base_kind in ("associated", "below-associated"):
                            B = render_cls(f"B{n}")
                            base = type(f"BaseArgs{n}", (ArgsNamespace,), {"__annotations__": {"x": int}, "x": 0}, render_cls=B)
                            if base_kind == "below-associated":      # two levels down: the association is the ancestor's
                                base = type(f"BaseArgsPlus{n}", (base,), {})
                        else:
                            base = ArgsNamespace
                        bases = (base, type(f"Mixin{n}", (ArgsNamespace,), {})) if two_bases else (base,)
                        ns = {}
                        if own:
                            ns = {"__annotations__": {"a": int, "b": int}, "a": 1}
                            if all_defaults:
                                ns["b"] = 2
                        kw = {}
                        T = None
                        if rc != "none":
                            T = render_cls(f"T{n}") if rc != "not-a-class" else 5
                            if rc == "has-args":
                                type(f"Prior{n}", (ArgsNamespace,), {"__annotations__": {"p": int}, "p": 0}, render_cls=T)
                            kw["render_cls"] = T
                        valid = (not two_bases and not (base_kind != "plain" and own) and all_defaults
                                 and (rc == "none" and not own or rc == "fresh" and own and base_kind == "plain"))
                        try:
                            C = type(f"New{n}", bases, ns, **kw)
                            ok = True
                        except Exception as e:
                            ok = False
                            err = type(e).__name__
                        if ok != valid:
                            problems.append({"bases": len(bases), "base": base_kind, "own fields": own, "defaults for all": all_defaults, "render_cls": rc,
                                             "accepted": ok, "documented": valid})
                        elif ok and rc == "fresh" and not (T.Args is C and C.get_render_cls() is T and dict(C._FIELDS) == {"a": 1, "b": 2}):
                            problems.append({"association not recorded": (T.Args, C)})
    return {"reproduced": bool(problems), "input": f"{n} namespace class definitions", "observed": [repr(p)[:260] for p in problems[:3]]}


def ns_update(m, meta):
    """ArgsNamespace.update on a real namespace class: every subset of known fields, with and without an unknown name"""
    import itertools
    import tests  # noqa: F401
    from term_image.geometry import Size
    from term_image.renderable import ArgsNamespace, Renderable, UnknownArgsFieldError
    R = type("NsUpdR", (Renderable,), {"_get_render_size_": lambda s: Size(1, 1), "_render_": lambda s, a, b: None})
    NS = type("NsUpdArgs", (ArgsNamespace,), {"__annotations__": {"a": int, "b": int}, "a": 1, "b": 2}, render_cls=R)
    problems = []
    for ga, gb, gu in itertools.product((False, True), repeat=3):
        ns = NS(a=5, b=6)
        kw = {**({"a": 11} if ga else {}), **({"b": 21} if gb else {}), **({"c": 3} if gu else {})}
        try:
            got, err = ns.update(**kw), None
        except Exception as e:  # noqa: BLE001
            got, err = None, type(e)
        if (ns.a, ns.b) != (5, 6):
            problems.append({"given": kw, "observed": "the namespace updated was altered"})
        if gu:
            if err is not UnknownArgsFieldError:
                problems.append({"given": kw, "observed": f"{'accepted' if err is None else err.__name__}; an unknown field must raise UnknownArgsFieldError"})
        elif err is not None:
            problems.append({"given": kw, "observed": f"raised {err.__name__}"})
        elif not kw:
            if got is not ns:
                problems.append({"given": kw, "observed": "no fields: not the namespace itself"})
        elif got is ns or type(got) is not NS or (got.a, got.b) != (11 if ga else 5, 21 if gb else 6):
            problems.append({"given": kw, "observed": f"result {got!r}"})
    return {"reproduced": bool(problems), "input": problems[:4]}
