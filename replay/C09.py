"""Replay for the old-API image iterator (C09 / C11): seeded random histories (next / seek / size change) on a small GIF, each
yielded frame against format() of that frame at the size in force, cached against uncached, seek position and loop_no tracked."""
import io
import random


def image_iterator(m, meta, n_hist=600):
    """the text style without a style part, then the graphics styles with a style part in the specifier (method, z-index,
    compression: what a frame rendered late - skipped by a seek in the first pass, or re-rendered after a size change - must still
    be rendered with)"""
    import tests  # noqa: F401
    import term_image.geometry as G
    from term_image.image import BlockImage, KittyImage, ITerm2Image
    tests.set_cell_size(G.Size(4, 8))
    KittyImage._supported = ITerm2Image._supported = True
    KittyImage._TERM, KittyImage._KITTY_VERSION = "kitty", (0, 30, 0)
    ITerm2Image._TERM = "iterm2"
    for cls, spec, n in ((BlockImage, "1.1", n_hist), (KittyImage, "1.1+Wz5c0", n_hist // 4), (KittyImage, "1.1#+Lm1", n_hist // 6), (ITerm2Image, "1.1+Wc9", n_hist // 6)):
        r = _image_iterator(cls, spec, n)
        if r["reproduced"]:
            r["input"] = f"{cls.__name__}, spec {spec!r}: " + r["input"]
            return r
    return r


def _image_iterator(BlockImage, SPEC, n_hist):
    from PIL import Image
    from term_image.image import ImageIterator
    rng = random.Random(9)
    NF = 5
    cols = [(255, 0, 0), (0, 255, 0), (0, 0, 255), (255, 255, 0), (0, 255, 255)]
    buf = io.BytesIO()
    fr = [Image.new("RGB", (16, 16), c) for c in cols]
    fr[0].save(buf, "GIF", save_all=True, append_images=fr[1:], duration=100, loop=0)
    data = buf.getvalue()

    def apply(im, size):
        # (width, None): proportional; (width, height): both given - two such sizes may share the width (or the height)
        im.set_size(width=size[0]) if size[1] is None else im.set_size(width=size[0], height=size[1])

    def fresh(frame, size):
        im = BlockImage(Image.open(io.BytesIO(data)))
        apply(im, size)
        im.seek(frame)
        return format(im, SPEC)
    memo = {}
    for h in range(n_hist):
        repeat = rng.choice([1, 2, 3, -1])
        cached = rng.choice([True, False, 3, 5, 100])
        image = BlockImage(Image.open(io.BytesIO(data)))
        width = (8, None)
        apply(image, width)
        it = ImageIterator(image, repeat, SPEC, cached=cached)
        expect_n, passes, trace = 0, repeat, []
        for step in range(rng.randint(3, 22)):
            op = rng.choice(["next", "next", "next", "seek", "size"])
            if op == "size":
                width = rng.choice([(6, None), (8, None), (12, None), (10, 4), (10, 7), (5, 4)])
                apply(image, width)
                trace.append(("size", width))
                continue
            if op == "seek" and trace and any(t[0] == "next" for t in trace):
                pos = rng.randrange(NF)
                try:
                    it.seek(pos)
                except Exception as e:
                    trace.append(("seek", pos, type(e).__name__))
                    break
                expect_n = pos
                trace.append(("seek", pos))
                continue
            if expect_n == NF:
                expect_n = 0
                passes = passes - 1 if passes > 0 else passes
            try:
                got = next(it)
            except StopIteration:
                if passes != 0:
                    return {"reproduced": True, "input": f"repeat={repeat} cached={cached} history={trace}", "observed": "StopIteration before the last pass ended"}
                if image.tell() != 0:
                    return {"reproduced": True, "input": f"repeat={repeat} cached={cached} history={trace}", "observed": f"image left at frame {image.tell()} after exhaustion"}
                break
            trace.append(("next", expect_n))
            if passes == 0:
                return {"reproduced": True, "input": f"repeat={repeat} cached={cached} history={trace}", "observed": "a frame was yielded after the last pass"}
            key = (expect_n, width)
            if key not in memo:
                memo[key] = fresh(*key)
            if got != memo[key] or image.tell() != expect_n or it.loop_no != passes:
                return {"reproduced": True, "input": f"repeat={repeat} cached={cached} history={trace}",
                        "observed": f"frame equals fresh format(): {got == memo[key]}; image.tell()={image.tell()} (expected {expect_n}); loop_no={it.loop_no} (expected {passes})"}
            expect_n += 1
        it.close()
    return {"reproduced": False, "input": f"{n_hist} random histories", "observed": []}
