"""Minimal concrete VT interpreter (scratch; same semantics as DESIGN appendix A)."""
import re, base64

TOKEN = re.compile(
    r"\x1b\[(?P<csi>[0-9;:?>]*)(?P<fin>[A-Za-z@])"      # CSI
    r"|\x1b_(?P<apc>[^\x1b]*)\x1b\\"                      # APC ... ST
    r"|\x1b\](?P<osc>[^\x1b\x07]*)(?:\x1b\\|\x07)"        # OSC ... ST|BEL
    r"|\x1b\\"                                            # stray ST
    r"|(?P<nl>\n)|(?P<cr>\r)|(?P<bs>\x08)|(?P<nul>\x00)"
    r"|(?P<ch>[^\x1b\n\r\x08\x00])", re.S)

class VT:
    def __init__(self, width=80, height=30, row=0, col=0):
        self.W, self.H = width, height
        self.row, self.col = row, col        # logical rows
        self.bottom = height - 1
        self.vis = True; self.fg = self.bg = None
        self.cells = {}                       # (row,col) -> ("text", ch, fg, bg) / image layer separately
        self.images = {}                      # (row,col) -> placement tag
        self.scrolled = 0; self.wrapped = False; self.incomplete = False
        self.log = []
    @property
    def top(self): return self.bottom - self.H + 1
    def feed(self, s):
        pos = 0
        for m in TOKEN.finditer(s):
            if m.start() != pos: self.incomplete = True   # unparsed bytes => incomplete/unknown control sequence
            pos = m.end()
            self.tok(m)
        if pos != len(s): self.incomplete = True
        return self
    def newline(self):
        self.col = 0
        if self.row == self.bottom: self.bottom += 1; self.scrolled += 1
        self.row += 1
    def put(self, ch):
        if self.col >= self.W: self.wrapped = True; self.newline()
        self.cells[(self.row, self.col)] = ("text", ch, self.fg, self.bg)
        self.col += 1
        # (col may equal W: pending-wrap column; next printable would wrap)
    def tok(self, m):
        if m.group("ch") is not None: return self.put(m.group("ch"))
        if m.group("nl"): return self.newline()
        if m.group("cr"): self.col = 0; return
        if m.group("bs"): self.col = max(self.col - 1, 0); return
        if m.group("nul"): return
        if m.group("fin"):
            p, f = m.group("csi"), m.group("fin")
            if f in "ABCDX":
                n = int(p) if p else 1
                n = n if n >= 1 else 1
                if self.col >= self.W and f in "ABCD": self.col = self.W - 1
                if f == "A": self.row = max(self.row - n, self.top)
                elif f == "B": self.row = min(self.row + n, self.bottom)
                elif f == "C": self.col = min(self.col + n, self.W - 1)
                elif f == "D": self.col = max(self.col - n, 0)
                elif f == "X":
                    for c in range(self.col, min(self.col + n, self.W)): self.cells[(self.row, c)] = ("text", " ", self.fg, self.bg)
            elif f == "m":
                if p == "": self.fg = self.bg = None
                else:
                    q = [int(x) for x in p.split(";")]
                    if q[:2] == [38, 2]: self.fg = tuple(q[2:5])
                    elif q[:2] == [48, 2]: self.bg = tuple(q[2:5])
                    else: self.log.append(("sgr?", p))
            elif f in "hl" and p == "?25": self.vis = (f == "h")
            elif f in "hl" and p == "?2026": self.log.append(("sync", f == "h"))
            else: self.log.append(("csi?", p, f))
            return
        if m.group("apc") is not None:
            body = m.group("apc")
            if not body.startswith("G"): self.log.append(("apc?", body[:10])); return
            ctrl, _, payload = body[1:].partition(";")
            keys = dict((kv.split("=", 1) + [""])[:2] for kv in ctrl.split(",") if kv)      # (a command cut short may hold half a key)
            self.log.append(("kitty", keys, len(payload)))
            if keys.get("a") == "T":
                self._pending = keys
            if keys.get("a") == "d":
                self.log.append(("kitty-delete", keys))
                d = keys.get("d", "a")
                if d in ("C", "c"):
                    # every placement that covers the cursor cell goes away - all of it, not only that cell
                    hit = self.images.get((self.row, self.col))
                    if hit is not None and hit[0] == "kitty":
                        self.images = {k_: v_ for k_, v_ in self.images.items() if v_ != hit}
                elif d in ("A", "a"):
                    self.images = {k_: v_ for k_, v_ in self.images.items() if v_[0] != "kitty"}
                return
            if keys.get("m", "0") == "0" and getattr(self, "_pending", None) and keys.get("a", "T") in ("T",) or (keys.get("m") == "0" and getattr(self, "_pending", None)):
                k = self._pending; self._pending = None
                if not (k.get("c", "").isdigit() and k.get("r", "").isdigit()):
                    self.log.append(("kitty-malformed?", k)); return          # a transmission cut short and then terminated: nothing is placed
                c, r = int(k["c"]), int(k["r"])
                self._pid = getattr(self, "_pid", 0) + 1
                for rr in range(self.row, self.row + r):
                    for cc in range(self.col, self.col + c): self.images[(rr, cc)] = ("kitty", k.get("z"), self._pid)
                assert k.get("C") == "1"
            return
        if m.group("osc") is not None:
            body = m.group("osc")
            if body.startswith("1337;File="):
                ctrl, _, payload = body[len("1337;File="):].partition(":")
                keys = dict(kv.split("=") for kv in ctrl.split(";") if kv)
                self.log.append(("iterm2", keys, len(payload)))
                c, r = int(keys["width"]), int(keys["height"])
                for _ in range(max(0, self.row + r - 1 - self.bottom)): self.bottom += 1; self.scrolled += 1
                for rr in range(self.row, self.row + r):
                    for cc in range(self.col, self.col + c): self.images[(rr, cc)] = ("iterm2",)
                if keys.get("doNotMoveCursor") != "1":
                    self.row += r - 1; self.col = min(self.col + c, self.W - 1) if self.col + c >= self.W else self.col + c
            else: self.log.append(("osc?", body[:12]))
            return
    def touched(self): return set(self.cells) | set(self.images)
