"""Replays for C13: query_terminal / read_tty on a real pty; KeyboardInterrupt / OSError injected at the k-th external call (termios,
os.read / os.write, select, monotonic), before the call or right after it took effect, for every k outside the function's own final
restore; the attribute set read back from the pty afterwards must be the one found."""
import os, pty, sys, types


def _run(which, echo_on, raw=False):
    import select as _select, termios as _termios, time as _time
    import term_image
    import term_image.utils as U
    master, slave = pty.openpty()
    saved = (U._tty_fd, U.termios, U.os, U.select, U.monotonic, U.read_tty)
    problems = []
    try:
        U._tty_fd = slave
        term_image.enable_queries()
        attr = _termios.tcgetattr(slave)
        attr[3] = (attr[3] | _termios.ECHO) if echo_on else (attr[3] & ~_termios.ECHO)
        if raw:
            # a caller that already reads byte-wise without blocking: exactly the mode read_tty() itself ends up in
            attr[3] &= ~_termios.ICANON
            attr[6] = list(attr[6])
            attr[6][_termios.VMIN], attr[6][_termios.VTIME] = 0, 0
        _termios.tcsetattr(slave, _termios.TCSANOW, attr)
        before = _termios.tcgetattr(slave)
        state = {"n": 0, "fail_at": None, "exc": None, "after": False, "log": []}
        import ast as _ast, inspect as _inspect, textwrap as _tw
        rt = _inspect.unwrap(U.read_tty)
        rt_code = rt.__code__
        src_lines, first = _inspect.getsourcelines(rt)
        tree = _ast.parse(_tw.dedent("".join(src_lines)))
        finally_lines = {ln + first - 1 for t in _ast.walk(tree) if isinstance(t, _ast.Try) for st_ in t.finalbody
                         for ln in range(st_.lineno, (st_.end_lineno or st_.lineno) + 1)}

        def wrap(name, fn):
            def f(*a, **k):
                state["n"] += 1
                # the function's own restore is the tcsetattr issued from a `finally` block of read_tty (by source position: a mode
                # switch that happens to be handed the attributes found on entry is not the restore)
                fr = sys._getframe(1)
                in_finally = fr.f_code is rt_code and fr.f_lineno in finally_lines
                state["log"].append(name + "(restore)" if name == "termios.tcsetattr" and in_finally else name)
                hit = state["fail_at"] == state["n"]
                if hit and not state["after"]:
                    raise state["exc"]()
                r = fn(*a, **k)
                if hit:
                    raise state["exc"]()
                return r
            return f
        tns = types.SimpleNamespace(**{k: getattr(_termios, k) for k in dir(_termios) if not k.startswith("_")})
        for nm in ("tcgetattr", "tcsetattr", "tcdrain", "tcflush"):
            setattr(tns, nm, wrap("termios." + nm, getattr(_termios, nm)))
        ons = types.SimpleNamespace(**{k: getattr(os, k) for k in dir(os) if not k.startswith("_")})
        ons.read, ons.write = wrap("os.read", os.read), wrap("os.write", os.write)
        U.termios, U.os, U.select, U.monotonic = tns, ons, wrap("select", _select.select), wrap("monotonic", _time.monotonic)
        real_read_tty = U.read_tty
        if which == "query_terminal":
            def nested_read_tty(*a, **k):          # marks where the callee's external calls end: what follows is query_terminal's clean-up
                try:
                    return real_read_tty(*a, **k)
                finally:
                    state["nested_end"] = state["n"]
            U.read_tty = nested_read_tty

        def call():
            if which == "query_terminal":
                return U.query_terminal(b"\x1b[c", lambda s: not s.endswith(b"c"), 0.02)
            if which == "read_tty[timed]":
                return U.read_tty(lambda s: len(s) < 3, 0.02)
            if which == "read_tty[timed,min=1]":
                return U.read_tty(lambda s: len(s) < 3, 0.02, 1, echo=echo_on)
            return U.read_tty()
        os.write(master, b"\x1b[?62;c")
        call()
        n_calls, log = state["n"], list(state["log"])
        if _termios.tcgetattr(slave) != before:
            problems.append({"call": which, "echo_on_entry": echo_on, "fault": None, "observed": "attributes differ after an undisturbed call"})
        # the function's own clean-up: for query_terminal everything after the nested read_tty has ended (the nested call's own restore
        # is NOT query_terminal's clean-up); for read_tty the last tcsetattr of the undisturbed run
        if which == "query_terminal":
            last_restore = state.get("nested_end", n_calls) + 1
        else:
            last_restore = max((i for i, nm in enumerate(log, 1) if nm == "termios.tcsetattr(restore)"), default=n_calls + 1)
        for k in range(1, n_calls + 1):
            if k >= last_restore:
                continue        # inside the function's own `finally`
            for exc in (KeyboardInterrupt, OSError):
                for after in (False, True):
                    _termios.tcsetattr(slave, _termios.TCSANOW, before)
                    os.write(master, b"\x1b[?62;c")
                    state.update(n=0, fail_at=k, exc=exc, after=after, log=[], nested_end=None)
                    try:
                        call()
                    except (KeyboardInterrupt, OSError):
                        pass
                    state["fail_at"] = None
                    # the number of loop turns depends on timing: decide from THIS run whether the fault fell into the function's own
                    # clean-up (after the nested read_tty ended / on the last restoring tcsetattr), which the property excludes
                    this_log = state["log"]
                    if which == "query_terminal" and state["nested_end"] is not None and k > state["nested_end"]:
                        continue
                    if which != "query_terminal" and k == len(this_log) and this_log[-1] == "termios.tcsetattr(restore)":
                        continue
                    if k > len(this_log):
                        continue        # this run made fewer external calls: no fault was injected
                    now = _termios.tcgetattr(slave)
                    if now != before:
                        problems.append({"call": which, "echo_on_entry": echo_on, "raw_on_entry(VMIN=0,VTIME=0)": raw, "fault": exc.__name__, "at external call": f"{k} ({log[k - 1]})",
                                         "surfaced": "after the call took effect" if after else "before the call", "lflag before/after": (before[3], now[3]), "cc changed": before[6] != now[6]})
                        return problems
    finally:
        U._tty_fd, U.termios, U.os, U.select, U.monotonic, U.read_tty = saved
        os.close(master)
        os.close(slave)
    return problems


def query_terminal(m, meta):
    problems = []
    for echo in (True, False):
        problems += _run("query_terminal", echo)
    return {"reproduced": bool(problems), "input": "faults at every external call of query_terminal on a pty (echo on / off at entry)", "observed": problems[:2]}


def _modes():
    """undisturbed read_tty calls from every kind of terminal mode a caller may already have set (cooked, cbreak with VMIN 0/1/3,
    echo on/off) with every combination of the function's own arguments: the mode found is the mode left"""
    import termios as T
    import term_image
    import term_image.utils as U
    problems = []
    master, slave = pty.openpty()
    saved = U._tty_fd
    try:
        U._tty_fd = slave
        term_image.enable_queries()
        base = T.tcgetattr(slave)
        for canon in (True, False):
            for echo_on in (True, False):
                for vmin, vtime in ((1, 0), (0, 0), (3, 0), (0, 5)):
                    attr = [x if not isinstance(x, list) else list(x) for x in base]
                    attr[3] = (attr[3] | T.ICANON) if canon else (attr[3] & ~T.ICANON)
                    attr[3] = (attr[3] | T.ECHO) if echo_on else (attr[3] & ~T.ECHO)
                    if not canon:
                        attr[6][T.VMIN], attr[6][T.VTIME] = vmin, vtime
                    T.tcsetattr(slave, T.TCSANOW, attr)
                    before = T.tcgetattr(slave)
                    for mn in (0, 1, 3):
                        for timeout in (None, 0.02):
                            for echo in (False, True):
                                if timeout is None and mn > 0:
                                    os.write(master, b"abc")       # something to read, or the call would block for ever
                                else:
                                    os.write(master, b"xyz")
                                try:
                                    U.read_tty(lambda s: len(s) < 3, timeout, mn, echo=echo)
                                except Exception as e:  # noqa: BLE001
                                    problems.append({"mode on entry": (canon, echo_on, vmin, vtime), "call": (timeout, mn, echo), "raised": repr(e)})
                                after = T.tcgetattr(slave)
                                if after != before:
                                    problems.append({"mode on entry (ICANON, ECHO, VMIN, VTIME)": (canon, echo_on, vmin, vtime),
                                                     "read_tty(timeout, min, echo)": (timeout, mn, echo),
                                                     "VMIN/VTIME afterwards": (after[6][T.VMIN], after[6][T.VTIME]), "lflag changed": after[3] != before[3]})
                                    T.tcsetattr(slave, T.TCSANOW, before)
                                U.read_tty()                        # drain what is left
                                T.tcsetattr(slave, T.TCSANOW, before)
                    if canon:
                        break
    finally:
        U._tty_fd = saved
        os.close(master); os.close(slave)
    return problems


def read_tty(m, meta):
    problems = _modes()
    for which in ("read_tty[timed]", "read_tty[drain]", "read_tty[timed,min=1]"):
        for echo in (True, False):
            for raw in (False, True):
                if not problems:
                    problems += _run(which, echo, raw)
    return {"reproduced": bool(problems), "input": "faults at every external call of read_tty (timed / drain) on a pty", "observed": problems[:2]}
