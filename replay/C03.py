"""Replay for C03: real kitty / iTerm2 renders, commands parsed, payloads base64-decoded (and zlib-decompressed when o=z) and
compared with the expected pixels / sizes (ported from the calibration script; seeded)."""
import base64, io, random, re, zlib


def render(m, meta, trials=90):
    import tests, term_image.geometry as G
    from term_image.image import KittyImage, ITerm2Image
    from PIL import Image
    rng = random.Random(8)
    problems = []
    n = 0
    APC = re.compile(r"\x1b_G([^;\x1b]*);([^\x1b]*)\x1b\\")
    OSC = re.compile(r"\x1b\]1337;File=([^:]*):([^\x1b]*)\x1b\\")
    def expected(im, alpha, size, termbg="#000000"):
        if alpha is None or im.mode in {"1", "L", "RGB", "HSV", "CMYK"}:
            e = im.convert("RGB"); return e.resize(size, Image.Resampling.BOX) if e.size != size else e
        e = im.convert("RGBA"); e = e.resize(size, Image.Resampling.BOX) if e.size != size else e
        if isinstance(alpha, str):
            bg = Image.new("RGBA", e.size, termbg if alpha == "#" else alpha); bg.alpha_composite(e); return bg.convert("RGB")
        return e
    tests.set_fg_bg_colors((255, 255, 255), (0, 0, 0))
    KittyImage._supported = True; ITerm2Image._supported = True
    for trial in range(trials):
        if problems: break
        cw, ch = rng.choice([(1, 1), (3, 7), (9, 18), (10, 21)]); tests.set_cell_size(G.Size(cw, ch))
        W, H = rng.randint(1, 40), rng.randint(1, 12)
        mode = rng.choice(["RGB", "RGBA", "L", "LA", "P"])
        im = Image.new("RGBA", (rng.randint(1, 120), rng.randint(1, 90)))
        if trial % 3 == 0:   # flat on top, noise below (a compressible strip followed by an incompressible one), at render resolution
            im = Image.new("RGBA", (W * cw, H * ch)); px = [(9, 9, 9, 255)] * (im.width * (im.height // 2)); px += [tuple(rng.randrange(256) for _ in range(4)) for _ in range(im.width * im.height - len(px))]; im.putdata(px)
        else:
            im.putdata([tuple(rng.randrange(256) for _ in range(4)) for _ in range(im.width * im.height)])
        im = im.convert(mode)
        alpha_spec, alpha = rng.choice([("", 40 / 255), ("#", None), ("#.5", 0.5), ("#112233", "#112233"), ("##", "#")])
        # ---------------- kitty
        k = KittyImage(im, width=W, height=H)
        for meth in "LW":
            comp = rng.choice([0, 1, 4, 9]); out = format(k, f"1.1{alpha_spec}+{meth}z{rng.randint(-5,5)}c{comp}"); n += 1
            cmds = APC.findall(out); errs = []
            # group into transmissions
            trans = []; cur = None
            for ctrl, payload in cmds:
                keys = dict(kv.split("=") for kv in ctrl.split(","))
                if "a" in keys:
                    if cur is not None: errs.append("new transmission before m=0")
                    cur = {"keys": keys, "chunks": [payload]}
                else:
                    if cur is None or set(keys) != {"m"}: errs.append(("bad continuation", keys)); continue
                    cur["chunks"].append(payload)
                last = keys.get("m", "0") == "0"
                if last: trans.append(cur); cur = None
            if cur is not None: errs.append("unterminated chunk sequence")
            raws = []
            for t in trans:
                ks = t["keys"]; chunks = t["chunks"]
                for i, c in enumerate(chunks):
                    if len(c) > 4096 or (i < len(chunks) - 1 and (len(c) != 4096)): errs.append(("chunk size", i, len(c)))
                data = base64.b64decode("".join(chunks))
                if ks.get("o") == "z":
                    try: data = zlib.decompress(data)
                    except zlib.error: errs.append("o=z but the payload is not a zlib stream"); continue
                elif comp: errs.append("o=z missing")
                s_, v_, f_ = int(ks["s"]), int(ks["v"]), int(ks["f"])
                if len(data) != s_ * v_ * f_ // 8: errs.append(("payload size", len(data), s_, v_, f_))
                if (ks["a"], ks["t"], ks["C"], ks["c"]) != ("T", "d", "1", str(W)): errs.append(("keys", ks))
                raws.append((s_, v_, f_, int(ks["r"]), data))
            if meth == "L":
                if len(raws) != H or any(r[3] != 1 for r in raws): errs.append(("lines", len(raws)))
                size = (W * cw, H * ch)
            else:
                if len(raws) != 1 or raws[0][3] != H: errs.append(("whole", len(raws)))
                rs = (W * cw, H * ch); size = rs if rs[0] * rs[1] < im.width * im.height else im.size
            if raws and not errs:
                whole = b"".join(r[4] for r in raws); e = expected(im, alpha, size)
                if (raws[0][0], sum(r[1] for r in raws)) != size: errs.append(("s x v", raws[0][0], sum(r[1] for r in raws), size))
                elif whole != e.tobytes() or raws[0][2] != len(e.mode) * 8: errs.append(("pixels differ", e.mode, raws[0][2]))
            if errs: problems.append(("kitty", meth, (W, H), (cw, ch), mode, alpha_spec, errs[:3]))
        # ---------------- iterm2
        it = ITerm2Image(im, width=W, height=H)
        for term in ("iterm2", "konsole"):
            ITerm2Image._TERM = term
            for meth in "LWA":        # A: a native-animation request on a still image is documented to behave as WHOLE
                out = format(it, f"1.1{alpha_spec}+{meth}"); n += 1; errs = []
                files = OSC.findall(out)
                imgs = []
                for ctrl, payload in files:
                    keys = dict(kv.split("=") for kv in ctrl.split(";"))
                    data = base64.b64decode(payload)
                    if not data:
                        errs.append(("empty payload", keys)); continue
                    if int(keys["size"]) != len(data): errs.append(("size=", keys["size"], len(data)))
                    if keys["width"] != str(W) or keys["preserveAspectRatio"] != "0" or keys["inline"] != "1": errs.append(("keys", keys))
                    if (keys.get("doNotMoveCursor") == "1") != (term == "konsole"): errs.append("doNotMoveCursor")
                    imgs.append((int(keys["height"]), Image.open(io.BytesIO(data))))
                if meth == "L":
                    if len(imgs) != H or any(h != 1 for h, _ in imgs): errs.append(("lines", len(imgs)))
                    size = (W * cw, H * ch)
                else:
                    if len(imgs) != 1 or imgs[0][0] != H: errs.append(("whole", len(imgs)))
                    rs = (W * cw, H * ch); size = rs if (meth == "A" or rs[0] * rs[1] < im.width * im.height) else im.size   # (the fallback renders at the full render size)
                if imgs and not errs:
                    e = expected(im, alpha, size)
                    st = Image.new(e.mode, size); y = 0
                    for _, pi in imgs: st.paste(pi.convert(e.mode), (0, y)); y += pi.height
                    if y != size[1] or any(pi.width != size[0] for _, pi in imgs): errs.append(("geometry", y, size))
                    elif st.tobytes() != e.tobytes(): errs.append(("pixels differ", e.mode, imgs[0][1].mode))
                if errs: problems.append(("iterm2", term, meth, (W, H), (cw, ch), mode, alpha_spec, errs[:3]))
    return {"reproduced": bool(problems), "input": "seeded random kitty / iTerm2 renders, payloads decoded", "observed": [repr(p)[:600] for p in problems[:3]]}


def file_gate(m, meta):
    """iterm2 WHOLE renders of image files with reading-from-file enabled: whatever the gate decides, the transmitted image shows what
    the alpha option asks for - a colour string composites transparent pixels over that colour, None drops the alpha channel, a float
    threshold leaves the picture alone; and `size=` is the length of the decoded payload"""
    import base64, io, os, re
    import tests  # noqa: F401
    from PIL import Image
    from term_image.image import ITerm2Image
    tests.set_fg_bg_colors(None, (0, 0, 0))
    saved = (ITerm2Image._supported, ITerm2Image._TERM, ITerm2Image._TERM_VERSION)
    ITerm2Image._supported, ITerm2Image._TERM, ITerm2Image._TERM_VERSION = True, "iterm2", "3.5"
    problems = []
    d = os.environ.get("VERIF_SCRATCH", "/tmp")
    paths = []
    try:
        for mode in ("RGBA", "RGB", "LA", "P"):
            img = Image.new("RGBA", (8, 8), (200, 10, 10, 255))
            for x in range(4):
                for y in range(8):
                    img.putpixel((x, y), (0, 0, 255, 0))          # the left half is fully transparent
            if mode == "RGB":
                src = img.convert("RGB")
            elif mode == "LA":
                src = img.convert("LA")
            elif mode == "P":
                src = img.convert("RGB").convert("P")
            else:
                src = img
            path = os.path.join(d, f"c03_gate_{os.getpid()}_{mode}.png")
            src.save(path)
            paths.append(path)
            for alpha in (0.5, "#00ff00", "#", None):
                image = ITerm2Image.from_file(path)
                image.read_from_file = True
                image.set_size(width=8)
                out = image._renderer(image._render_image, alpha, method="whole")
                mm = re.search(r"\x1b\]1337;File=([^:]*):([^\x07\x1b]*)", out)
                keys = dict(kv.split("=") for kv in mm.group(1).split(";"))
                data = base64.b64decode(mm.group(2))
                if int(keys["size"]) != len(data):
                    problems.append((mode, alpha, "size= differs from the payload length", keys["size"], len(data)))
                shown = Image.open(io.BytesIO(data)).convert("RGBA")
                px = shown.getpixel((1, 1))
                has_alpha = mode in ("RGBA", "LA")
                if has_alpha and isinstance(alpha, str) and px[3] != 255:
                    problems.append((mode, alpha, "transparent pixel transmitted still transparent (not composited over the colour)", px))
                if has_alpha and alpha == "#00ff00" and px[:3] != (0, 255, 0) and mode == "RGBA":
                    problems.append((mode, alpha, "transparent pixel does not show the requested colour", px))
                if has_alpha and alpha is None and px[3] != 255:
                    problems.append((mode, alpha, "alpha channel kept although transparency is disabled", px))
                image.close()
        # the file itself may be sent only when the render does not have to downscale it (pixel count of the source <= pixel count of
        # the render) - for every shape of source, the very tall and the very wide included
        import term_image.geometry as G
        tests.set_cell_size(G.Size(10, 20))
        for size in ((9, 300), (300, 9), (8, 8), (40, 41), (2000, 1)):
            src = Image.new("RGB", size, (10, 200, 30))
            path = os.path.join(d, f"c03_gate_{os.getpid()}_{size[0]}x{size[1]}.png")
            src.save(path)
            paths.append(path)
            raw = open(path, "rb").read()
            for dim in (dict(height=5), dict(width=4), dict(height=1)):
                image = ITerm2Image.from_file(path)
                image.read_from_file = True
                try:
                    image.set_size(**dim)
                except Exception:  # noqa: BLE001  (a size that does not fit the stub terminal)
                    image.close()
                    continue
                out = image._renderer(image._render_image, 0.5, method="whole")
                mm = re.search(r"\x1b\]1337;File=([^:]*):([^\x07\x1b]*)", out)
                data = base64.b64decode(mm.group(2))
                rpx = image._get_render_size()
                if data == raw and size[0] * size[1] > rpx[0] * rpx[1]:
                    problems.append(("RGB file", size, "render size in pixels", tuple(rpx), "the untouched file was sent although it has to be downscaled"))
                image.close()
        # an ANIMATED file is never sent as it is for a still render: the payload is the current frame only (the whole file would
        # show frame 0, or play)
        tests.set_cell_size(G.Size(2, 4))
        for fmt, mode in (("PNG", "RGB"), ("PNG", "RGBA"), ("WEBP", "RGB"), ("GIF", "P")):
            cols = [(250, 0, 0), (0, 250, 0), (0, 0, 250)]
            frs = [Image.new("RGB", (8, 8), c).convert(mode) for c in cols]
            path = os.path.join(d, f"c03_gate_{os.getpid()}_anim_{mode}.{fmt.lower()}")
            try:
                frs[0].save(path, fmt, save_all=True, append_images=frs[1:], duration=100, loop=0, **({"lossless": True} if fmt == "WEBP" else {}))
            except Exception:  # noqa: BLE001  (format support not built into this PIL)
                continue
            paths.append(path)
            for pil_source in (False, True):
                for alpha in (0.5, None):
                    image = ITerm2Image(Image.open(path)) if pil_source else ITerm2Image.from_file(path)
                    if not image.is_animated:
                        continue
                    image.read_from_file = True
                    image.set_size(width=8)
                    for n in (1, 2, 0):
                        image.seek(n)
                        out = image._renderer(image._render_image, alpha, method="whole")
                        mm = re.search(r"\x1b\]1337;File=([^:]*):([^\x07\x1b]*)", out)
                        data = base64.b64decode(mm.group(2))
                        shown = Image.open(io.BytesIO(data))
                        px = shown.convert("RGB").getpixel((1, 1))
                        if getattr(shown, "n_frames", 1) != 1 or any(abs(a - b) > 20 for a, b in zip(px, cols[n])):
                            problems.append((f"animated {fmt} ({mode} frames), {'PIL' if pil_source else 'file'} source, alpha={alpha!r}: still render of frame {n}",
                                             "frames in the payload", getattr(shown, "n_frames", 1), "pixel", px, "expected about", cols[n]))
                            break
                    if not pil_source:
                        image.close()
    finally:
        ITerm2Image._supported, ITerm2Image._TERM, ITerm2Image._TERM_VERSION = saved
        for p in paths:
            try:
                os.unlink(p)
            except OSError:
                pass
    return {"reproduced": bool(problems), "input": "iterm2 WHOLE renders of RGBA / RGB / LA / P files, read_from_file on, alpha 0.5 / colour / '#' / None", "observed": [repr(p)[:200] for p in problems[:3]]}


def chunk_boundaries(m, meta):
    """the real Transmission.get_chunked() / get_chunks() on payloads of every length around the chunk boundaries (0 .. just over
    three chunks; uncompressed so that the length is exact): every command carries at most 4096 base64 characters, a multiple of 4
    unless last, m flags consistent, keys on the first command only, and the reassembled text decodes to the payload"""
    import base64, re
    import tests  # noqa: F401
    from term_image.image.kitty import Transmission, ControlData
    problems = []
    cmd = re.compile("\x1b_G([^;\x1b]*)(?:;([^\x1b]*))?\x1b\\\\")

    def check(label, text, payload):
        cmds = cmd.findall(text)
        if not cmds:
            problems.append({"case": label, "observed": "no graphics command", "text": repr(text)[:60]})
            return
        if cmd.sub("", text) != "":
            problems.append({"case": label, "observed": "text outside graphics commands", "text": repr(cmd.sub("", text))[:60]})
            return
        errs = []
        for i, (ctl, pay) in enumerate(cmds):
            keys = dict(kv.split("=") for kv in ctl.split(",") if "=" in kv)
            last = i == len(cmds) - 1
            if len(pay) > 4096:
                errs.append(f"command {i}: {len(pay)} base64 characters (> 4096)")
            if len(pay) % 4 and not last:
                errs.append(f"command {i}: {len(pay)} characters, not a multiple of 4, and not the last")
            if keys.get("m") != ("0" if last else "1"):
                errs.append(f"command {i} of {len(cmds)}: m={keys.get('m')}")
            if (i == 0) != bool(set(keys) - {"m"}):
                errs.append(f"command {i}: control keys {sorted(set(keys) - {'m'})}")
        try:
            if base64.b64decode("".join(p_ for _, p_ in cmds)) != payload:
                errs.append("reassembled text does not decode to the payload")
        except Exception as e:  # noqa: BLE001
            errs.append(f"reassembled text is not base64: {e}")
        if errs:
            problems.append({"case": label, "payload bytes": len(payload), "failed": errs[:3]})
    lengths = sorted(set(list(range(0, 8)) + [k * 3072 + d for k in (1, 2, 3) for d in range(-4, 5)] + [4090, 4095, 4096, 4097, 4100, 5000, 6144 + 1024, 8192, 8193]))
    for n in lengths:
        payload = bytes((i * 7 + n) % 256 for i in range(n))
        for how in ("get_chunked", "get_chunks"):
            t = Transmission(ControlData(s=1, v=1, c=1, r=1), payload, 0)
            text = t.get_chunked() if how == "get_chunked" else "".join(t.get_chunks())
            check(f"Transmission.{how}(), {n} payload bytes", text, payload)
        if problems:
            break
    return {"reproduced": bool(problems), "input": f"payload lengths {lengths[0]}..{lengths[-1]} around the chunk boundaries", "observed": problems[:3]}
