"""Concrete replay driver (runs under /venv/bin/python against the tree at $VERIF_REPO).

usage: run.py <module.key> '<model json>' '<meta json>'  -> last stdout line is a JSON object
       {"reproduced": bool, "input": ..., "observed": ..., "expected": ...}
"""
import importlib, json, os, sys, warnings
warnings.simplefilter("ignore")
REPO = os.environ.get("VERIF_REPO", "/repo")
sys.path.insert(0, os.path.dirname(os.path.dirname(os.path.abspath(__file__))))
sys.path.insert(0, REPO + "/src")
sys.path.insert(1, REPO if os.path.isdir(REPO + "/tests") else "/repo")   # the tests package (terminal stubs); a scratch copy has only src/
key, model, meta = sys.argv[1], json.loads(sys.argv[2]), json.loads(sys.argv[3]) if len(sys.argv) > 3 else {}
modname, fname = key.split(".", 1)
try:
    mod = importlib.import_module("replay." + modname)
    out = getattr(mod, fname)(model, meta)
except Exception as e:
    import traceback
    out = {"reproduced": False, "error": traceback.format_exc()[-1500:]}
print(json.dumps(out, default=repr))
