"""Replay for C11 (resource part): /proc/self/fd count after format / str / draw / iterate / abandon for three styles, file and PIL
sources, with PIL operations failing at the k-th call (ported from the calibration script).  Also: size setting unchanged, the
caller's PIL image still usable."""
import gc, io, itertools, os, sys


def fds(m, meta):
    import tests
    from term_image.image import BlockImage, KittyImage, ITerm2Image, ImageIterator, Size
    import term_image.image.common as common
    from PIL import Image
    common.time.sleep = lambda s: None
    tests.set_cell_size(__import__("term_image.geometry").geometry.Size(9, 18))
    KittyImage._supported = True
    ITerm2Image._supported = True
    IMG = (os.environ.get("VERIF_REPO", "/repo") if os.path.isdir(os.environ.get("VERIF_REPO", "/repo") + "/tests") else "/repo") + "/tests/images"
    def nfd(): return len(os.listdir("/proc/self/fd"))
    class Boom(Exception): pass

    def inject(k):
        """make the k-th call among Image.convert/resize/save/tobytes/getdata/alpha_composite raise Boom"""
        cnt = itertools.count(1); saved = {}
        def wrap(name):
            orig = getattr(Image.Image, name); saved[name] = orig
            def f(self, *a, **kw):
                if next(cnt) == k: raise Boom(name)
                return orig(self, *a, **kw)
            setattr(Image.Image, name, f)
        for n in ("convert", "resize", "save", "tobytes", "getdata", "alpha_composite"): wrap(n)
        def undo():
            for n, o in saved.items(): setattr(Image.Image, n, o)
        return undo

    def quiet(fn):
        old = sys.stdout; sys.stdout = io.StringIO()
        try:
            try: fn()
            except (Boom, common.RenderError if hasattr(common,'RenderError') else Boom, Exception) as e: return type(e).__name__
        finally: sys.stdout = old
        return None

    problems = []
    files = {"png": IMG + "/python.png", "jpg": IMG + "/hori.jpg", "gif": IMG + "/lion.gif", "webp": IMG + "/anim.webp"}
    styles = {"block": (BlockImage, [""]), "kitty": (KittyImage, ["+L", "+W"]), "iterm2": (ITerm2Image, ["+L", "+W", "+A"])}
    ops = 0
    for sname, (cls, methods) in styles.items():
      for fkey, path in files.items():
        for srckind in ("file", "pil"):
          for meth in methods:
            for alpha in ("", "#", "#.5"):
              for k in (None, 1, 2, 4):
                pil = None
                base = nfd()
                if srckind == "file": img = cls.from_file(path, height=3)
                else:
                    pil = Image.open(path); pil.load(); img = cls(pil, height=3)
                base_after_open = nfd()
                size0, seek0 = img.size, img.tell()
                spec = f"{alpha}{meth}"
                undo = inject(k) if k else (lambda: None)
                try:
                    r1 = quiet(lambda: format(img, spec))
                    r2 = quiet(lambda: str(img))
                    r3 = quiet(lambda: img.draw(animate=False, pad_height=3, **({} if not meth else {"method": {"+L":"lines","+W":"whole","+A":"anim"}[meth]})))
                    if img.is_animated:
                        def it():
                            i = ImageIterator(img, 2, spec, cached=False); next(i); next(i); i.seek(1); next(i); i.close()
                        r4 = quiet(it)
                        def it2():
                            i = ImageIterator(img, 1, spec); list(i)
                        r5 = quiet(it2)
                        def it3():
                            i = ImageIterator(img, -1, spec, cached=True); next(i); next(i)   # abandoned
                        r6 = quiet(it3)
                        r7 = quiet(lambda: img.draw(repeat=1, pad_height=3))
                finally: undo()
                ops += 1
                gc.collect()
                tag = (sname, fkey, srckind, spec, k)
                if nfd() != base_after_open: problems.append(("fd", tag, base_after_open, nfd()))
                if img.size != size0: problems.append(("size", tag, size0, img.size))
                if pil is not None:
                    try: pil.load(); pil.seek(0)
                    except Exception as e: problems.append(("pil-closed", tag, repr(e)))
                img.close(); 
                if pil is not None: pil.close()
                gc.collect()
                if nfd() != base: problems.append(("fd-after-close", tag, base, nfd()))
    return {"reproduced": bool(problems), "input": f"{ops} scenarios (style x file x source kind x method x alpha x k-th PIL call failing)", "observed": [repr(p)[:300] for p in problems[:4]]}


def image_iterator_ops(m, meta):
    """ImageIterator close / __next__ / seek on a real GIF file: open-file count back at its baseline after every way of ending,
    closed iterators stay closed, seek validates and reports its state errors"""
    import tests  # noqa: F401
    from PIL import Image
    from term_image.exceptions import TermImageError
    from term_image.image import BlockImage, ImageIterator
    path = os.path.join(os.environ.get("VERIF_SCRATCH", "/tmp"), f"c11_ops_{os.getpid()}.gif")
    fr = [Image.new("RGB", (8, 8), c) for c in [(255, 0, 0), (0, 255, 0), (0, 0, 255)]]
    fr[0].save(path, save_all=True, append_images=fr[1:], duration=100, loop=0)
    nfd = lambda: len(os.listdir("/proc/self/fd"))
    problems = []
    try:
        image = BlockImage.from_file(path)
        base = nfd()

        class Boom(Exception):
            pass
        for scenario in ("close-before-next", "close-after-next", "double-close", "exhaust", "error-in-render", "attribute-error-in-render", "abandon"):
            it = ImageIterator(image, 2, "1.1")
            try:
                if scenario != "close-before-next":
                    next(it)
                if scenario == "exhaust":
                    for _ in it:
                        pass
                if scenario in ("error-in-render", "attribute-error-in-render"):
                    orig = BlockImage._render_image
                    exc = Boom("x") if scenario == "error-in-render" else AttributeError("'Image' object has no attribute 'tobytes'")

                    def bad(self, *a, **k):
                        raise exc
                    BlockImage._render_image = bad
                    try:
                        next(it)
                        problems.append((scenario, "no error surfaced"))
                    except (Boom, AttributeError):
                        pass
                    except Exception as e:
                        problems.append((scenario, f"the render error was replaced by {type(e).__name__}"))
                    finally:
                        BlockImage._render_image = orig
                    if hasattr(it, "_animator") or nfd() != base:
                        problems.append((scenario, f"iterator left open after the error: open files {nfd() - base:+d}"))
                if scenario == "abandon":
                    del it
                    gc.collect()
                else:
                    it.close()
                    if scenario == "double-close":
                        it.close()
                    try:
                        next(it)
                        problems.append((scenario, "a closed iterator yielded a frame"))
                    except StopIteration:
                        pass
                    except Exception as e:
                        problems.append((scenario, f"next() on a closed iterator raised {type(e).__name__}"))
                    try:
                        it.seek(0)
                        problems.append((scenario, "seek on a closed iterator accepted"))
                    except TermImageError:
                        pass
            finally:
                if nfd() != base:
                    problems.append((scenario, f"open files {nfd() - base:+d} after the iterator ended"))
        it = ImageIterator(image, 2, "1.1")
        for pos, exp in ((0, TermImageError), (-1, ValueError), (3, ValueError)):
            try:
                it.seek(pos)
                problems.append(("seek-before-start", pos, "accepted"))
            except exp:
                pass
            except Exception as e:
                problems.append(("seek-before-start", pos, type(e).__name__))
        next(it)
        for pos, exp in ((0, None), (2, None), (3, ValueError), (-1, ValueError)):
            try:
                it.seek(pos)
                if exp is not None:
                    problems.append(("seek", pos, "accepted"))
            except Exception as e:
                if exp is None or not isinstance(e, exp):
                    problems.append(("seek", pos, type(e).__name__))
        it.close()
    finally:
        try:
            os.unlink(path)
        except OSError:
            pass
    return {"reproduced": bool(problems), "input": "scripted endings of an ImageIterator on a GIF file", "observed": [repr(p) for p in problems[:4]]}


def url_source(m, meta):
    """URL-sourced images against a local HTTP server: the temporary copy exists exactly while the image is open; none is left when
    construction fails (404, not an image, arguments rejected by the constructor); close() / garbage collection remove it; open-file
    count back at its baseline"""
    import http.server, io, threading
    import tests  # noqa: F401
    from PIL import Image
    import term_image.image.common as common
    from term_image.image import BlockImage
    buf = io.BytesIO()
    Image.new("RGB", (8, 8), (1, 2, 3)).save(buf, "PNG")
    png = buf.getvalue()

    class H(http.server.BaseHTTPRequestHandler):
        def do_GET(self):
            if self.path.endswith(".png"):
                body, code, ctype = png, 200, "image/png"
            elif self.path.endswith(".html"):
                body, code, ctype = b"<html>no image</html>", 200, "text/html"
            else:
                body, code, ctype = b"", 404, "text/plain"
            self.send_response(code)
            self.send_header("Content-Type", ctype)
            self.send_header("Content-Length", str(len(body)))
            self.end_headers()
            self.wfile.write(body)

        def log_message(self, *a):
            pass
    srv = http.server.HTTPServer(("127.0.0.1", 0), H)
    threading.Thread(target=srv.serve_forever, daemon=True).start()
    base_url = f"http://127.0.0.1:{srv.server_port}"
    tmp = lambda: sorted(os.listdir(common._TEMP_DIR))
    nfd = lambda: len(os.listdir("/proc/self/fd"))
    problems = []
    try:
        files0 = tmp()
        try:
            BlockImage.from_url(base_url + "/warm.png").close()      # connection pools etc. settle before the baseline is taken
        except Exception:
            pass
        gc.collect()
        fd0 = nfd()
        for label, path, kwargs in (("404", "/missing", {}), ("not an image", "/page.html", {}), ("constructor rejects width=0", "/a.png", {"width": 0}),
                                    ("constructor rejects a str height", "/a.png", {"height": "3"}), ("constructor rejects a negative height", "/a.png", {"height": -2})):
            try:
                BlockImage.from_url(base_url + path, **kwargs)
                problems.append((label, "accepted"))
            except Exception:
                pass
            gc.collect()
            if tmp() != files0:
                problems.append((label, "temporary file left behind", [f for f in tmp() if f not in files0]))
                break
        if not problems:
            image = BlockImage.from_url(base_url + "/a.png")
            new = [f for f in tmp() if f not in files0]
            if len(new) != 1 or os.path.join(common._TEMP_DIR, new[0]) != image._source:
                problems.append(("open", "temporary copies", new, "source", image._source))
            str(image)
            image.close()
            image.close()
            if tmp() != files0:
                problems.append(("close", "temporary file still there", tmp()))
            image = BlockImage.from_url(base_url + "/a.png")
            del image
            gc.collect()
            if tmp() != files0:
                problems.append(("garbage collection", "temporary file still there", tmp()))
            gc.collect()
            if nfd() != fd0:
                problems.append(("open files", nfd() - fd0))
    finally:
        srv.shutdown()
        srv.server_close()
    return {"reproduced": bool(problems), "input": "URL-sourced images against a local HTTP server", "observed": [repr(p)[:300] for p in problems[:3]]}


def frame_image(m, meta):
    """ImageIterator over a file-sourced animation whose frames need no conversion or resizing (RGB frames at the original size, so
    that _get_render_data hands back the very image the iterator keeps open): every frame of every pass is yielded and equals
    format() of that frame; the image file is closed afterwards.  All three styles, cached and not."""
    import os, tempfile, shutil, warnings
    import tests  # noqa: F401
    import term_image.geometry as G
    from PIL import Image
    from term_image.image import BlockImage, KittyImage, ITerm2Image, ImageIterator, Size
    warnings.simplefilter("ignore")
    KittyImage._supported = ITerm2Image._supported = True
    problems = []
    tmp = tempfile.mkdtemp()
    try:
        nfr, W, H = 4, 12, 8
        path = os.path.join(tmp, "opaque.gif")
        frames = []
        for i in range(nfr):
            f = Image.new("RGB", (W, H))
            f.putdata([((x * 20 + i * 50) % 256, (y * 30 + i * 10) % 256, i * 60) for y in range(H) for x in range(W)])
            frames.append(f)
        frames[0].save(path, save_all=True, append_images=frames[1:], duration=100, loop=0)
        nfd = lambda: len(os.listdir("/proc/self/fd"))
        base = nfd()
        for cls, cell in ((BlockImage, None), (KittyImage, G.Size(1, 2)), (ITerm2Image, G.Size(1, 2))):
            if cell is not None:
                tests.set_cell_size(cell)        # one pixel per cell column, two per line: ORIGINAL size = pixel size, no resampling
            for spec in ("", "#"):
                for cached in (False, True):
                    image = cls.from_file(path)
                    image.size = Size.ORIGINAL
                    expected = []
                    for n in range(nfr):
                        image.seek(n)
                        expected.append(format(image, spec))
                    image.seek(0)
                    got = []
                    try:
                        for fr in ImageIterator(image, 2, spec, cached):
                            got.append(fr)
                    except Exception as e:  # noqa: BLE001
                        problems.append(f"{cls.__name__} spec={spec!r} cached={cached}: iteration stopped after {len(got)} of {2 * nfr} frames with {type(e).__name__}: {e}")
                        continue
                    if got != expected * 2:
                        problems.append(f"{cls.__name__} spec={spec!r} cached={cached}: {len(got)} frames, {sum(a != b for a, b in zip(got, expected * 2))} differ from format()")
                    image.close()
                    if nfd() != base:
                        problems.append(f"{cls.__name__} spec={spec!r} cached={cached}: {nfd() - base} descriptor(s) left open")
                        base = nfd()
    finally:
        shutil.rmtree(tmp, ignore_errors=True)
    return {"reproduced": bool(problems), "input": "4-frame opaque RGB GIF from a file, size ORIGINAL, 2 passes, all styles", "observed": problems[:3]}


def close_order(m, meta):
    """an image and an iterator over it, closed in either order after a partial iteration (file and PIL sources, block / kitty /
    iterm2): the open-file count is back at its start value while both objects are still referenced; the caller's PIL image stays
    usable; neither close() raises"""
    import os, tempfile, shutil, warnings
    import tests  # noqa: F401
    from PIL import Image
    from term_image.image import BlockImage, KittyImage, ITerm2Image, ImageIterator
    warnings.simplefilter("ignore")
    KittyImage._supported = ITerm2Image._supported = True
    problems = []
    tmp = tempfile.mkdtemp()
    keep = []
    try:
        path = os.path.join(tmp, "anim.gif")
        frames = [Image.new("RGB", (8, 8), (i * 40, 10, 10)) for i in range(4)]
        frames[0].save(path, save_all=True, append_images=frames[1:], duration=100, loop=0)
        nfd = lambda: len(os.listdir("/proc/self/fd"))
        for cls in (BlockImage, KittyImage, ITerm2Image):
            for src in ("file", "pil"):
                for order in ("image, iterator", "iterator, image"):
                    for steps in (0, 2):
                        pil = Image.open(path) if src == "pil" else None
                        b0 = nfd()
                        image = cls(pil) if pil is not None else cls.from_file(path)
                        it = ImageIterator(image, 1, "", False)
                        for _ in range(steps):
                            next(it)
                        errs = []
                        for what in ((image, it) if order.startswith("image") else (it, image)):
                            try:
                                what.close()
                            except Exception as e:  # noqa: BLE001
                                errs.append(f"{type(what).__name__}.close() raised {type(e).__name__}: {e}")
                        left = nfd() - b0
                        keep.append((image, it))            # both objects stay referenced: nothing is left to the garbage collector
                        if errs:
                            problems.append(f"{cls.__name__}, {src} source, {steps} frames, close order ({order}): {errs[0]}")
                        if left > 0 and not (steps == 0 and src == "file" and False):
                            problems.append(f"{cls.__name__}, {src} source, {steps} frames read, close order ({order}): {left} file descriptor(s) still open "
                                            f"after both were closed")
                        if pil is not None:
                            try:
                                pil.seek(1); pil.load()
                            except Exception as e:  # noqa: BLE001
                                problems.append(f"{cls.__name__}, PIL source, close order ({order}): the caller's image was closed ({e})")
                            pil.close()
    finally:
        keep.clear()
        shutil.rmtree(tmp, ignore_errors=True)
    return {"reproduced": bool(problems), "input": "partial iteration, then image.close() / iterator.close() in both orders", "observed": problems[:4]}


def anim_fallback(m, meta):
    """iterm2 style, native animation requested ("+A" in the specifier, or the instance's render method): frames of an iteration, a
    still draw of a frame and a non-animated image cannot be served natively and fall back to WHOLE-image frames - exactly one
    graphics command per frame, carrying that frame's picture"""
    import base64, io, re, warnings
    import tests  # noqa: F401
    import term_image.geometry as G
    from PIL import Image
    from term_image.image import ITerm2Image, ImageIterator
    warnings.simplefilter("ignore")
    problems = []
    saved = (ITerm2Image._supported, getattr(ITerm2Image, "_TERM", None))
    cmd = re.compile(r"\x1b\]1337;File=([^:]*):([^\x07\x1b]*)(?:\x07|\x1b\\)")
    colours = [(200, 10, 10), (10, 200, 10), (10, 10, 200), (200, 200, 10)]

    def gif(n):
        fr = [Image.new("RGB", (60, 40), colours[i]) for i in range(n)]
        buf = io.BytesIO()
        if n > 1:
            fr[0].save(buf, "GIF", save_all=True, append_images=fr[1:], duration=50)
        else:
            fr[0].save(buf, "PNG")
        buf.seek(0)
        return Image.open(buf)

    def check(label, text, colour, lines):
        cmds = cmd.findall(text)
        if len(cmds) != 1:
            problems.append({"case": label, "graphics commands in the frame": len(cmds), "expected": "1 (a whole-image frame)"})
            return
        keys = dict(kv.split("=", 1) for kv in cmds[0][0].split(";") if "=" in kv)
        try:
            px = Image.open(io.BytesIO(base64.b64decode(cmds[0][1]))).convert("RGB")
            mid = px.getpixel((px.width // 2, px.height // 2))
            n_frames = getattr(Image.open(io.BytesIO(base64.b64decode(cmds[0][1]))), "n_frames", 1)
        except Exception as e:  # noqa: BLE001
            problems.append({"case": label, "payload": f"does not decode: {e}"})
            return
        if keys.get("height") != str(lines) or n_frames != 1 or any(abs(a - b) > 12 for a, b in zip(mid, colour)):
            problems.append({"case": label, "height key": keys.get("height"), "expected height": lines, "frames in the payload": n_frames,
                             "centre pixel": mid, "expected about": colour})
    try:
        ITerm2Image._supported = True
        tests.set_cell_size(G.Size(5, 10))
        for term in ("iterm2", "wezterm", "konsole"):
            ITerm2Image._TERM = term
            for how in ("spec", "instance-method"):
                spec = "1.1+A" if how == "spec" else "1.1"
                for repeat, cached in ((1, False), (2, True)):
                    image = ITerm2Image(gif(4))
                    image.set_size(height=4)
                    if how != "spec":
                        image.set_render_method("anim")
                    for i, frame in enumerate(ImageIterator(image, repeat, spec, cached)):
                        check(f"{term}, {how}, iteration frame {i} (repeat={repeat}, cached={cached})", frame, colours[i % 4], 4)
                        if problems:
                            break
                    if problems:
                        break
                # a non-animated image asked for native animation
                still = ITerm2Image(gif(1))
                still.set_size(height=4)
                if how != "spec":
                    still.set_render_method("anim")
                check(f"{term}, {how}, non-animated image", format(still, spec), colours[0], 4)
                if problems:
                    break
            if problems:
                break
    finally:
        ITerm2Image._supported, ITerm2Image._TERM = saved
    return {"reproduced": bool(problems), "input": "iterm2 style with native animation requested: iteration frames and a still image, three terminals", "observed": problems[:3]}


def current_frame(m, meta):
    """an animated image made from a caller-supplied PIL image (one shared handle that keeps its position between renders): whatever
    was rendered or iterated before, a render shows the image's CURRENT frame - frame 0 included - i.e. equals the render of a fresh
    image standing on that frame; all styles, still renders interleaved with partial iterations"""
    import io, warnings
    import tests  # noqa: F401
    import term_image.geometry as G
    from PIL import Image
    from term_image.image import BlockImage, KittyImage, ITerm2Image, ImageIterator
    warnings.simplefilter("ignore")
    saved = (KittyImage._supported, ITerm2Image._supported, getattr(ITerm2Image, "_TERM", None))
    KittyImage._supported = ITerm2Image._supported = True
    ITerm2Image._TERM = "iterm2"
    tests.set_cell_size(G.Size(4, 8))
    problems = []
    cols = [(250, 0, 0), (0, 250, 0), (0, 0, 250), (250, 250, 0)]
    buf = io.BytesIO()
    fr = [Image.new("RGB", (16, 16), c) for c in cols]
    fr[0].save(buf, "GIF", save_all=True, append_images=fr[1:], duration=50, loop=0)
    data = buf.getvalue()
    try:
        for cls, spec in ((BlockImage, "1.1"), (KittyImage, "1.1+W"), (KittyImage, "1.1+L"), (ITerm2Image, "1.1+W"), (ITerm2Image, "1.1+L")):
            def fresh(n):
                im = cls(Image.open(io.BytesIO(data)), width=4)
                im.seek(n)
                return format(im, spec)
            want = [fresh(n) for n in range(4)]
            if len(set(want)) != 4:
                continue
            image = cls(Image.open(io.BytesIO(data)), width=4)
            for step in ("seek 2", "seek 0", "seek 3", "iterate 2 frames and close", "seek 0", "seek 1", "iterate fully", "seek 0"):
                if step.startswith("seek"):
                    image.seek(int(step.split()[1]))
                else:
                    it = ImageIterator(image, 1, spec, False)
                    for i, _ in enumerate(it):
                        if step.startswith("iterate 2") and i == 1:
                            break
                    it.close()
                n = image.tell()
                got = format(image, spec)
                if got != want[n]:
                    shows = want.index(got) if got in want else "none of the frames"
                    problems.append({"style": cls.__name__, "spec": spec, "after": step, "current frame": n, "render shows frame": shows})
                    break
    finally:
        KittyImage._supported, ITerm2Image._supported, ITerm2Image._TERM = saved
    return {"reproduced": bool(problems), "input": "PIL-sourced 4-frame GIF: seeks, partial and full iterations, a still render after each", "observed": problems[:3]}


def animated_draw_frame(m, meta):
    """an animated draw() - completed (finite repeat), interrupted, or failing - on an image standing on any frame leaves the image's
    current frame where it was"""
    import io, sys, warnings
    import tests  # noqa: F401
    from PIL import Image
    from term_image.image import BlockImage
    import term_image.image.common as common
    warnings.simplefilter("ignore")
    common.time.sleep = lambda s: None
    problems = []
    cols = [(250, 0, 0), (0, 250, 0), (0, 0, 250), (250, 250, 0)]
    buf = io.BytesIO()
    fr = [Image.new("RGB", (8, 8), c) for c in cols]
    fr[0].save(buf, "GIF", save_all=True, append_images=fr[1:], duration=50, loop=0)
    data = buf.getvalue()

    class Boom(Exception):
        pass

    class Out(io.StringIO):
        def __init__(self, fail_at=None, exc=None):
            super().__init__()
            self.n, self.fail_at, self.exc = 0, fail_at, exc

        def write(self, s):
            self.n += 1
            if self.fail_at is not None and self.n == self.fail_at:
                raise self.exc()
            return super().write(s)
    for start in (0, 1, 3):
        for repeat in (1, 2):
            for cached in (False, True):
                for fault in (None, (7, KeyboardInterrupt), (12, Boom)):
                    image = BlockImage(Image.open(io.BytesIO(data)), height=2)
                    image.seek(start)
                    out = Out(*(fault or (None, None)))
                    old = sys.stdout
                    sys.stdout = out
                    try:
                        try:
                            image.draw(repeat=repeat, cached=cached)
                        except Boom:
                            pass
                    finally:
                        sys.stdout = old
                    if image.tell() != start:
                        problems.append({"frame before the animated draw": start, "repeat": repeat, "cached": cached,
                                         "draw": "completed" if fault is None else f"{fault[1].__name__} at write {fault[0]}", "frame afterwards": image.tell()})
    return {"reproduced": bool(problems), "input": "animated draw() from frames 0 / 1 / 3, completed, interrupted and failing", "observed": problems[:3]}


def warn_escalated(m, meta):
    """An iterm2 native-animation render of a file-sourced animated image above the size limit, with the size warning escalated to an
    error by the caller's warning filter: when the error reaches the caller, the image file the library opened for the render is
    already closed (every image the library opens is kept referenced here, so that reference counting cannot close it)."""
    import warnings
    import tests  # noqa: F401
    import PIL.Image
    from term_image.exceptions import TermImageUserWarning
    from term_image.image import ITerm2Image
    IMG = (os.environ.get("VERIF_REPO", "/repo") if os.path.isdir(os.environ.get("VERIF_REPO", "/repo") + "/tests") else "/repo") + "/tests/images"
    ITerm2Image._supported = True
    ITerm2Image._TERM = "wezterm"
    ITerm2Image.read_from_file = False
    opened, orig = [], PIL.Image.open

    def tracking(*a, **k):
        img = orig(*a, **k)
        opened.append(img)
        return img
    PIL.Image.open = tracking
    old_max = ITerm2Image.native_anim_max_bytes
    problems = []
    try:
        for name in ("lion.gif", "anim.webp"):
            image = ITerm2Image.from_file(os.path.join(IMG, name))
            ITerm2Image.native_anim_max_bytes = 1
            del opened[:]
            with warnings.catch_warnings():
                warnings.simplefilter("error", TermImageUserWarning)
                try:
                    format(image, "+A")
                    problems.append({"image": name, "observed": "no error although the warning was escalated"})
                except TermImageUserWarning:
                    still = [im for im in opened if getattr(im, "fp", None) is not None]
                    if still:
                        problems.append({"image": name, "observed": f"{len(still)} image file(s) opened by the render still open when the escalated warning reaches the caller"})
    finally:
        PIL.Image.open = orig
        ITerm2Image.native_anim_max_bytes = old_max
    return {"reproduced": bool(problems), "input": problems}
