"""Replay for C06 (new API): seeded search of the function-level contract: real Renderable.draw() (still / animated) with
paddings incl. one-sided ones, output interpreted by the concrete VT model from start rows that may force scrolling; plus the
size-validation rules of draw()."""
import io, random, sys


def draw(m, meta, trials=500):
    import tests
    from replay.vt import VT
    from term_image.renderable import Renderable, Frame, RenderSizeOutofRangeError
    from term_image.padding import AlignedPadding, ExactPadding, HAlign, VAlign
    from term_image.geometry import Size
    import term_image.renderable._renderable as RR
    RR.sleep = lambda s: None
    rng = random.Random(4)

    class Foo(Renderable):
        def __init__(self, n, size):
            super().__init__(n, 1)
            self.sz = size
        def _get_render_size_(self):
            return self.sz
        def _get_render_data_(self, *, iteration):
            rd = super()._get_render_data_(iteration=iteration)
            # the renderable's size changes right after draw() has taken its snapshot (a resize handler, another thread): the draw
            # in progress has to go on with the snapshot
            if getattr(self, "resize_to", None):
                self.sz, self.resize_to = self.resize_to, None
            return rd
        def _render_(self, rd, ra):
            d = rd[Renderable]
            w, h = d.size
            ch = "abcdefghij"[d.frame_offset % 10]
            return Frame(d.frame_offset, 1, d.size, "\n".join(ch * w for _ in range(h)))
    problems = []
    one_sided = [ExactPadding(top=2), ExactPadding(right=3), ExactPadding(top=1, right=2), ExactPadding(left=2), ExactPadding(bottom=2)]
    for t in range(trials):
        w, h = rng.randint(1, 6), rng.randint(1, 4)
        nfr = rng.choice([1, 2, 3])
        loops = rng.choice([1, 2])
        pad = rng.choice([ExactPadding(*(rng.randint(0, 3) for _ in range(4))), rng.choice(one_sided),
                          AlignedPadding(rng.randint(1, 10), rng.randint(1, 7), rng.choice(list(HAlign)), rng.choice(list(VAlign))), ExactPadding()])
        l, tp, r, b = pad._get_exact_dimensions_(Size(w, h))
        pw, ph = pad.get_padded_size(Size(w, h))
        buf = io.StringIO()
        old = sys.stdout
        sys.stdout = buf
        try:
            foo = Foo(nfr, Size(w, h))
            if t % 3 == 2:
                foo.resize_to = Size(rng.randint(1, 6), rng.randint(1, 4))
            foo.draw(padding=pad, loops=loops, cache=rng.choice([True, False]))
        finally:
            sys.stdout = old
        out = buf.getvalue()
        TH = 30
        r0 = rng.randint(0, TH - 1)
        vt = VT(width=80, height=TH, row=r0, col=0).feed(out)
        last = "abcdefghij"[(nfr - 1) % 10]
        errs = []
        box = {(rr, cc) for rr in range(r0, r0 + ph) for cc in range(pw)}
        for rr in range(r0, r0 + ph):
            for cc in range(pw):
                inner = r0 + tp <= rr < r0 + tp + h and l <= cc < l + w
                cell = vt.cells.get((rr, cc))
                want = last if inner else " "
                if (cell[1] if cell else None) != want:
                    errs.append(("cell", rr - r0, cc, cell[1] if cell else None, "expected", want))
                    break
        if set(vt.cells) - box:
            errs.append(("cells written outside the padded box", sorted(set(vt.cells) - box)[:3]))
        if (vt.row, vt.col) != (r0 + ph, 0):
            errs.append(("cursor", (vt.row - r0, vt.col), "expected (rows below start, col)", (ph, 0)))
        if not vt.vis or vt.incomplete or vt.wrapped:
            errs.append("cursor hidden / incomplete sequence / wrapped")
        if errs:
            problems.append({"render_size": (w, h), "frames": nfr, "loops": loops, "padding": repr(pad), "start_row": r0, "failed": errs[:3]})
            break
    # size validation: rejected, before anything is written, exactly when the documented rules say so (80x30 stub terminal)
    if not problems:
        for pad, w, h, anim in [(ExactPadding(35, 0, 36, 0), 10, 4, False), (ExactPadding(35, 0, 36, 0), 10, 4, True), (ExactPadding(0, 14, 0, 14), 10, 4, False),
                                (ExactPadding(0, 14, 0, 14), 10, 4, True), (AlignedPadding(81, 1), 10, 4, False), (ExactPadding(35, 0, 35, 0), 10, 4, False)]:
            for check_size, allow_scroll, animate in [(c_, a_, an_) for c_ in (True, False) for a_ in (True, False) for an_ in ((True, False) if anim else (True,))]:
                if True:
                    pw, ph = pad.get_padded_size(Size(w, h))
                    # (an animated renderable drawn with animate=False is a non-animation: validated and scrolled like a still one)
                    animation = anim and animate
                    must = (animation or check_size) and (pw > 80 or ((animation or not allow_scroll) and ph > 30))
                    buf = io.StringIO()
                    old = sys.stdout
                    sys.stdout = buf
                    raised = False
                    try:
                        try:
                            Foo(2 if anim else 1, Size(w, h)).draw(padding=pad, loops=1, check_size=check_size, allow_scroll=allow_scroll, animate=animate)
                        except RenderSizeOutofRangeError:
                            raised = True
                    finally:
                        sys.stdout = old
                    if raised != must or (raised and buf.getvalue()):
                        problems.append({"padding": repr(pad), "animated": anim, "animate": animate, "check_size": check_size, "allow_scroll": allow_scroll, "padded_size": (pw, ph),
                                         "rejected": raised, "must_reject": must, "written_before_rejection": len(buf.getvalue())})
    return {"reproduced": bool(problems), "input": "seeded random draws (new API) on the concrete VT model + size-validation table", "observed": problems[:3]}


def _gif(n_frames, size=(16, 16)):
    import io as _io
    from PIL import Image
    cols = [(255, 0, 0), (0, 255, 0), (0, 0, 255), (255, 255, 0)]
    fr = [Image.new("RGB", size, cols[i % 4]) for i in range(n_frames)]
    buf = _io.BytesIO()
    if n_frames > 1:
        fr[0].save(buf, "GIF", save_all=True, append_images=fr[1:], duration=1, loop=0)
    else:
        fr[0].save(buf, "PNG")
    buf.seek(0)
    return Image.open(buf)


class _Tty(io.StringIO):
    def isatty(self):
        return True


def old_draw(m, meta, trials=300):
    """old API: real BaseImage.draw (still / animated GIF, finite repeat) on a fake tty; the output interpreted by the concrete VT
    model from start rows that may force scrolling: last frame inside its padding where the first was drawn, nothing outside the
    padded box, cursor visible at the start of the line below it"""
    import tests  # noqa: F401
    from replay.vt import VT
    from term_image.image import BlockImage
    import term_image.image.common as common
    common.time.sleep = lambda s: None
    rng = random.Random(6)
    problems = []
    # a draw that does not fit is rejected before anything - the hide-cursor sequence included - is written
    from term_image.exceptions import InvalidSizeError
    for nfr in (1, 3):
        for kw in (dict(), dict(scroll=True), dict(animate=False)):
            image = BlockImage(_gif(nfr))
            image.set_size(height=200)
            buf = _Tty()
            old = sys.stdout
            sys.stdout = buf
            try:
                try:
                    image.draw(**kw)
                    rejected = False
                except InvalidSizeError:
                    rejected = True
            finally:
                sys.stdout = old
            must_reject = not ("scroll" in kw or "animate" in kw) or nfr > 1 and "animate" not in kw
            if must_reject and (not rejected or buf.getvalue()):
                problems.append({"frames": nfr, "draw": kw, "image height": 200, "rejected": rejected, "written before the rejection": buf.getvalue()[:40]})
    for t in range(trials):
        nfr = rng.choice([1, 2, 3])
        image = BlockImage(_gif(nfr))
        h = rng.choice([1, 1, 2, 3])
        image.set_size(height=h)
        w, h = image.rendered_size
        pw, ph = rng.choice([w, w + rng.randint(0, 4)]), rng.choice([h, h, h + rng.randint(0, 3)])
        arg_pw, arg_ph = pw, ph
        if rng.random() < 0.3:
            # a padding smaller than the render on an axis has no effect on that axis: the region is the render's own
            arg_pw, arg_ph = rng.choice([pw, rng.randint(1, w)]), rng.choice([ph, rng.randint(1, h)])
            pw, ph = max(arg_pw, w), max(arg_ph, h)
        ha, va = rng.choice(["<", "|", ">"]), rng.choice(["^", "-", "_"])
        repeat = rng.choice([1, 2])
        buf = _Tty()
        old = sys.stdout
        sys.stdout = buf
        try:
            image.draw(ha, arg_pw, va, arg_ph, repeat=repeat, cached=rng.choice([True, False]))
        finally:
            sys.stdout = old
        out = buf.getvalue()
        TH = 30
        r0 = rng.randint(0, TH - 1)
        vt = VT(width=80, height=TH, row=r0, col=0).feed(out)
        errs = []
        box = {(rr, cc) for rr in range(r0, r0 + ph) for cc in range(pw)}
        outside = {c for c in vt.touched() if c not in box} if hasattr(vt, "touched") else set()
        if outside:
            errs.append(("cells written outside the padded box (relative row, col)", sorted((rr - r0, cc) for rr, cc in outside)[:3]))
        if (vt.row, vt.col) != (r0 + ph, 0):
            errs.append(("cursor ends at (rows below start, col)", (vt.row - r0, vt.col), "expected", (ph, 0)))
        if not vt.vis or vt.incomplete:
            errs.append("cursor hidden / incomplete sequence")
        if errs:
            problems.append({"frames": nfr, "repeat": repeat, "render_size": (w, h), "draw": (ha, arg_pw, va, arg_ph), "start_row": r0, "failed": errs[:3]})
            break
    return {"reproduced": bool(problems), "input": "seeded random draws (old API) on the concrete VT model", "observed": problems[:2]}


def old_validation(m, meta):
    """old API: the documented validation table of BaseImage.draw() - padding width always, padding height for animations,
    render size per check_size / scroll / animation - swept over all flag combinations; a rejected draw writes nothing, an
    accepted one is not rejected"""
    import tests  # noqa: F401
    from term_image.image import BlockImage
    from term_image.exceptions import InvalidSizeError
    import term_image.image.common as common
    common.time.sleep = lambda s: None
    TW, TH = tuple(common.get_terminal_size())
    problems = []
    for nfr in (1, 3):
        for animate in ((True, False) if nfr > 1 else (True,)):
            for check_size in (True, False):
                for scroll in (True, False):
                    for what, pw, ph, height in (("fits", 0, 0, 2), ("pad_width=terminal", TW, 0, 2), ("pad_width>terminal", TW + 1, 0, 2),
                                                 ("pad_width>>terminal", 3 * TW, 0, 2), ("pad_height>terminal", 0, TH + 1, 2),
                                                 ("pad_width relative", -3, -2, 2), ("render taller than terminal", 0, 0, TH + 5)):
                        image = BlockImage(_gif(nfr))
                        image.set_size(height=height)
                        animation = nfr > 1 and animate
                        w, h = image.rendered_size
                        exp = None
                        if pw > TW or (animation and ph > TH):
                            exp = ValueError
                        elif animation and (w > TW or h > TH):
                            exp = InvalidSizeError
                        elif not animation and check_size and (w > TW or (h > TH and not scroll)):
                            exp = InvalidSizeError
                        buf = _Tty()
                        old = sys.stdout
                        sys.stdout = buf
                        got = None
                        try:
                            try:
                                image.draw(pad_width=pw, pad_height=ph, animate=animate, check_size=check_size, scroll=scroll, repeat=1)
                            except (ValueError, InvalidSizeError) as e:
                                got = type(e)
                        finally:
                            sys.stdout = old
                        if got is not exp or (exp is not None and buf.getvalue()):
                            problems.append({"frames": nfr, "case": what, "draw": dict(pad_width=pw, pad_height=ph, animate=animate, check_size=check_size, scroll=scroll),
                                             "terminal": (TW, TH), "rendered_size": (w, h), "expected": getattr(exp, "__name__", None), "got": getattr(got, "__name__", None),
                                             "written": buf.getvalue()[:30]})
    return {"reproduced": bool(problems), "input": "validation table of the old draw(): every (frames, animate, check_size, scroll) x padding / render sizes around the terminal size",
            "observed": problems[:3]}


def old_draw_wezterm(m, meta):
    """ITerm2Image animations on WezTerm (cells erased once before the first frame): every padding height / alignment of small
    GIFs on the concrete VT model - image rows where the padding puts them, nothing touched outside the padded box, cursor on
    the line below it"""
    import tests  # noqa: F401
    from replay.vt import VT
    from term_image.image import ITerm2Image
    import term_image.image.common as common
    common.time.sleep = lambda s: None
    saved = (ITerm2Image._supported, ITerm2Image._TERM, ITerm2Image._TERM_VERSION)
    ITerm2Image._supported, ITerm2Image._TERM, ITerm2Image._TERM_VERSION = True, "wezterm", "20230101"
    problems = []
    try:
        for h in (1, 2, 3):
            for extra in (0, 1, 2, 3):
                for va in ("^", "-", "_"):
                    image = ITerm2Image(_gif(2))
                    image.set_size(height=h)
                    w, h2 = image.rendered_size
                    ph = h2 + extra
                    buf = _Tty()
                    old = sys.stdout
                    sys.stdout = buf
                    try:
                        image.draw("<", 0, va, ph, repeat=1, method="lines")
                    finally:
                        sys.stdout = old
                    r0 = 12
                    vt = VT(width=80, height=30, row=r0, col=0).feed(buf.getvalue())
                    top = {"^": 0, "-": extra // 2, "_": extra}[va]
                    img_rows = sorted({r - r0 for (r, c) in vt.images})
                    touched = sorted({r - r0 for (r, c) in vt.touched()})
                    errs = []
                    if img_rows != list(range(top, top + h2)):
                        errs.append(("image rows", img_rows, "expected", list(range(top, top + h2))))
                    if touched and (touched[0] < 0 or touched[-1] >= ph):
                        errs.append(("rows touched", (touched[0], touched[-1]), "padded box is rows", (0, ph - 1)))
                    if (vt.row - r0, vt.col) != (ph, 0):
                        errs.append(("cursor ends at", (vt.row - r0, vt.col), "expected", (ph, 0)))
                    if errs:
                        problems.append({"rendered_size": (w, h2), "pad_height": ph, "v_align": va, "failed": errs})
                        break
                if problems:
                    break
            if problems:
                break
    finally:
        ITerm2Image._supported, ITerm2Image._TERM, ITerm2Image._TERM_VERSION = saved
    return {"reproduced": bool(problems), "input": "ITerm2Image.draw() of 2-frame GIFs on a WezTerm terminal, every small height / padding / alignment", "observed": problems[:2]}


def kitty_animation(m, meta):
    """KittyImage animations: every frame is sent at the reserved z-index (whatever z_index the caller passed) and either with
    blend off (kitty > 0.25.0) or preceded by a delete of exactly that z-index (older versions)"""
    import re
    import tests  # noqa: F401
    from term_image.image import KittyImage
    import term_image.image.common as common
    common.time.sleep = lambda s: None
    saved = (KittyImage._supported, KittyImage._KITTY_VERSION)
    KittyImage._supported = True
    problems = []
    try:
        for version in ((0, 21, 0), (0, 25, 0), (0, 25, 1), (0, 31, 0), ()):
            KittyImage._KITTY_VERSION = version
            for style in ({}, {"z_index": 5}, {"z_index": -7, "mix": True}):
                image = KittyImage(_gif(3))
                image.set_size(height=2)
                buf = _Tty()
                old = sys.stdout
                sys.stdout = buf
                import term_image.image.kitty as K
                old_w = K._stdout_write
                K._stdout_write = buf.write            # bound to the real stdout at import time
                try:
                    image.draw("<", 0, "^", 2, repeat=1, **style)
                finally:
                    sys.stdout = old
                    K._stdout_write = old_w
                cmds = [dict(kv.split("=", 1) for kv in c.split(";")[0].split(",") if "=" in kv) for c in re.findall(r"\x1b_G([^\x1b]*)\x1b\\", buf.getvalue())]
                draws = [c for c in cmds if c.get("a") == "T"]
                dels = [c for c in cmds if c.get("a") == "d"]
                newer = bool(version) and version > (0, 25, 0)
                errs = []
                if any(c.get("z") != str(-(1 << 31)) for c in draws):
                    errs.append(("frames drawn at z", sorted({c.get("z") for c in draws})))
                if not newer and version and (len(dels) < 2 or any(c.get("d", "").lower() != "z" or c.get("z") != str(-(1 << 31)) for c in dels)):
                    errs.append(("per-frame deletes", dels[:3]))
                if errs:
                    problems.append({"kitty_version": version, "style": style, "failed": errs})
    finally:
        KittyImage._supported, KittyImage._KITTY_VERSION = saved
    return {"reproduced": bool(problems), "input": "3-frame GIF drawn by KittyImage for several kitty versions and z_index arguments", "observed": problems[:2]}
