"""Replay for C06 (new API): seeded search of the function-level contract: real Renderable.draw() (still / animated) with
paddings incl. one-sided ones, output interpreted by the concrete VT model from start rows that may force scrolling; plus the
size-validation rules of draw()."""
import io, random, sys


def draw(m, meta, trials=500):
    import tests
    from replay.vt import VT
    from term_image.renderable import Renderable, Frame, RenderSizeOutofRangeError
    from term_image.padding import AlignedPadding, ExactPadding, HAlign, VAlign
    from term_image.geometry import Size
    import term_image.renderable._renderable as RR
    RR.sleep = lambda s: None
    rng = random.Random(4)

    class Foo(Renderable):
        def __init__(self, n, size):
            super().__init__(n, 1)
            self.sz = size
        def _get_render_size_(self):
            return self.sz
        def _render_(self, rd, ra):
            d = rd[Renderable]
            w, h = d.size
            ch = "abcdefghij"[d.frame_offset % 10]
            return Frame(d.frame_offset, 1, d.size, "\n".join(ch * w for _ in range(h)))
    problems = []
    one_sided = [ExactPadding(top=2), ExactPadding(right=3), ExactPadding(top=1, right=2), ExactPadding(left=2), ExactPadding(bottom=2)]
    for t in range(trials):
        w, h = rng.randint(1, 6), rng.randint(1, 4)
        nfr = rng.choice([1, 2, 3])
        loops = rng.choice([1, 2])
        pad = rng.choice([ExactPadding(*(rng.randint(0, 3) for _ in range(4))), rng.choice(one_sided),
                          AlignedPadding(rng.randint(1, 10), rng.randint(1, 7), rng.choice(list(HAlign)), rng.choice(list(VAlign))), ExactPadding()])
        l, tp, r, b = pad._get_exact_dimensions_(Size(w, h))
        pw, ph = pad.get_padded_size(Size(w, h))
        buf = io.StringIO()
        old = sys.stdout
        sys.stdout = buf
        try:
            Foo(nfr, Size(w, h)).draw(padding=pad, loops=loops, cache=rng.choice([True, False]))
        finally:
            sys.stdout = old
        out = buf.getvalue()
        TH = 30
        r0 = rng.randint(0, TH - 1)
        vt = VT(width=80, height=TH, row=r0, col=0).feed(out)
        last = "abcdefghij"[(nfr - 1) % 10]
        errs = []
        box = {(rr, cc) for rr in range(r0, r0 + ph) for cc in range(pw)}
        for rr in range(r0, r0 + ph):
            for cc in range(pw):
                inner = r0 + tp <= rr < r0 + tp + h and l <= cc < l + w
                cell = vt.cells.get((rr, cc))
                want = last if inner else " "
                if (cell[1] if cell else None) != want:
                    errs.append(("cell", rr - r0, cc, cell[1] if cell else None, "expected", want))
                    break
        if set(vt.cells) - box:
            errs.append(("cells written outside the padded box", sorted(set(vt.cells) - box)[:3]))
        if (vt.row, vt.col) != (r0 + ph, 0):
            errs.append(("cursor", (vt.row - r0, vt.col), "expected (rows below start, col)", (ph, 0)))
        if not vt.vis or vt.incomplete or vt.wrapped:
            errs.append("cursor hidden / incomplete sequence / wrapped")
        if errs:
            problems.append({"render_size": (w, h), "frames": nfr, "loops": loops, "padding": repr(pad), "start_row": r0, "failed": errs[:3]})
            break
    # size validation: rejected, before anything is written, exactly when the documented rules say so (80x30 stub terminal)
    if not problems:
        for pad, w, h, anim in [(ExactPadding(35, 0, 36, 0), 10, 4, False), (ExactPadding(35, 0, 36, 0), 10, 4, True), (ExactPadding(0, 14, 0, 14), 10, 4, False),
                                (ExactPadding(0, 14, 0, 14), 10, 4, True), (AlignedPadding(81, 1), 10, 4, False), (ExactPadding(35, 0, 35, 0), 10, 4, False)]:
            for check_size in (True, False):
                for allow_scroll in (True, False):
                    pw, ph = pad.get_padded_size(Size(w, h))
                    must = (anim or check_size) and (pw > 80 or ((anim or not allow_scroll) and ph > 30))
                    buf = io.StringIO()
                    old = sys.stdout
                    sys.stdout = buf
                    raised = False
                    try:
                        try:
                            Foo(2 if anim else 1, Size(w, h)).draw(padding=pad, loops=1, check_size=check_size, allow_scroll=allow_scroll)
                        except RenderSizeOutofRangeError:
                            raised = True
                    finally:
                        sys.stdout = old
                    if raised != must or (raised and buf.getvalue()):
                        problems.append({"padding": repr(pad), "animated": anim, "check_size": check_size, "allow_scroll": allow_scroll, "padded_size": (pw, ph),
                                         "rejected": raised, "must_reject": must, "written_before_rejection": len(buf.getvalue())})
    return {"reproduced": bool(problems), "input": "seeded random draws (new API) on the concrete VT model + size-validation table", "observed": problems[:3]}
