"""Replays for C05: rebuild the input from the solver's model, run the real padding code, compare with the spec."""
import os
from replay.util import ival
from spec import padding as SP


def _aligned(m):
    from term_image.padding import AlignedPadding, HAlign, VAlign
    return AlignedPadding(ival(m, "p_width"), ival(m, "p_height"), HAlign(ival(m, "p_h_align", 0)), VAlign(ival(m, "p_v_align", 0)), "*")


def _size(m):
    from term_image.geometry import Size
    return Size(ival(m, "rs_w"), ival(m, "rs_h"))


def _call(f, *a):
    try:
        return ("ok", f(*a))
    except Exception as e:
        return ("raise", type(e).__name__)


def aligned_exact(m, meta):
    p, rs = _aligned(m), _size(m)
    got = _call(p._get_exact_dimensions_, rs)
    if SP.relative(p.width, p.height):
        exp = ("raise", "RelativePaddingDimensionError")
    else:
        exp = ("ok", SP.spec_exact_dims(p.width, p.height, int(p.h_align), int(p.v_align), *rs))
    return {"reproduced": got != exp, "input": [repr(p), tuple(rs)], "observed": got, "expected": exp}


def exact_exact(m, meta):
    from term_image.padding import ExactPadding
    d = tuple(max(ival(m, k, 0), 0) for k in ("left", "top", "right", "bottom"))
    p = ExactPadding(*d)
    got = _call(p._get_exact_dimensions_, _size(m))
    return {"reproduced": got != ("ok", d), "input": d, "observed": got, "expected": ("ok", d)}


def padded_size(m, meta):
    from term_image.padding import ExactPadding
    rs = _size(m)
    res = []
    if "p_width" in m or "p_height" in m:
        p = _aligned(m)
        if SP.relative(p.width, p.height):
            exp = ("raise", "RelativePaddingDimensionError")
        else:
            exp = ("ok", SP.spec_padded_size_aligned(p.width, p.height, *rs))
    else:
        d = tuple(max(ival(m, k, 0), 0) for k in ("left", "top", "right", "bottom"))
        p = ExactPadding(*d)
        exp = ("ok", (d[0] + rs[0] + d[2], d[1] + rs[1] + d[3]))
    from term_image.padding import Padding
    for f in (p.get_padded_size, lambda r: Padding.get_padded_size(p, r)):
        got = _call(f, rs)
        got = (got[0], tuple(got[1])) if got[0] == "ok" else got
        if got != exp:
            return {"reproduced": True, "input": [repr(p), tuple(rs)], "observed": got, "expected": exp}
    return {"reproduced": False, "input": [repr(p), tuple(rs)], "expected": exp}


def aligned_init(m, meta):
    from term_image.padding import AlignedPadding
    w, h = ival(m, "width"), ival(m, "height")
    got = _call(AlignedPadding, w, h)
    ok = got[0] == "ok" and got[1].relative == SP.relative(w, h) and (got[1].width, got[1].height) == (w, h)
    return {"reproduced": not ok, "input": [w, h], "observed": repr(got)}


def exact_init(m, meta):
    from term_image.padding import ExactPadding
    d = tuple(ival(m, k, 0) for k in ("left", "top", "right", "bottom"))
    got = _call(ExactPadding, *d)
    if any(x < 0 for x in d):
        ok = got == ("raise", "ValueError")
    else:
        ok = got[0] == "ok" and got[1].dimensions == d
    return {"reproduced": not ok, "input": d, "observed": repr(got)}


def resolve(m, meta):
    p = _aligned(m)
    ts = os.terminal_size((ival(m, "term_w", 80), ival(m, "term_h", 24)))
    got = _call(p.resolve, ts)
    exp = (SP.resolve_dim(p.width, ts[0]), SP.resolve_dim(p.height, ts[1]))
    ok = got[0] == "ok" and (got[1].width, got[1].height) == exp and not got[1].relative and \
        (got[1].h_align, got[1].v_align, got[1].fill) == (p.h_align, p.v_align, p.fill) and (p.relative or got[1] is p)
    return {"reproduced": not ok, "input": [repr(p), tuple(ts)], "observed": repr(got), "expected": exp}


def to_exact(m, meta):
    from term_image.padding import ExactPadding
    rs = _size(m)
    if "p_width" in m or "p_height" in m:
        p = _aligned(m)
    else:
        p = ExactPadding(*(max(ival(m, k, 0), 0) for k in ("left", "top", "right", "bottom")))
    got = _call(p.to_exact, rs)
    exp = _call(p._get_exact_dimensions_, rs)
    if exp[0] == "raise":
        ok = got == exp
    else:
        ok = got[0] == "ok" and got[1].dimensions == tuple(exp[1]) and got[1].fill == p.fill
    return {"reproduced": not ok, "input": [repr(p), tuple(rs)], "observed": repr(got), "expected": repr(exp)}


def pad(m, meta):
    """real Padding.pad on a block of distinct characters, interpreted by the concrete VT model: every cell of the padded
    box is either the fill (or untouched for an empty fill) or the render's cell at the offset given by the margins"""
    import itertools
    from term_image.padding import ExactPadding
    from term_image.geometry import Size
    from replay.vt import VT
    base = [max(ival(m, k, 0), 0) for k in ("left", "top", "right", "bottom")]
    w0, h0 = max(ival(m, "rs_w", 2), 1), max(ival(m, "rs_h", 2), 1)
    cands = [(tuple(base), w0, h0)] + [((l, t, r, b), w, h) for l, t, r, b, w, h in itertools.product((0, 1, 2), (0, 1, 2), (0, 1, 3), (0, 2), (1, 3), (1, 2))]
    for (l, t, r, b), w, h in cands:
        for fill in (" ", "x", ""):
            render = "\n".join("".join(chr(ord("a") + (i * w + j) % 26) for j in range(w)) for i in range(h))
            p = ExactPadding(l, t, r, b, fill)
            out = p.pad(render, Size(w, h))
            PW, PH = l + w + r, t + h + b
            vt = VT(width=PW + 3, height=PH + 3, row=1, col=0)
            vt.feed(out)
            bad = []
            if (l, t, r, b) == (0, 0, 0, 0) and out is not render:
                bad.append("unpadded render not returned as is")
            for i in range(PH):
                for j in range(PW + 3):
                    cell = vt.cells.get((1 + i, j))
                    inside = t <= i < t + h and l <= j < l + w
                    if j >= PW:
                        exp = None
                    elif inside:
                        exp = render.split("\n")[i - t][j - l]
                    else:
                        exp = fill or None
                    got = cell[1] if cell else None
                    if got != exp:
                        bad.append(((i, j), got, exp))
            if out.count("\n") != PH - 1 or vt.row != PH or vt.wrapped or vt.incomplete:
                bad.append(("geometry", out.count("\n"), vt.row))
            if bad:
                return {"reproduced": True, "input": {"padding": (l, t, r, b), "fill": fill, "render_size": (w, h)}, "observed": bad[:5]}
    return {"reproduced": False, "note": f"{len(cands) * 3} paddings tried around the model"}


def format_render(m, meta):
    """old API: format(image, spec) / _format_render on the concrete VT model: the output must blank every cell of the
    max(render, minimum) box outside the render"""
    import itertools
    import tests
    from PIL import Image
    from term_image.image import BlockImage
    from replay.vt import VT
    cands = [(max(ival(m, "cols", 2), 1), max(ival(m, "lines", 1), 1), max(ival(m, "width", 1), 1), max(ival(m, "height", 1), 1))]
    cands += list(itertools.product((1, 2, 4), (1, 2), (1, 3, 6), (1, 2, 4)))
    for cols, lines, width, height in cands:
        if max(cols, width) > 70 or max(lines, height) > 25:
            continue
        for h_align, v_align in itertools.product("<|>", "^-_"):
            img = BlockImage(Image.new("RGB", (cols, 2 * lines), (10, 20, 30)), width=cols, height=lines)
            out = format(img, f"{h_align}{width}.{v_align}{height}#")
            PW, PH = max(cols, width), max(lines, height)
            vt = VT(width=PW + 3, height=PH + 3, row=1, col=0).feed(out)
            missing = [(r, c) for r in range(1, 1 + PH) for c in range(PW) if (r, c) not in vt.cells]
            extra = [k for k in vt.cells if not (1 <= k[0] < 1 + PH and 0 <= k[1] < PW)]
            if missing or extra or out.count("\n") != PH - 1:
                return {"reproduced": True, "input": {"image(cols,lines)": (cols, lines), "spec": f"{h_align}{width}.{v_align}{height}#"},
                        "observed": {"cells_of_the_padded_box_not_written": missing[:6], "cells_outside": extra[:6], "newlines": out.count("\n")},
                        "expected": f"a {PW}x{PH} box fully blanked outside the render"}
    return {"reproduced": False}
