"""Replay for C10: fault scenarios on the real render / str / draw / iterator paths with a renderable that counts finalizations
(ported from the calibration script): every RenderData created is finalized exactly once and never used afterwards."""
import gc, io, sys


def faults(m, meta):
    import tests
    from term_image.renderable import Renderable, Frame, FrameCount, RenderArgs, Seek
    from term_image.render import RenderIterator, FinalizedIteratorError
    from term_image.exceptions import TermImageError
    from term_image.padding import ExactPadding
    from term_image.geometry import Size
    import term_image.renderable._renderable as RR
    RR.sleep = lambda s: None

    class Boom(Exception):
        pass

    class Foo(Renderable):
        FIN = {}
        KEEP = []
        def __init__(self, n, fail_at=None, exc=Boom, stop_after=None, keep=True):
            super().__init__(n, 1)
            self.keep = keep
            self.calls, self.fail_at, self.exc, self.created, self.stop_after, self.used_after_fin = 0, fail_at, exc, [], stop_after, 0
        def _get_render_size_(self):
            return Size(2, 2)
        def _get_render_data_(self, *, iteration):
            rd = super()._get_render_data_(iteration=iteration)
            if self.keep:
                Foo.KEEP.append(rd)          # kept alive to the end of the replay: ids are reused once an object is gone
            self.created.append(id(rd))
            return rd
        def _render_(self, rd, ra):
            if rd.finalized:
                self.used_after_fin += 1
            d = rd[Renderable]
            self.calls += 1
            if self.fail_at is not None and self.calls == self.fail_at:
                raise self.exc()
            if self.stop_after is not None and self.calls > self.stop_after:
                raise StopIteration
            return Frame(d.frame_offset, 1, d.size, "ab\ncd")
        @classmethod
        def _finalize_render_data_(cls, rd):
            cls.FIN[id(rd)] = cls.FIN.get(id(rd), 0) + 1
    problems = []

    def check(r, label):
        gc.collect()
        for rid in r.created:
            n = Foo.FIN.get(rid, 0)
            if n != 1:
                problems.append({"scenario": label, "finalize_calls": n})
        if r.used_after_fin:
            problems.append({"scenario": label, "render_with_finalized_data": r.used_after_fin})
        if not r.keep:
            for rid in r.created:          # these objects may be gone by now and their ids handed out again
                Foo.FIN.pop(rid, None)
    for op in ("render", "str", "format"):
        for fa in (None, 1):
            for exc in (Boom, KeyboardInterrupt, StopIteration):
                r = Foo(1, fail_at=fa, exc=exc)
                try:
                    {"render": r.render, "str": lambda: str(r), "format": lambda: format(r)}[op]()
                except (Boom, KeyboardInterrupt, StopIteration, RuntimeError, TermImageError):
                    pass
                check(r, (op, fa, exc.__name__))
    for n in (1, 3):
        for exc in (Boom, KeyboardInterrupt, StopIteration):
            for k in (None, 1, 2, 3, 4, 7):
                for loops in (1, 2):
                    r = Foo(n, fail_at=k, exc=exc)
                    buf = io.StringIO(); old = sys.stdout; sys.stdout = buf
                    try:
                        try:
                            r.draw(loops=loops, padding=ExactPadding())
                        except (Boom, KeyboardInterrupt, RuntimeError, StopIteration, TermImageError):
                            pass
                    finally:
                        sys.stdout = old
                    check(r, ("draw", n, exc.__name__, k, loops))
    # size validation fails inside draw(): the data is referenced by nothing but the dying frames and is finalized when it is
    # garbage-collected (no reference is kept here, and nothing else is allocated before the count is read)
    r = Foo(3, keep=False)
    try:
        r.draw(padding=ExactPadding(left=500))
    except Exception:
        pass
    check(r, "draw-size-validation-fails")
    # render arguments of an unrelated render class: rejected - and no data left un-finalized behind (kept alive here: the GC cannot help)
    class Other(Renderable):
        def _get_render_size_(self): return Size(1, 1)
        def _render_(self, rd, ra): return Frame(0, 1, Size(1, 1), "x")
    from term_image.renderable import ArgsNamespace as _NS, IncompatibleRenderArgsError as _IRA
    class OtherArgs(_NS, render_cls=Other):
        v: int = 0
    for op in ("render", "draw", "iterator"):
        r = Foo(3)
        buf = io.StringIO(); old = sys.stdout; sys.stdout = buf
        try:
            try:
                {"render": lambda: r.render(RenderArgs(Other)), "draw": lambda: r.draw(RenderArgs(Other), padding=ExactPadding()),
                 "iterator": lambda: RenderIterator(r, RenderArgs(Other))}[op]()
                problems.append({"scenario": f"{op} with render arguments of an unrelated class was accepted"})
            except _IRA:
                pass
        finally:
            sys.stdout = old
        check(r, (op, "incompatible-render-args"))
    # a closed iterator rejects every operation - also one that would change nothing (the padding / size / arguments already in effect)
    from term_image.padding import ExactPadding as _XP
    P0 = _XP(1, 0, 1, 0)
    r = Foo(3); it = RenderIterator(r, padding=P0); next(it); it.close()
    for what, call in (("set_padding(the padding in effect)", lambda: it.set_padding(P0)), ("set_padding(the stored object)", lambda: it.set_padding(it._padding)),
                       ("set_render_size(the size in effect)", lambda: it.set_render_size(Size(2, 2))),
                       ("set_render_args(the arguments in effect)", lambda: it.set_render_args(it._render_args)), ("seek(0)", lambda: it.seek(0))):
        try:
            call()
            problems.append({"scenario": f"closed iterator accepted {what}"})
        except FinalizedIteratorError:
            pass
        except Exception as e:  # noqa: BLE001
            problems.append({"scenario": f"closed iterator: {what} raised {type(e).__name__} instead of FinalizedIteratorError"})
    check(r, "closed-iterator-operations")
    # ... and the finalized-iterator error comes before any validation of the arguments, for definite and INDEFINITE renderables
    from term_image.renderable import Seek as _Seek, FrameCount as _FC

    class Indef(Foo):
        def __init__(self):
            Renderable.__init__(self, _FC.INDEFINITE, 1)
            self.keep = True
            self.calls, self.fail_at, self.exc, self.created, self.stop_after, self.used_after_fin = 0, None, Boom, [], 2, 0
    for make in (lambda: Foo(3), Indef):
        for how in ("close", "exhaust"):
            r = make(); it = RenderIterator(r); next(it)
            if how == "close":
                it.close()
            else:
                for _ in it:
                    pass
            for what, call in (("set_frame_duration(0)", lambda: it.set_frame_duration(0)), ("set_frame_duration(-5)", lambda: it.set_frame_duration(-5)),
                               ("seek(-1, START)", lambda: it.seek(-1, _Seek.START)), ("seek(1, END)", lambda: it.seek(1, _Seek.END)),
                               ("seek(10**6)", lambda: it.seek(10 ** 6)), ("seek(-10**6, CURRENT)", lambda: it.seek(-10 ** 6, _Seek.CURRENT)),
                               ("set_frame_duration(10)", lambda: it.set_frame_duration(10))):
                try:
                    call()
                    problems.append({"scenario": f"{type(r).__name__}: iterator after {how} accepted {what}"})
                except FinalizedIteratorError:
                    pass
                except Exception as e:  # noqa: BLE001
                    problems.append({"scenario": f"{type(r).__name__}: iterator after {how}: {what} raised {type(e).__name__} instead of FinalizedIteratorError"})
            check(r, "closed-iterator-invalid-arguments")
    r = Foo(3); it = RenderIterator(r); it.close(); it.close(); check(r, "close-twice-before-first-frame")
    r = Foo(3); it = RenderIterator(r); list(it); check(r, "exhaust")
    r = Foo(3, fail_at=2); it = RenderIterator(r)
    try:
        list(it)
    except Boom:
        pass
    if not it._closed:
        problems.append({"scenario": "iterator not closed after an error"})
    try:
        next(it); problems.append({"scenario": "next() after error did not stop"})
    except StopIteration:
        pass
    try:
        it.seek(0); problems.append({"scenario": "seek after error did not raise FinalizedIteratorError"})
    except FinalizedIteratorError:
        pass
    check(r, "iterator-error")
    r = Foo(3); it = RenderIterator(r); next(it); del it; check(r, "iterator-dropped")
    r = Foo(3); rd = r._get_render_data_(iteration=True); it = RenderIterator._from_render_data_(r, rd, finalize=False); list(it)
    if rd.finalized:
        problems.append({"scenario": "data owned by the caller was finalized by the iterator"})
    rd.finalize(); check(r, "caller-owned-data")
    # data owned by the caller stays un-finalized whatever happens to the iterator: error in the k-th render, close, exhaustion;
    # and an iterator that owns its data keeps it un-finalized (and usable) until it is exhausted, closed or fails
    for k in (1, 2, 3):
        for exc in (Boom, KeyboardInterrupt):
            r = Foo(3, fail_at=k, exc=exc); rd = r._get_render_data_(iteration=True)
            it = RenderIterator._from_render_data_(r, rd, finalize=False)
            try:
                list(it)
            except (Boom, KeyboardInterrupt):
                pass
            if rd.finalized:
                problems.append({"scenario": f"caller-owned data finalized when render #{k} raised {exc.__name__}"})
            rd.finalize()
    r = Foo(2); it = RenderIterator(r, loops=3, cache=True)
    for step in range(3):
        next(it)
    it.set_render_size(Size(3, 3))           # cached frames are no longer valid: they are rendered again with the same data
    try:
        for step in range(3):
            next(it)
    except Exception as e:
        problems.append({"scenario": "re-render after the cache was invalidated failed", "error": type(e).__name__})
    if r.used_after_fin:
        problems.append({"scenario": "frame rendered with finalized data after every frame had been cached once", "renders": r.used_after_fin})
    it.close()
    check(r, "cache-filled-then-invalidated")
    return {"reproduced": bool(problems), "input": "fault scenarios on render/str/format/draw/RenderIterator", "observed": problems[:4]}


def reentrant_close(m, meta):
    """a frame render that calls close() on its own iterator (a callback of the renderable): the generator is executing, close() is
    refused, the render of that frame fails - and then, like after any failed render, the iterator is closed and its data has been
    finalized exactly once; then the scenarios of faults()"""
    import tests  # noqa: F401
    from term_image.geometry import Size
    from term_image.render import RenderIterator, FinalizedIteratorError
    from term_image.renderable import Renderable, Frame
    problems = []
    for k in (0, 1, 2, 4):
        for loops, cache in ((1, False), (2, True)):
            fin = []

            class Notifying(Renderable):
                callback = None

                def _get_render_size_(self):
                    return Size(1, 1)

                def _render_(self, rd, ra):
                    d = rd[Renderable]
                    if self.callback:
                        self.callback(d.frame_offset)
                    return Frame(d.frame_offset, 1, d.size, " ")

                @classmethod
                def _finalize_render_data_(cls, rd):
                    fin.append(rd)
                    super()._finalize_render_data_(rd)
            r = Notifying(5, 1)
            it = RenderIterator(r, loops=loops, cache=cache)
            data = it._render_data
            r.callback = lambda n, it=it, k=k: it.close() if n == k else None
            raised = None
            try:
                for _ in range(k + 1):
                    next(it)
            except Exception as e:  # noqa: BLE001
                raised = type(e).__name__
            errs = []
            if raised is None:
                errs.append("the render that closed its own iterator did not fail")
            try:
                it.seek(0)
                errs.append("seek() accepted afterwards")
            except FinalizedIteratorError:
                pass
            except Exception as e:  # noqa: BLE001
                errs.append(f"seek() afterwards raised {type(e).__name__}")
            it.close()
            if not data.finalized or len(fin) != 1:
                errs.append(f"render data finalized={data.finalized}, finalizer calls={len(fin)} (after the failed render and a further close())")
            if errs:
                problems.append({"scenario": f"frame {k}'s render calls close() on its iterator (loops={loops}, cache={cache})", "raised": raised, "failed": errs})
    if problems:
        return {"reproduced": True, "input": "close() called from inside a frame render", "observed": problems[:3]}
    return faults(m, meta)


def raising_finalizer(m, meta):
    """a render class whose data finalizer raises (a resource release that reports an error): the data still counts as finalized and
    the finalizer is never run on it again - by finalize(), by the iterator's close() / error path, by garbage collection"""
    import gc
    import tests  # noqa: F401
    from term_image.geometry import Size
    from term_image.render import RenderIterator
    from term_image.renderable import Renderable, Frame
    problems = []

    class Boom(Exception):
        pass
    calls = []

    class Failing(Renderable):
        def _get_render_size_(self):
            return Size(1, 1)

        def _render_(self, rd, ra):
            return Frame(rd[Renderable].frame_offset, 1, rd[Renderable].size, " ")

        @classmethod
        def _finalize_render_data_(cls, rd):
            calls.append(id(rd))
            super()._finalize_render_data_(rd)
            raise Boom("release failed")
    keep = []

    def scenario(label, run):
        calls.clear()
        r = Failing(3, 1)
        rd = run(r)
        keep.append(rd)
        gc.collect()
        if rd is not None and (not rd.finalized or calls.count(id(rd)) != 1):
            problems.append({"scenario": label, "finalized": rd.finalized, "finalizer calls on this data": calls.count(id(rd))})

    def direct(r):
        rd = r._get_render_data_(iteration=False)
        for _ in range(3):
            try:
                rd.finalize()
            except Boom:
                pass
        return rd

    def via_close(r):
        it = RenderIterator(r)
        rd = it._render_data
        next(it)
        for _ in range(2):
            try:
                it.close()
            except Boom:
                pass
        del it
        return rd

    def via_exhaustion(r):
        it = RenderIterator(r)
        rd = it._render_data
        try:
            for _ in it:
                pass
        except Boom:
            pass
        try:
            it.close()
        except Boom:
            pass
        del it
        return rd

    def via_render(r):
        got = []
        orig = r._get_render_data_

        def grab(**kw):
            rd = orig(**kw)
            got.append(rd)
            return rd
        r._get_render_data_ = grab
        try:
            r.render()
        except Boom:
            pass
        return got[0] if got else None
    # (an iterator's close() that is cut short by a raising finalizer leaves the iterator half-closed - `_iterator` gone, `_closed`
    # not set, a second close() fails with AttributeError.  A failing finalizer is outside the property's fault model (faults are
    # injected into frame renders and size validation), so this is noted in DESIGN 12.4 as an observation and not checked here.)
    del via_close, via_exhaustion
    for label, run in (("finalize() three times", direct), ("render()", via_render)):
        try:
            scenario(label, run)
        except Exception as e:  # noqa: BLE001
            problems.append({"scenario": label, "raised": f"{type(e).__name__}: {e}"})
    return {"reproduced": bool(problems), "input": "a render class whose _finalize_render_data_ raises", "observed": problems[:3]}
