"""Replays for C15: seeded histories of terminal resizes, pixel-size availability, swap / query toggles and cell-ratio modes
against a fresh computation on the same fake terminal."""
import os, random


def get_cell_size(m, meta, n_hist=6000):
    import term_image
    import term_image.utils as U
    import term_image.geometry as G
    rng = random.Random(11)
    state = {"ts": (80, 30), "px": (800, 600), "reply": None}

    def fake_ioctl(fd, req, buf):
        buf[0], buf[1], buf[2], buf[3] = state["ts"][1], state["ts"][0], state["px"][0], state["px"][1]
        return 0
    U.fcntl.ioctl = fake_ioctl
    U.get_terminal_size = lambda: os.terminal_size(state["ts"])
    U.query_terminal = lambda *a, **k: (state["reply"] if U._queries_enabled else None)
    U._tty_fd = 0
    U.os.environ.pop("SHELL", None)

    def fresh():
        tw, th = state["ts"]
        pw, ph = state["px"]
        area = None
        if pw and ph:
            area = (pw, ph)
        elif U._queries_enabled and state["reply"]:
            r = state["reply"].decode()
            if r.startswith("\x1b[6;"):
                h, w = r[4:r.index("t")].split(";")
                return (int(w), int(h)) if int(w) and int(h) else None
            if r.startswith("\x1b[4;"):
                h, w = r[4:r.index("t")].split(";")
                area = (int(w), int(h))
        if area is None:
            return None
        if U._swap_win_size:
            area = area[::-1]
        c = (area[0] // tw, area[1] // th)
        return c if 0 not in c else None
    problems = []
    for hist in range(n_hist):
        U._cell_size_cache[:] = (0,) * 4
        term_image.disable_win_size_swap()
        term_image.enable_queries()
        trace = []
        for step in range(rng.randint(2, 10)):
            op = rng.choice(["resize", "resize", "px", "swap", "queries", "reply", "get"])
            if op == "resize":
                state["ts"] = rng.choice([t for t in [(80, 30), (100, 40), (120, 50)] if t != state["ts"]])
            elif op == "px":
                state["px"] = rng.choice([(0, 0), (800, 600), (1600, 900), (1000, 1200)])
            elif op == "swap":
                rng.choice([term_image.enable_win_size_swap, term_image.disable_win_size_swap])()
            elif op == "queries":
                rng.choice([term_image.enable_queries, term_image.disable_queries])()
            elif op == "reply":
                state["reply"] = rng.choice([None, b"\x1b[6;20;10t\x1b[?62;c", b"\x1b[4;600;800t\x1b[?62;c", b"\x1b[?62;c"])
            trace.append((op, state["ts"], state["px"], U._swap_win_size, U._queries_enabled, state["reply"]))
            if op in ("resize", "get"):
                # the documented cache is per terminal size: what matters is the value right after the size (or a setting) changed
                got = U.get_cell_size()
                exp = fresh()
                trace.append(("get_cell_size", tuple(got) if got else None, "fresh", exp))
                if (tuple(got) if got else None) != exp and op == "resize":
                    problems.append(trace[-6:])
                    break
        if problems:
            break
    return {"reproduced": bool(problems), "input": "seeded histories on a fake terminal (ioctl / terminal size / replies patched)", "observed": [repr(problems[0])[:900]] if problems else []}


def cached(m, meta):
    """the `cached` decorator: per-argument caching (positional / keyword arguments are part of the key), one evaluation per key
    until invalidated"""
    import term_image.utils as U
    calls = []

    @U.cached
    def f(*a, **k):
        calls.append((a, tuple(sorted(k.items()))))
        return len(calls)
    problems = []
    seq = [((1,), {}), ((1,), {}), ((2,), {}), ((1,), {"hex": True}), ((1,), {"hex": True}), ((1,), {"hex": False}), ((), {}), ((), {})]
    seen = {}
    for a, k in seq:
        r = f(*a, **k)
        key = (a, tuple(k.items()))
        if key in seen and seen[key] != r:
            problems.append(("value changed without invalidation", a, k))
        seen.setdefault(key, r)
    if len(calls) != len(seen):
        problems.append(("evaluations", len(calls), "distinct argument lists", len(seen)))
    f._invalidate_cache()
    n = len(calls)
    f(1)
    if len(calls) != n + 1:
        problems.append("not re-evaluated after invalidation")
    return {"reproduced": bool(problems), "input": "a counting function under @cached", "observed": problems[:3]}


def ts_cached(m, meta):
    """the `terminal_size_cached` decorator: the value is recomputed exactly when the terminal size differs from the one it was
    computed for (or after invalidation)"""
    import os, random
    import term_image.utils as U
    rng = random.Random(2)
    state = {"ts": (80, 30)}
    saved = U.get_terminal_size
    U.get_terminal_size = lambda: os.terminal_size(state["ts"])
    problems = []
    try:
        calls = []

        fail = {"next": False}

        @U.terminal_size_cached
        def f():
            calls.append(state["ts"])
            if fail["next"]:
                fail["next"] = False
                raise KeyboardInterrupt()
            return ("value for", state["ts"])
        last = None
        for step in range(600):
            op = rng.choice(["resize", "same", "call", "call", "invalidate", "failing-call"])
            if op == "failing-call":
                # the wrapped function is interrupted: nothing may be remembered for the terminal size of that attempt
                fail["next"] = True
                try:
                    f()
                    fail["next"] = False
                except KeyboardInterrupt:
                    last = None if last != state["ts"] else last
                except BaseException as e:      # noqa
                    problems.append(("a call of the cached function raised something the wrapped function did not", type(e).__name__, str(e)[:80]))
                    break
                continue
            if op == "resize":
                state["ts"] = rng.choice([(80, 30), (100, 40), (120, 50)])
            elif op == "invalidate":
                f._invalidate_terminal_size_cache()
                last = None
            elif op == "call":
                n = len(calls)
                try:
                    r = f()
                except BaseException as e:      # noqa
                    problems.append(("a call of the cached function raised although the wrapped function did not", type(e).__name__, str(e)[:80]))
                    break
                if r != ("value for", state["ts"]):
                    problems.append(("stale value", r, "terminal size now", state["ts"]))
                    break
                if (len(calls) != n) != (last != state["ts"]) and last is not None:
                    problems.append(("recomputed" if len(calls) != n else "not recomputed", "previous size", last, "now", state["ts"]))
                    break
                last = state["ts"]
        # the terminal is resized WHILE the wrapped function runs: the value it returns belongs to the old size, and the next call -
        # made at the new size - has to compute again
        if not problems:
            state["ts"] = (80, 30)
            ran = []

            def body():
                ran.append(state["ts"])
                seen = state["ts"]
                if len(ran) == 1:
                    state["ts"] = (132, 43)             # resize lands in the middle of the first call
                return ("value for", seen)
            g = U.terminal_size_cached(body)
            g()
            r2 = g()
            if r2 != ("value for", (132, 43)):
                problems.append(("resize during the first call: the second call, at the new size", state["ts"], "was served", r2, "body runs", len(ran)))
    finally:
        U.get_terminal_size = saved
    return {"reproduced": bool(problems), "input": "600 random resize / call / failing call / invalidate steps; a resize during a call", "observed": problems[:2]}


def toggles(m, meta):
    """query / window-size-swap toggles: every toggle that changes the setting invalidates what depends on it"""
    import term_image
    import term_image.utils as U
    problems = []
    inval = {"n": 0}
    saved = getattr(U.get_terminal_name_version, "_invalidate_cache", None)
    try:
        for fn_name in ("get_terminal_name_version", "get_fg_bg_colors"):
            f = getattr(U, fn_name)
            orig = f._invalidate_cache

            def counting(orig=orig, fn_name=fn_name):
                inval["n"] += 1
                return orig()
            setattr(f, "_invalidate_cache", counting)
        term_image.disable_queries()
        n0 = inval["n"]
        term_image.enable_queries()
        if inval["n"] == n0:
            problems.append("enable_queries() after disable_queries() did not invalidate the cached terminal answers")
        for cached_cell in ((80, 30, 10, 20), (80, 30, 0, 0)):
            term_image.disable_queries()
            U._cell_size_cache[:] = cached_cell
            term_image.enable_queries()
            if tuple(U._cell_size_cache) != (0, 0, 0, 0):
                problems.append(f"enable_queries() after disable_queries() kept the cell size cached while queries were disabled: {tuple(U._cell_size_cache)}")
            U._cell_size_cache[:] = cached_cell
            term_image.enable_queries()
            if tuple(U._cell_size_cache) != cached_cell:
                problems.append("enable_queries() while queries were already enabled reset the cell-size cache")
        for enable, disable in ((term_image.enable_win_size_swap, term_image.disable_win_size_swap),):
            disable()
            U._cell_size_cache[:] = (80, 30, 10, 20)
            enable()
            if tuple(U._cell_size_cache) != (0, 0, 0, 0):
                problems.append("enable_win_size_swap() did not reset the cell-size cache")
            U._cell_size_cache[:] = (80, 30, 10, 20)
            enable()
            if tuple(U._cell_size_cache) != (80, 30, 10, 20):
                problems.append("a toggle that changes nothing reset the cell-size cache")
            disable()
            if tuple(U._cell_size_cache) != (0, 0, 0, 0):
                problems.append("disable_win_size_swap() did not reset the cell-size cache")
    finally:
        term_image.enable_queries()
        term_image.disable_win_size_swap()
        for fn_name in ("get_terminal_name_version", "get_fg_bg_colors"):
            f = getattr(U, fn_name)
            try:
                delattr(f, "_invalidate_cache") if False else None
            except Exception:
                pass
    return {"reproduced": bool(problems), "input": "toggle sequences", "observed": problems[:3]}


def cell_ratio(m, meta):
    """cell ratio modes: a fixed ratio is returned as set; DYNAMIC follows the cell size of the moment; FIXED is computed once"""
    import term_image
    import term_image.utils as U
    import term_image.geometry as G
    from term_image import AutoCellRatio
    problems = []
    cell = {"v": G.Size(10, 20)}
    saved = (U.get_cell_size, term_image.get_cell_size if hasattr(term_image, "get_cell_size") else None, AutoCellRatio.is_supported)
    U.get_cell_size = lambda: cell["v"]
    if hasattr(term_image, "get_cell_size"):
        term_image.get_cell_size = U.get_cell_size
    AutoCellRatio.is_supported = True
    try:
        term_image.set_cell_ratio(0.4)
        if term_image.get_cell_ratio() != 0.4:
            problems.append(("fixed value", term_image.get_cell_ratio()))
        try:
            term_image.set_cell_ratio(AutoCellRatio.DYNAMIC)
            for size in (G.Size(10, 20), G.Size(9, 18), G.Size(8, 20)):
                cell["v"] = size
                if abs(term_image.get_cell_ratio() - size.width / size.height) > 1e-12:
                    problems.append(("DYNAMIC", tuple(size), term_image.get_cell_ratio()))
            cell["v"] = G.Size(10, 20)
            term_image.set_cell_ratio(AutoCellRatio.FIXED)
            first = term_image.get_cell_ratio()
            cell["v"] = G.Size(7, 21)
            if term_image.get_cell_ratio() != first or abs(first - 0.5) > 1e-12:
                problems.append(("FIXED", first, term_image.get_cell_ratio()))
        except Exception as e:
            problems.append(("auto modes raised", type(e).__name__, str(e)[:80]))
    finally:
        U.get_cell_size = saved[0]
        if saved[1] is not None:
            term_image.get_cell_size = saved[1]
        AutoCellRatio.is_supported = saved[2]
        term_image.set_cell_ratio(0.5)
    return {"reproduced": bool(problems), "input": "cell-ratio modes with a scripted cell size", "observed": problems[:3]}


def concurrent_first_calls(m, meta):
    """real threads: N callers released together make the first call of a memoized function whose body is slow; the body has to
    run once per argument tuple (`cached`) / once per terminal size (`terminal_size_cached`) until invalidated"""
    import threading, time
    import term_image.utils as U
    problems = []
    N = 8

    def race(fn, argsets, what):
        barrier = threading.Barrier(N)
        errors = []

        def worker(i):
            try:
                barrier.wait(10)
                fn(*argsets[i % len(argsets)])
            except Exception as e:  # noqa: BLE001
                errors.append(repr(e))
        ths = [threading.Thread(target=worker, args=(i,)) for i in range(N)]
        for t in ths:
            t.start()
        for t in ths:
            t.join(30)
        if errors:
            problems.append(f"{what}: {errors[0]}")

    for rnd in range(3):
        runs = {}
        count_lock = threading.Lock()

        def body(*a):
            with count_lock:
                runs[a] = runs.get(a, 0) + 1
            time.sleep(0.05)
            return a
        f = U.cached(body)
        race(f, [(1,), (2,)], "cached")
        if any(v != 1 for v in runs.values()) or len(runs) != 2:
            problems.append(f"cached: {N} concurrent first calls over 2 argument tuples ran the body {dict(runs)} times")
        f._invalidate_cache()
        runs.clear()
        race(f, [(1,)], "cached after invalidation")
        if runs != {(1,): 1}:
            problems.append(f"cached: after an invalidation, {N} concurrent calls ran the body {dict(runs)} times")
        saved = U.get_terminal_size
        try:
            U.get_terminal_size = lambda: os.terminal_size((80 + rnd, 24))
            runs.clear()
            g = U.terminal_size_cached(body)
            race(g, [()], "terminal_size_cached")
            if runs != {(): 1}:
                problems.append(f"terminal_size_cached: {N} concurrent first calls at one terminal size ran the body {dict(runs)} times")
            g._invalidate_terminal_size_cache()
            runs.clear()
            race(g, [()], "terminal_size_cached after invalidation")
            if runs != {(): 1}:
                problems.append(f"terminal_size_cached: after an invalidation, {N} concurrent calls ran the body {dict(runs)} times")
        finally:
            U.get_terminal_size = saved
        if problems:
            break
    # ---- an invalidation that arrives while a first call is still computing: once both have returned, the value computed before the
    #      invalidation must not be what later calls get (the invalidation has to wait for the call, or win over it)
    if not problems:
        saved = U.get_terminal_size
        U.get_terminal_size = lambda: os.terminal_size((80, 24))
        try:
            for deco, inval_name in ((U.cached, "_invalidate_cache"), (U.terminal_size_cached, "_invalidate_terminal_size_cache")):
                in_body, release = threading.Event(), threading.Event()
                runs = []

                def body2():
                    runs.append(len(runs))
                    if len(runs) == 1:
                        in_body.set()
                        release.wait(2)
                    return len(runs)
                f = deco(body2)
                ta = threading.Thread(target=f)
                ta.start()
                if not in_body.wait(5):
                    problems.append(f"{deco.__name__}: the first call never reached the body")
                    release.set(); ta.join(5)
                    continue
                tb = threading.Thread(target=getattr(f, inval_name))
                tb.start()
                tb.join(0.3)           # returns at once if it does not wait for the call in progress
                release.set()
                ta.join(10); tb.join(10)
                f()
                if len(runs) != 2:
                    problems.append(f"{deco.__name__}: {inval_name}() called while the first call was still computing; after both returned, the next "
                                    f"call was served the value computed before the invalidation (body runs: {len(runs)}, expected 2)")
        finally:
            U.get_terminal_size = saved
    return {"reproduced": bool(problems), "input": f"{N} threads released by a barrier, body sleeping 50 ms; an invalidation during a first call", "observed": problems[:3]}


def toggle_publication(m, meta):
    """one deterministic schedule per toggle: a second thread calls the getter at every point where the toggling thread does not
    hold the lock that guards the discarded value (just before it takes it, just after it lets go of it, and right after each
    memoized answer is dropped); once the toggle has returned, the getter must agree with a fresh computation"""
    import threading
    import term_image
    import term_image.utils as U
    problems = []
    state = {"ts": (80, 30), "px": (800, 600)}

    def fake_ioctl(fd, req, buf):
        buf[0], buf[1], buf[2], buf[3] = state["ts"][1], state["ts"][0], state["px"][0], state["px"][1]
        return 0
    saved = (U.fcntl.ioctl, U.get_terminal_size, U.query_terminal, U._tty_fd, U._cell_size_lock)
    saved_read = U.read_tty
    main = threading.current_thread()

    def elsewhere(fn):
        out = []
        t = threading.Thread(target=lambda: out.append(fn()))
        t.start()
        t.join(20)
        if t.is_alive():
            raise RuntimeError("the second thread did not finish (schedule point inside a critical section?)")
        return out[0] if out else None

    class SchedLock:
        """the real RLock, plus schedule points for the main thread"""

        def __init__(self, inner):
            self.inner, self.depth, self.hook = inner, 0, None

        def __enter__(self):
            if threading.current_thread() is main and self.depth == 0 and self.hook:
                self.hook("before-acquire")
            self.inner.acquire()
            if threading.current_thread() is main:
                self.depth += 1
            return self

        def __exit__(self, *exc):
            self.inner.release()
            if threading.current_thread() is main:
                self.depth -= 1
                if self.depth == 0 and self.hook:
                    self.hook("after-release")

        acquire = lambda self, *a, **k: self.__enter__() and True
        release = lambda self: self.__exit__(None, None, None)
    try:
        U.fcntl.ioctl = fake_ioctl
        U.get_terminal_size = lambda: os.terminal_size(state["ts"])
        U._tty_fd = 0
        U.read_tty = lambda *a, **k: b"?62;c"
        lock = U._cell_size_lock = SchedLock(saved[4])

        def fresh_cell():
            area = state["px"][::-1] if U._swap_win_size else state["px"]
            return (area[0] // state["ts"][0], area[1] // state["ts"][1])
        import sys, inspect
        code = inspect.unwrap(U.get_cell_size).__code__
        glines = sorted({l for _, _, l in code.co_lines() if l})

        def inflight(toggle, undo, want=None):
            """third family of schedules: a getter in another thread has reached line L of get_cell_size (one schedule per line) when
            the toggle runs in this thread; the getter resumes when the toggle has returned - or after 0.25 s when the toggle is
            waiting for it.  Afterwards the getter has to agree with a fresh computation."""
            # which lines does the getter execute in this scenario?
            undo()
            U._cell_size_cache[:] = (0,) * 4
            seen = set()

            def dry(frame, event, arg):
                if frame.f_code is not code:
                    return None

                def local(frame, event, arg):
                    if event == "line":
                        seen.add(frame.f_lineno)
                    return local
                return local
            sys.settrace(dry)
            try:
                U.get_cell_size()
            finally:
                sys.settrace(None)
            for line in [l for l in glines if l in seen]:
                lock.hook = None
                undo()
                U._cell_size_cache[:] = (0,) * 4
                reached, go = threading.Event(), threading.Event()

                def tracer(frame, event, arg, line=line, reached=reached, go=go):
                    if frame.f_code is not code:
                        return None

                    def local(frame, event, arg):
                        if event == "line" and frame.f_lineno == line and not reached.is_set():
                            reached.set()
                            go.wait(0.25)
                        return local
                    return local

                def getter(tracer=tracer):
                    sys.settrace(tracer)
                    try:
                        U.get_cell_size()
                    finally:
                        sys.settrace(None)
                g = threading.Thread(target=getter)
                g.start()
                if reached.wait(5):
                    getattr(term_image, toggle)()
                go.set()
                g.join(20)
                if not reached.is_set():
                    continue                       # this line is not executed in this scenario
                got = U.get_cell_size()
                got = tuple(got) if got else None
                exp = want if want is not None else fresh_cell()
                if got != exp:
                    problems.append(f"{toggle}() while a get_cell_size() in another thread stands at line {line} of utils.py -> afterwards "
                                    f"get_cell_size() = {got}, a fresh computation gives {exp}")
                    return
        for toggle in ("enable_win_size_swap", "disable_win_size_swap"):
            for point in ("before-acquire", "after-release"):
                lock.hook = None
                (term_image.disable_win_size_swap if toggle.startswith("enable") else term_image.enable_win_size_swap)()
                U.get_cell_size()
                lock.hook = lambda where, point=point: elsewhere(U.get_cell_size) if where == point else None
                getattr(term_image, toggle)()
                lock.hook = None
                got = U.get_cell_size()
                if tuple(got) != fresh_cell():
                    problems.append(f"{toggle}() with a get_cell_size() in another thread {point.replace('-', ' (of the lock guarding the cell-size cache) ')} -> afterwards "
                                    f"get_cell_size() = {tuple(got)}, a fresh computation gives {fresh_cell()}")
            inflight(toggle, (term_image.disable_win_size_swap if toggle.startswith("enable") else term_image.enable_win_size_swap))
        # enable_queries: the memoized terminal answers
        answers = {"on": b"\x1b[6;20;10t\x1b[?62;c"}
        state["px"] = (0, 0)                       # pixel size only through a query
        U.query_terminal = lambda *a, **k: (answers["on"] if U._queries_enabled else None)
        for point in ("before-acquire", "after-release"):
            lock.hook = None
            term_image.disable_queries()
            U._cell_size_cache[:] = (0,) * 4
            U.get_cell_size()
            lock.hook = lambda where, point=point: elsewhere(U.get_cell_size) if where == point else None
            term_image.enable_queries()
            lock.hook = None
            got = U.get_cell_size()
            if (tuple(got) if got else None) != (10, 20):
                problems.append(f"enable_queries() with a get_cell_size() in another thread {point}: afterwards get_cell_size() = {got}, "
                                f"the terminal answers (10, 20)")
        lock.hook = None
        inflight("enable_queries", term_image.disable_queries, want=(10, 20))
        # ... and the two memoized query functions: a call in another thread right after each answer is dropped
        for fn_name, fresh_on in (("get_terminal_name_version", None), ("get_fg_bg_colors", None)):
            f = getattr(U, fn_name)
            orig_inval = f._invalidate_cache
            U.query_terminal = lambda *a, **k: None
            term_image.disable_queries()
            orig_inval()
            off_value = f()
            # what the function gives once queries are on (a scripted terminal)
            script = {"get_terminal_name_version": b"\x1bP>|tname 1.2\x1b\\\x1b[?62;c",
                      "get_fg_bg_colors": b"\x1b]10;rgb:ffff/0000/0000\x1b\\\x1b]11;rgb:0000/ffff/0000\x1b\\\x1b[?62;c"}[fn_name]
            U.query_terminal = lambda *a, script=script, **k: (script if U._queries_enabled else None)

            def racing_inval(f=f, orig_inval=orig_inval):
                orig_inval()
                elsewhere(f)
            setattr(f, "_invalidate_cache", racing_inval)
            try:
                term_image.enable_queries()
            finally:
                setattr(f, "_invalidate_cache", orig_inval)
            got = f()
            orig_inval()
            want = f()
            if got != want:
                problems.append(f"enable_queries() with a {fn_name}() in another thread right after its memoized answer is dropped: "
                                f"afterwards {fn_name}() = {got!r}, a fresh call gives {want!r}")
            orig_inval()
    finally:
        U.fcntl.ioctl, U.get_terminal_size, U.query_terminal, U._tty_fd, U._cell_size_lock = saved
        U.read_tty = saved_read
        term_image.enable_queries()
        term_image.disable_win_size_swap()
        U._cell_size_cache[:] = (0,) * 4
    return {"reproduced": bool(problems), "input": "scheduled second-thread getters around each toggle", "observed": problems[:3]}


def get_cell_size_any(m, meta):
    """sequential histories first; then the scheduled two-thread histories (a value computed from settings read before the lock is taken
    fails only there)"""
    r = get_cell_size(m, meta, n_hist=2000)
    if r.get("reproduced"):
        return r
    r2 = toggle_publication(m, meta)
    r2["input"] = "2000 sequential histories (nothing found); " + r2["input"]
    return r2


def failed_query(m, meta):
    """histories in which a get_cell_size() call fails while it queries the terminal (interrupt, termios error): the next successful
    call at the same terminal size must return what a fresh computation gives"""
    import term_image
    import term_image.utils as U
    state = {"ts": (80, 30), "px": (0, 0), "cell": (10, 20), "fail": None}

    def fake_ioctl(fd, req, buf):
        buf[0], buf[1], buf[2], buf[3] = state["ts"][1], state["ts"][0], state["px"][0], state["px"][1]
        return 0

    def fake_query(*a, **k):
        if not U._queries_enabled:
            return None
        if state["fail"] is not None:
            exc, state["fail"] = state["fail"], None
            raise exc
        return b"\x1b[6;%d;%dt\x1b[?62;c" % (state["cell"][1], state["cell"][0])
    U.fcntl.ioctl = fake_ioctl
    U.get_terminal_size = lambda: os.terminal_size(state["ts"])
    U.query_terminal = fake_query
    U._tty_fd = 0
    U.os.environ.pop("SHELL", None)
    problems = []
    import termios
    for exc in (KeyboardInterrupt(), termios.error(5, "EIO"), OSError(9, "EBADF")):
        for first in (True, False):                     # failure on the very first call / on the first call after a resize
            U._cell_size_cache[:] = (0,) * 4
            term_image.disable_win_size_swap()
            term_image.enable_queries()
            state.update(ts=(80, 30), cell=(10, 20), fail=None)
            if not first:
                U.get_cell_size()
                state.update(ts=(100, 40), cell=(8, 15))
            state["fail"] = exc
            try:
                U.get_cell_size()
                problems.append({"history": f"first={first}", "observed": f"{type(exc).__name__} from the query was swallowed"})
                continue
            except BaseException as e:  # noqa: BLE001
                if e is not exc:
                    raise
            held = not U._cell_size_lock.acquire(blocking=False) if hasattr(U._cell_size_lock, "acquire") else False
            if not held:
                U._cell_size_lock.release()
            got = U.get_cell_size()
            if held or tuple(got or ()) != state["cell"]:
                problems.append({"history": ("first call" if first else "first call after a resize") + f" fails with {type(exc).__name__} while querying, then get_cell_size()",
                                 "observed": tuple(got) if got else None, "fresh": state["cell"], "lock_left_held": held})
    return {"reproduced": bool(problems), "input": "get_cell_size() interrupted / failing inside query_terminal(), then called again at the same terminal size",
            "observed": problems[:3]}
