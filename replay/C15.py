"""Replays for C15: seeded histories of terminal resizes, pixel-size availability, swap / query toggles and cell-ratio modes
against a fresh computation on the same fake terminal."""
import os, random


def get_cell_size(m, meta, n_hist=6000):
    import term_image
    import term_image.utils as U
    import term_image.geometry as G
    rng = random.Random(11)
    state = {"ts": (80, 30), "px": (800, 600), "reply": None}

    def fake_ioctl(fd, req, buf):
        buf[0], buf[1], buf[2], buf[3] = state["ts"][1], state["ts"][0], state["px"][0], state["px"][1]
        return 0
    U.fcntl.ioctl = fake_ioctl
    U.get_terminal_size = lambda: os.terminal_size(state["ts"])
    U.query_terminal = lambda *a, **k: (state["reply"] if U._queries_enabled else None)
    U._tty_fd = 0
    U.os.environ.pop("SHELL", None)

    def fresh():
        tw, th = state["ts"]
        pw, ph = state["px"]
        area = None
        if pw and ph:
            area = (pw, ph)
        elif U._queries_enabled and state["reply"]:
            r = state["reply"].decode()
            if r.startswith("\x1b[6;"):
                h, w = r[4:r.index("t")].split(";")
                return (int(w), int(h)) if int(w) and int(h) else None
            if r.startswith("\x1b[4;"):
                h, w = r[4:r.index("t")].split(";")
                area = (int(w), int(h))
        if area is None:
            return None
        if U._swap_win_size:
            area = area[::-1]
        c = (area[0] // tw, area[1] // th)
        return c if 0 not in c else None
    problems = []
    for hist in range(n_hist):
        U._cell_size_cache[:] = (0,) * 4
        term_image.disable_win_size_swap()
        term_image.enable_queries()
        trace = []
        for step in range(rng.randint(2, 10)):
            op = rng.choice(["resize", "resize", "px", "swap", "queries", "reply", "get"])
            if op == "resize":
                state["ts"] = rng.choice([t for t in [(80, 30), (100, 40), (120, 50)] if t != state["ts"]])
            elif op == "px":
                state["px"] = rng.choice([(0, 0), (800, 600), (1600, 900), (1000, 1200)])
            elif op == "swap":
                rng.choice([term_image.enable_win_size_swap, term_image.disable_win_size_swap])()
            elif op == "queries":
                rng.choice([term_image.enable_queries, term_image.disable_queries])()
            elif op == "reply":
                state["reply"] = rng.choice([None, b"\x1b[6;20;10t\x1b[?62;c", b"\x1b[4;600;800t\x1b[?62;c", b"\x1b[?62;c"])
            trace.append((op, state["ts"], state["px"], U._swap_win_size, U._queries_enabled, state["reply"]))
            if op in ("resize", "get"):
                # the documented cache is per terminal size: what matters is the value right after the size (or a setting) changed
                got = U.get_cell_size()
                exp = fresh()
                trace.append(("get_cell_size", tuple(got) if got else None, "fresh", exp))
                if (tuple(got) if got else None) != exp and op == "resize":
                    problems.append(trace[-6:])
                    break
        if problems:
            break
    return {"reproduced": bool(problems), "input": "seeded histories on a fake terminal (ioctl / terminal size / replies patched)", "observed": [repr(problems[0])[:900]] if problems else []}
