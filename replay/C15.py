"""Replays for C15: seeded histories of terminal resizes, pixel-size availability, swap / query toggles and cell-ratio modes
against a fresh computation on the same fake terminal."""
import os, random


def get_cell_size(m, meta, n_hist=6000):
    import term_image
    import term_image.utils as U
    import term_image.geometry as G
    rng = random.Random(11)
    state = {"ts": (80, 30), "px": (800, 600), "reply": None}

    def fake_ioctl(fd, req, buf):
        buf[0], buf[1], buf[2], buf[3] = state["ts"][1], state["ts"][0], state["px"][0], state["px"][1]
        return 0
    U.fcntl.ioctl = fake_ioctl
    U.get_terminal_size = lambda: os.terminal_size(state["ts"])
    U.query_terminal = lambda *a, **k: (state["reply"] if U._queries_enabled else None)
    U._tty_fd = 0
    U.os.environ.pop("SHELL", None)

    def fresh():
        tw, th = state["ts"]
        pw, ph = state["px"]
        area = None
        if pw and ph:
            area = (pw, ph)
        elif U._queries_enabled and state["reply"]:
            r = state["reply"].decode()
            if r.startswith("\x1b[6;"):
                h, w = r[4:r.index("t")].split(";")
                return (int(w), int(h)) if int(w) and int(h) else None
            if r.startswith("\x1b[4;"):
                h, w = r[4:r.index("t")].split(";")
                area = (int(w), int(h))
        if area is None:
            return None
        if U._swap_win_size:
            area = area[::-1]
        c = (area[0] // tw, area[1] // th)
        return c if 0 not in c else None
    problems = []
    for hist in range(n_hist):
        U._cell_size_cache[:] = (0,) * 4
        term_image.disable_win_size_swap()
        term_image.enable_queries()
        trace = []
        for step in range(rng.randint(2, 10)):
            op = rng.choice(["resize", "resize", "px", "swap", "queries", "reply", "get"])
            if op == "resize":
                state["ts"] = rng.choice([t for t in [(80, 30), (100, 40), (120, 50)] if t != state["ts"]])
            elif op == "px":
                state["px"] = rng.choice([(0, 0), (800, 600), (1600, 900), (1000, 1200)])
            elif op == "swap":
                rng.choice([term_image.enable_win_size_swap, term_image.disable_win_size_swap])()
            elif op == "queries":
                rng.choice([term_image.enable_queries, term_image.disable_queries])()
            elif op == "reply":
                state["reply"] = rng.choice([None, b"\x1b[6;20;10t\x1b[?62;c", b"\x1b[4;600;800t\x1b[?62;c", b"\x1b[?62;c"])
            trace.append((op, state["ts"], state["px"], U._swap_win_size, U._queries_enabled, state["reply"]))
            if op in ("resize", "get"):
                # the documented cache is per terminal size: what matters is the value right after the size (or a setting) changed
                got = U.get_cell_size()
                exp = fresh()
                trace.append(("get_cell_size", tuple(got) if got else None, "fresh", exp))
                if (tuple(got) if got else None) != exp and op == "resize":
                    problems.append(trace[-6:])
                    break
        if problems:
            break
    return {"reproduced": bool(problems), "input": "seeded histories on a fake terminal (ioctl / terminal size / replies patched)", "observed": [repr(problems[0])[:900]] if problems else []}


def cached(m, meta):
    """the `cached` decorator: per-argument caching (positional / keyword arguments are part of the key), one evaluation per key
    until invalidated"""
    import term_image.utils as U
    calls = []

    @U.cached
    def f(*a, **k):
        calls.append((a, tuple(sorted(k.items()))))
        return len(calls)
    problems = []
    seq = [((1,), {}), ((1,), {}), ((2,), {}), ((1,), {"hex": True}), ((1,), {"hex": True}), ((1,), {"hex": False}), ((), {}), ((), {})]
    seen = {}
    for a, k in seq:
        r = f(*a, **k)
        key = (a, tuple(k.items()))
        if key in seen and seen[key] != r:
            problems.append(("value changed without invalidation", a, k))
        seen.setdefault(key, r)
    if len(calls) != len(seen):
        problems.append(("evaluations", len(calls), "distinct argument lists", len(seen)))
    f._invalidate_cache()
    n = len(calls)
    f(1)
    if len(calls) != n + 1:
        problems.append("not re-evaluated after invalidation")
    return {"reproduced": bool(problems), "input": "a counting function under @cached", "observed": problems[:3]}


def ts_cached(m, meta):
    """the `terminal_size_cached` decorator: the value is recomputed exactly when the terminal size differs from the one it was
    computed for (or after invalidation)"""
    import os, random
    import term_image.utils as U
    rng = random.Random(2)
    state = {"ts": (80, 30)}
    saved = U.get_terminal_size
    U.get_terminal_size = lambda: os.terminal_size(state["ts"])
    problems = []
    try:
        calls = []

        fail = {"next": False}

        @U.terminal_size_cached
        def f():
            calls.append(state["ts"])
            if fail["next"]:
                fail["next"] = False
                raise KeyboardInterrupt()
            return ("value for", state["ts"])
        last = None
        for step in range(600):
            op = rng.choice(["resize", "same", "call", "call", "invalidate", "failing-call"])
            if op == "failing-call":
                # the wrapped function is interrupted: nothing may be remembered for the terminal size of that attempt
                fail["next"] = True
                try:
                    f()
                    fail["next"] = False
                except KeyboardInterrupt:
                    last = None if last != state["ts"] else last
                except BaseException as e:      # noqa
                    problems.append(("a call of the cached function raised something the wrapped function did not", type(e).__name__, str(e)[:80]))
                    break
                continue
            if op == "resize":
                state["ts"] = rng.choice([(80, 30), (100, 40), (120, 50)])
            elif op == "invalidate":
                f._invalidate_terminal_size_cache()
                last = None
            elif op == "call":
                n = len(calls)
                try:
                    r = f()
                except BaseException as e:      # noqa
                    problems.append(("a call of the cached function raised although the wrapped function did not", type(e).__name__, str(e)[:80]))
                    break
                if r != ("value for", state["ts"]):
                    problems.append(("stale value", r, "terminal size now", state["ts"]))
                    break
                if (len(calls) != n) != (last != state["ts"]) and last is not None:
                    problems.append(("recomputed" if len(calls) != n else "not recomputed", "previous size", last, "now", state["ts"]))
                    break
                last = state["ts"]
    finally:
        U.get_terminal_size = saved
    return {"reproduced": bool(problems), "input": "600 random resize / call / failing call / invalidate steps", "observed": problems[:2]}


def toggles(m, meta):
    """query / window-size-swap toggles: every toggle that changes the setting invalidates what depends on it"""
    import term_image
    import term_image.utils as U
    problems = []
    inval = {"n": 0}
    saved = getattr(U.get_terminal_name_version, "_invalidate_cache", None)
    try:
        for fn_name in ("get_terminal_name_version", "get_fg_bg_colors"):
            f = getattr(U, fn_name)
            orig = f._invalidate_cache

            def counting(orig=orig, fn_name=fn_name):
                inval["n"] += 1
                return orig()
            setattr(f, "_invalidate_cache", counting)
        term_image.disable_queries()
        n0 = inval["n"]
        term_image.enable_queries()
        if inval["n"] == n0:
            problems.append("enable_queries() after disable_queries() did not invalidate the cached terminal answers")
        for enable, disable in ((term_image.enable_win_size_swap, term_image.disable_win_size_swap),):
            disable()
            U._cell_size_cache[:] = (80, 30, 10, 20)
            enable()
            if tuple(U._cell_size_cache) != (0, 0, 0, 0):
                problems.append("enable_win_size_swap() did not reset the cell-size cache")
            U._cell_size_cache[:] = (80, 30, 10, 20)
            enable()
            if tuple(U._cell_size_cache) != (80, 30, 10, 20):
                problems.append("a toggle that changes nothing reset the cell-size cache")
            disable()
            if tuple(U._cell_size_cache) != (0, 0, 0, 0):
                problems.append("disable_win_size_swap() did not reset the cell-size cache")
    finally:
        term_image.enable_queries()
        term_image.disable_win_size_swap()
        for fn_name in ("get_terminal_name_version", "get_fg_bg_colors"):
            f = getattr(U, fn_name)
            try:
                delattr(f, "_invalidate_cache") if False else None
            except Exception:
                pass
    return {"reproduced": bool(problems), "input": "toggle sequences", "observed": problems[:3]}


def cell_ratio(m, meta):
    """cell ratio modes: a fixed ratio is returned as set; DYNAMIC follows the cell size of the moment; FIXED is computed once"""
    import term_image
    import term_image.utils as U
    import term_image.geometry as G
    from term_image import AutoCellRatio
    problems = []
    cell = {"v": G.Size(10, 20)}
    saved = (U.get_cell_size, term_image.get_cell_size if hasattr(term_image, "get_cell_size") else None, AutoCellRatio.is_supported)
    U.get_cell_size = lambda: cell["v"]
    if hasattr(term_image, "get_cell_size"):
        term_image.get_cell_size = U.get_cell_size
    AutoCellRatio.is_supported = True
    try:
        term_image.set_cell_ratio(0.4)
        if term_image.get_cell_ratio() != 0.4:
            problems.append(("fixed value", term_image.get_cell_ratio()))
        try:
            term_image.set_cell_ratio(AutoCellRatio.DYNAMIC)
            for size in (G.Size(10, 20), G.Size(9, 18), G.Size(8, 20)):
                cell["v"] = size
                if abs(term_image.get_cell_ratio() - size.width / size.height) > 1e-12:
                    problems.append(("DYNAMIC", tuple(size), term_image.get_cell_ratio()))
            cell["v"] = G.Size(10, 20)
            term_image.set_cell_ratio(AutoCellRatio.FIXED)
            first = term_image.get_cell_ratio()
            cell["v"] = G.Size(7, 21)
            if term_image.get_cell_ratio() != first or abs(first - 0.5) > 1e-12:
                problems.append(("FIXED", first, term_image.get_cell_ratio()))
        except Exception as e:
            problems.append(("auto modes raised", type(e).__name__, str(e)[:80]))
    finally:
        U.get_cell_size = saved[0]
        if saved[1] is not None:
            term_image.get_cell_size = saved[1]
        AutoCellRatio.is_supported = saved[2]
        term_image.set_cell_ratio(0.5)
    return {"reproduced": bool(problems), "input": "cell-ratio modes with a scripted cell size", "observed": problems[:3]}
