"""C16 - Render-argument sets obey their precedence, compatibility and immutability laws.

Abstract class hierarchy (DESIGN 4.3): a render class is an object with an id; `issub(c, d)` is an uninterpreted reflexive
transitive relation; the domain of `_ALL_DEFAULT_ARGS[c]` (ancestors of c that have a namespace class) is an uninterpreted set
D(c), monotone along issub (assumed: built by RenderableMeta from the MRO).  A mapping class -> namespace is a pair of arrays."""
import ast
import z3
from pyvc.runner import unit, run_function
from pyvc.values import *
from pyvc.engine import State, LoopSpec, _b_type
from .common import *

TY = "renderable/_types.py"
I, B = z3.IntSort(), z3.BoolSort()
TRUSTED = ["class hierarchy abstraction: issub reflexive/transitive; the domain of _ALL_DEFAULT_ARGS[c] = ancestors of c with an associated namespace class, monotone along issub (RenderableMeta builds it from the MRO; multiple inheritance of render classes is outside the model)",
           "dict / MappingProxyType semantics as modelled (copy creates a new mapping; update merges; equality is extensional)"]
ASSUMPTIONS = []
NOT_DECIDED = ["what type.__new__ does with the class namespace the metaclasses hand it (slots, MRO); the metaclass bodies themselves are executed"]

ISSUB = z3.Function("issub", I, I, B)
DOM = z3.Function("in_default_args_domain", I, I, B)        # DOM(c, k): class k is a key of c._ALL_DEFAULT_ARGS
DEF = z3.Function("default_namespace", I, I)                # the default namespace (an id) of class k
RC = z3.Function("ns_render_cls", I, I)                     # associated render class of the i-th namespace given
NS = z3.Function("ns_value", I, I)                          # value (an id) of the i-th namespace given
LW = z3.Function("last_wins", I, I, I)                      # LW(k, i): what class k holds after folding the first i namespaces


def hierarchy_axioms():
    a, b, c, k = z3.Ints("ha hb hc hk")
    return [z3.ForAll([a], ISSUB(a, a)), z3.ForAll([a, b, c], z3.Implies(z3.And(ISSUB(a, b), ISSUB(b, c)), ISSUB(a, c))),
            z3.ForAll([a, b, k], z3.Implies(z3.And(ISSUB(a, b), DOM(b, k)), DOM(a, k)))]


OID = z3.Function("ns_object", I, I)                        # identity of the i-th namespace object given
DOID = z3.Function("default_namespace_object", I, I)        # identity of the (shared) default namespace object of class k
VALOF = z3.Function("value_of_object", I, I)                # an object has one value: identical objects are equal, not conversely


def new_map(st, has, val, tag="map", oid=None):
    """oid: k -> identity of the object stored under k (known for the pristine defaults map only)"""
    return st.new("nsmap", {"has": has, "val": val, "tag": tag, "oid": oid})


def map_world(eng):
    def key(s, k):
        if isinstance(k, Ref) and "cid" in s.H(k):
            return s.H(k)["cid"]
        if isinstance(k, Rec) and "cid" in k.f:
            return k.f["cid"]
        raise Unsupported(f"mapping key {k!r}")

    def copy(e, s, recv, a, k):
        s = e.fork(s)
        h = s.H(recv)
        return [(new_map(s, h["has"], h["val"], "copy", h.get("oid")), s)]

    def update(e, s, recv, a, k):
        s = e.fork(s)
        h, o = s.H(recv), s.H(a[0])
        kk = z3.Int("k!upd")
        h["val"] = z3.Lambda([kk], z3.If(o["has"][kk], o["val"][kk], h["val"][kk]))
        h["has"] = z3.Lambda([kk], z3.Or(o["has"][kk], h["has"][kk]))
        h["oid"] = None
        return [(None, s)]

    def contains(e, s, recv, a, k):
        return [(s.H(recv)["has"][key(s, a[0])], s)]

    def setitem(e, s, recv, a, k):
        h = s.H(recv)
        kk = key(s, a[0])
        v = a[1].f["id"] if isinstance(a[1], Rec) else a[1]
        h["val"] = z3.Store(h["val"], kk, to_z3(v))
        h["has"] = z3.Store(h["has"], kk, True)
        h["oid"] = None
        return [(None, s)]

    def getitem(e, s, recv, a, k):
        kk = key(s, a[0])
        outs = []
        for present, s2 in e.split(s, s.H(recv)["has"][kk]):
            if not present:
                e.raise_("KeyError", s2)
                continue
            h = s2.H(recv)
            if h.get("oid") is not None:
                o = h["oid"](kk)
                s2.pc.append(h["val"][kk] == VALOF(o))
            else:
                o = e.sym_int("some_object")
            outs.append((Rec("ArgsNamespace", {"id": h["val"][kk], "oid": o, "_RENDER_CLS": Rec("rcls", {"cid": kk, "__name__": "NsCls"})}), s2))
        return outs
    eng.methods[("nsmap", "__getitem__")] = getitem
    eng.methods.update({("nsmap", "copy"): copy, ("nsmap", "update"): update, ("nsmap", "__contains__"): contains, ("nsmap", "__setitem__"): setitem})
    eng.closed_classes.add("nsmap")
    return key


def init_unit(init_kind, first_is_namespace):
    name = f"init={init_kind}" + (",first-positional-is-a-namespace" if first_is_namespace else "")

    @unit("C16", f"_types:RenderArgs.__init__[{name}]")
    def u(ctx):
        eng = ctx.engine(f"C16/RenderArgs.__init__[{name}]", "C16")
        eng.default_replay = "C16.construct"
        st = State()
        key = map_world(eng)
        C, IC = z3.Ints("render_cls init_render_cls")
        n = z3.Int("n_namespaces")
        st.pc.append(n >= 0)
        eng.classes.update({"RenderArgs": ("RenderArgsData",), "RenderArgsData": ()})
        eng.genv["RenderArgs"] = ClassV("RenderArgs")
        eng.genv["MappingProxyType"] = Fn(lambda e, s, a, k: [(a[0], s)])
        for exc in ("IncompatibleArgsNamespaceError", "IncompatibleRenderArgsError"):
            eng.genv[exc] = ClassV(exc)
            eng.exc_parents[exc] = "RenderArgsError"
        kq = z3.Int("k!dom")
        defaults = new_map(st, z3.Lambda([kq], DOM(C, kq)), z3.Lambda([kq], DEF(kq)), "defaults-of-render_cls", oid=lambda k_: DOID(k_))
        render_cls = st.new("rcls", {"cid": C, "_ALL_DEFAULT_ARGS": defaults, "__name__": "Target"})
        BASE = st.new("RenderArgs", {"base": True})
        eng.genv["BASE_RENDER_ARGS"] = BASE
        IH, IV = z3.Lambda([kq], DOM(IC, kq)), z3.Array("init_val", I, I)   # data invariant of RenderArgs objects: domain = D(render_cls)
        init_map = new_map(st, IH, IV, "namespaces-of-init")
        init_cls = st.new("rcls", {"cid": IC, "__name__": "InitCls"})
        # compatibility established by __new__ (unit below) before __init__ runs: D(init class) is part of D(target class)
        st.ghost["Q"] = [lambda k_: z3.Implies(DOM(IC, k_), DOM(C, k_))]
        interned_c = z3.Bool("target_class_already_has_an_interned_default")
        self_ = st.new("RenderArgs", {})
        init_obj = {"none": None, "base": BASE, "interned-default": st.new("RenderArgs", {"render_cls": init_cls, "_namespaces": init_map, "interned": True}),
                    "non-default": st.new("RenderArgs", {"render_cls": init_cls, "_namespaces": init_map, "interned": False}), "self": self_}[init_kind]
        if init_kind == "self":
            st.H(self_).update({"render_cls": render_cls, "_namespaces": init_map})
        interned = st.new("interned", {"stored": None})

        def int_get(e, s, recv, a, k):
            o = a[0]
            if o is init_cls or (init_kind == "self" and o is render_cls):
                io = init_obj if (init_kind == "interned-default") else None
                return [(io, s)]
            raise Unsupported("_interned.get for another class")

        def int_contains(e, s, recv, a, k):
            return [(interned_c, s)]

        def int_set(e, s, recv, a, k):
            s.H(recv)["stored"] = (a[0], a[1])
            return [(None, s)]
        eng.methods.update({("interned", "get"): int_get, ("interned", "__contains__"): int_contains, ("interned", "__setitem__"): int_set})
        selfcls = st.new("RenderArgsCls", {"_interned": interned})
        eng.genv["type"] = Fn(lambda e, s, a, k: [(selfcls, s)] if a[0] is self_ else [(ClassV("RenderArgs"), s)])
        # isinstance(x, RenderArgs) for the objects above
        eng.classes["RenderArgsCls"] = ()

        def base_init(e, s, recv, a, k):
            s = e.fork(s)
            s.H(self_)["render_cls"], s.H(self_)["_namespaces"] = a[0], a[1]
            return [(None, s)]
        eng.genv["super"] = Fn(lambda e, s, a, k: [(Rec("super", {}), s)])
        eng.attrs[("super", "__init__")] = lambda e, s, v: [(Fn(lambda e2, s2, a, k: base_init(e2, s2, None, a, k)), s)]
        # the namespaces given, as a symbolic sequence: element i has value NS(i) and is associated with class RC(i)
        shift = 1 if first_is_namespace else 0

        def ns_elem(i, s_):
            i = to_z3(i)
            s_.ghost["Qterms"] = list(s_.ghost.get("Qterms", [])) + [RC(i + shift)]
            s_.pc.append(NS(i + shift) == VALOF(OID(i + shift)))
            return Rec("ArgsNamespace", {"id": NS(i + shift), "oid": OID(i + shift), "_RENDER_CLS": Rec("rcls", {"cid": RC(i + shift), "__name__": "NsCls"})})
        namespaces = SeqV(n, ns_elem, "tuple")
        first = Rec("ArgsNamespace", {"id": NS(z3.IntVal(0)), "_RENDER_CLS": Rec("rcls", {"cid": RC(z3.IntVal(0)), "__name__": "NsCls"})})
        eng.classes["ArgsNamespace"] = ()
        total = n + shift

        # `(init_or_namespace, *namespaces)`: prepending to a symbolic tuple
        orig_ev_tuple = eng.ev_Tuple

        def ev_Tuple(e_, s_):
            if len(e_.elts) == 2 and isinstance(e_.elts[1], ast.Starred) and getattr(e_.elts[1].value, "id", None) == "namespaces":
                (f0, s1), = eng.ev(e_.elts[0], s_)
                rest = s1.lookup("namespaces")
                if f0 is first and isinstance(rest, SeqV):
                    def el(i, s2):
                        i = to_z3(i)
                        s2.ghost["Qterms"] = list(s2.ghost.get("Qterms", [])) + [RC(i)]
                        s2.pc.append(NS(i) == VALOF(OID(i)))
                        return Rec("ArgsNamespace", {"id": NS(i), "oid": OID(i), "_RENDER_CLS": Rec("rcls", {"cid": RC(i), "__name__": "NsCls"})})
                    return [(SeqV(rest.length + 1, el, "tuple"), s1)]
            return orig_ev_tuple(e_, s_)
        eng.ev_Tuple = ev_Tuple
        non_default_init = init_kind == "non-default"
        base_val = lambda k_: z3.If(z3.And(z3.BoolVal(non_default_init), IH[k_]), IV[k_], DEF(k_))

        def inv(s, i, N):
            return z3.And(N == total, i >= 0)

        def qinv(s, i, N):
            m = s.H(s.lookup("namespaces_dict"))
            has, val = m["has"], m["val"]
            return [lambda k_: z3.And(has[k_] == DOM(C, k_), z3.Implies(DOM(C, k_), val[k_] == LW(k_, i))),
                    lambda j_: z3.Implies(z3.And(0 <= j_, j_ < i), DOM(C, RC(j_)))]

        def havoc(e, s, tag):
            m = s.H(s.lookup("namespaces_dict"))
            m["has"], m["val"] = z3.Array(f"has!{tag}", I, B), z3.Array(f"val!{tag}", I, I)
            s.env["index"] = z3.Int(f"index!{tag}")
            s.env["namespace"] = Opaque("namespace")
        # definition of the specification function `last wins` (fold of store over the namespaces given, from the base value),
        # instantiated where needed: LW(k, 0) = base(k); LW(k, i+1) = NS(i) if RC(i) == k else LW(k, i)
        def qfacts(s, i, N):
            return [lambda k_: LW(k_, i + 1) == z3.If(RC(i) == k_, NS(i), LW(k_, i))]
        eng.invariants = {1: LoopSpec(inv, havoc, qinv=qinv, qfacts=qfacts)}
        st.ghost["Q"] = st.ghost["Q"] + [lambda k_: LW(k_, 0) == base_val(k_)]
        st.env.update(self=self_, render_cls=render_cls, init_or_namespace=(first if first_is_namespace else init_obj), namespaces=namespaces)
        defaults_before = dict(st.H(defaults))
        init_before = dict(st.H(init_map))
        outs = run_function(eng, ctx.fn(TY, "RenderArgs.__init__"), st)
        for kind, val, s in outs:
            frame = And(all(s.H(defaults)[k_] is defaults_before[k_] for k_ in ("has", "val")), all(s.H(init_map)[k_] is init_before[k_] for k_ in ("has", "val")))
            eng.oblige(f"no-existing-object-altered(shared-defaults,init-set)@{kind}", s, frame, kind="exit")
            if kind == "raise":
                # rejected exactly when some constituent namespace is associated with a class outside the target's ancestry
                idx = s.lookup("index")
                s = s.fork()
                for term in s.ghost.get("Qterms", []):
                    s.pc += [to_z3(q(term)) for q in s.ghost.get("Q", [])]
                eng.oblige("rejected-only-for-an-incompatible-namespace", s, And(val.cls == "IncompatibleArgsNamespaceError", Not(DOM(C, RC(to_z3(idx)))), to_z3(idx) < total, to_z3(idx) >= 0), kind="raise")
                continue
            h = s.H(self_)
            early = "_namespaces" not in h or (init_kind == "self")
            if early:
                # nothing to initialise: only for the already-interned default of the class, or re-initialisation with itself
                only_defaults = And(total == 0, init_kind in ("none", "base", "interned-default"))
                eng.oblige("early-return-only-for-an-existing-interned-default-or-self", s, Or(And(only_defaults, interned_c), init_kind == "self"), kind="post")
                continue
            m = s.H(h["_namespaces"])
            k0, j0 = eng.sym_int("k_sk"), eng.sym_int("j_sk")
            s2 = s.fork()
            s2.pc += [to_z3(q(k0)) for q in s.ghost.get("Q", [])] + [to_z3(q(j0)) for q in s.ghost.get("Q", [])]
            eng.oblige("holds-for-each-class:last-namespace-given,else-the-initial-set's,else-the-default", s2,
                       And(h["render_cls"] is render_cls, m["has"][k0] == DOM(C, k0), z3.Implies(DOM(C, k0), m["val"][k0] == LW(k0, total))), kind="post")
            eng.oblige("accepted-only-when-every-namespace-belongs-to-the-target-class-or-an-ancestor", s2,
                       z3.Implies(z3.And(0 <= j0, j0 < total), DOM(C, RC(j0))), kind="post")
            stored = s.H(interned)["stored"]
            should_intern = And(total == 0, init_kind in ("none", "base", "interned-default"))
            eng.oblige("interned-iff-it-is-the-default-set-of-the-class", s, (stored is not None and stored[0] is render_cls and stored[1] is self_) if should_intern is True or (is_sym(should_intern)) and False else
                       (z3.If(to_z3(should_intern), z3.BoolVal(stored is not None and stored[0] is render_cls and stored[1] is self_), z3.BoolVal(stored is None))), kind="post")
        return eng.obligations
    return u


for _ik in ("none", "base", "interned-default", "non-default", "self"):
    init_unit(_ik, False)
init_unit("none", True)


@unit("C16", "spec:last-wins-lemma")
def u_lemma(ctx):
    """the specification function LW (fold of store) is 'the last namespace given for the class wins, else the base value'
    (induction step, discharged by the solver; base case by definition)"""
    from pyvc.engine import Obligation
    k, n, j, m_ = z3.Ints("k n j m")
    base = z3.Function("base_value", I, I)
    defs = [z3.ForAll([k], LW(k, 0) == base(k)),
            z3.ForAll([k, n], z3.Implies(n >= 0, LW(k, n + 1) == z3.If(RC(n) == k, NS(n), LW(k, n))))]
    def P(n_):
        return z3.And(z3.Implies(z3.ForAll([m_], z3.Implies(z3.And(0 <= m_, m_ < n_), RC(m_) != k)), LW(k, n_) == base(k)),
                      z3.ForAll([j], z3.Implies(z3.And(0 <= j, j < n_, RC(j) == k, z3.ForAll([m_], z3.Implies(z3.And(j < m_, m_ < n_), RC(m_) != k))), LW(k, n_) == NS(j))))
    return [Obligation("C16/last-wins-lemma/base", defs, P(z3.IntVal(0)), "C16", {"kind": "post"}),
            Obligation("C16/last-wins-lemma/step", defs + [n >= 0, P(n)], P(n + 1), "C16", {"kind": "post"})]


# ------------------------------------------------------------------------------------------------ __new__
@unit("C16", "_types:RenderArgs.__new__")
def u_new(ctx):
    obs = []
    for init_kind in ("none", "base", "interned-default", "non-default", "non-default-same-class", "namespace", "equal-to-the-interned-default-but-another-object"):
        for n_ns in (0, 1):
            for rel in ("same", "target-is-subclass", "unrelated"):
                if init_kind in ("none", "base", "namespace") and rel != "same":
                    continue
                eng = ctx.engine(f"C16/RenderArgs.__new__[init={init_kind},namespaces={n_ns},{rel}]", "C16")
                eng.default_replay = "C16.construct"
                st = State()
                eng.classes.update({"RenderArgs": ("RenderArgsData",), "RenderArgsData": (), "ArgsNamespace": ()})
                eng.genv["RenderArgs"] = ClassV("RenderArgs")
                for exc in ("IncompatibleArgsNamespaceError", "IncompatibleRenderArgsError"):
                    eng.genv[exc] = ClassV(exc)
                    eng.exc_parents[exc] = "RenderArgsError"
                target = st.new("rcls", {"cid": 1, "__name__": "Target"})
                init_cls = target if rel == "same" or init_kind == "non-default-same-class" else st.new("rcls", {"cid": 2, "__name__": "InitCls"})
                sub = rel in ("same", "target-is-subclass") or init_kind == "non-default-same-class"
                ROOT = st.new("rcls", {"cid": 0, "__name__": "Renderable"})
                eng.genv["issubclass"] = Fn(lambda e, s, a, k, sub=sub: [((a[0] is a[1]) or a[1] is ROOT or (a[0] is target and a[1] is init_cls and sub), s)])
                BASE = st.new("RenderArgs", {"base": True, "render_cls": ROOT})
                eng.genv["BASE_RENDER_ARGS"] = BASE
                interned_default_of_target = st.new("RenderArgs", {"render_cls": target, "interned": True})
                has_interned = z3.Bool("target_has_an_interned_default")
                # a set that compares EQUAL to the interned default of its class without being that object (built from namespaces equal to
                # the defaults): it is an ordinary, caller-owned set - identity, not equality, is what marks the shared default
                twin_default = st.new("RenderArgs", {"render_cls": init_cls, "interned": True})
                eng.methods[("RenderArgs", "__eq__")] = lambda e, s, recv, a, k: [(recv is a[0] or {recv.id, getattr(a[0], "id", None)} == {twin_default.id, init_obj.id}
                                                                                   if init_kind.startswith("equal-to") else recv is a[0], s)]
                init_obj = {"none": None, "base": BASE, "namespace": Rec("ArgsNamespace", {"id": 7}),
                            "equal-to-the-interned-default-but-another-object": st.new("RenderArgs", {"render_cls": init_cls, "interned": False}),
                            "interned-default": st.new("RenderArgs", {"render_cls": init_cls, "interned": True}),
                            "non-default": st.new("RenderArgs", {"render_cls": init_cls, "interned": False}),
                            "non-default-same-class": st.new("RenderArgs", {"render_cls": target, "interned": False})}[init_kind]
                interned = st.new("interned", {})

                def int_get(e, s, recv, a, k):
                    if init_kind == "interned-default" and a[0] is init_cls:
                        return [(init_obj, s)]
                    if init_kind.startswith("equal-to") and a[0] is init_cls:
                        return [(twin_default, s)]
                    return [(None, s)]

                def int_getitem(e, s, recv, a, k):
                    if init_kind == "interned-default" and init_cls is target:
                        return [(init_obj, s)]          # the interned default of the target class is the initial set itself
                    out = []
                    for side, s2 in e.split(s, has_interned):
                        if side:
                            out.append((interned_default_of_target, s2))
                        else:
                            e.raise_("KeyError", s2)
                    return out
                eng.methods.update({("interned", "get"): int_get, ("interned", "__getitem__"): int_getitem})
                cls = st.new("RenderArgsCls", {"_interned": interned, "cid": 100})
                fresh = st.new("RenderArgs", {"fresh": True})
                eng.genv["super"] = Fn(lambda e, s, a, k: [(Rec("super", {}), s)])
                eng.attrs[("super", "__new__")] = lambda e, s, v: [(Fn(lambda e2, s2, a, k: [(fresh, s2)]), s)]
                eng.genv["type"] = Fn(lambda e, s, a, k: [(cls, s)] if isinstance(a[0], Ref) and a[0].cls == "RenderArgs" else [(ClassV("other"), s)])
                ns = tuple(Rec("ArgsNamespace", {"id": 10 + i}) for i in range(n_ns))
                st.env.update(cls=cls, render_cls=target, init_or_namespace=init_obj, namespaces=ns)
                outs = run_function(eng, ctx.fn(TY, "RenderArgs.__new__"), st)
                is_init_ra = init_kind in ("base", "interned-default", "non-default", "non-default-same-class") or init_kind.startswith("equal-to")
                incompatible = is_init_ra and init_kind != "base" and not sub
                default_only = n_ns == 0 and init_kind in ("none", "base", "interned-default")
                for kind, val, s in outs:
                    if kind == "raise":
                        eng.oblige("rejected-exactly-when-the-initial-set's-class-is-not-an-ancestor", s, And(val.cls == "IncompatibleRenderArgsError", incompatible), kind="raise")
                        continue
                    eng.oblige("accepted-only-when-compatible", s, not incompatible or init_kind == "base", kind="post")
                    if default_only and init_kind == "interned-default" and init_cls is target:
                        eng.oblige("default-set:interned-object-reused", s, val is init_obj, kind="post")
                    elif default_only:
                        # the default set of a class exists once: the interned object if there is one, else a fresh object (to be interned by __init__)
                        eng.oblige("default-set:interned-object-reused,else-fresh", s, z3.If(has_interned, z3.BoolVal(val is interned_default_of_target), z3.BoolVal(val is fresh)), kind="post")
                    elif n_ns == 0 and (init_kind == "non-default-same-class" or (init_kind in ("non-default", "equal-to-the-interned-default-but-another-object") and init_cls is target)):
                        eng.oblige("same-class,no-namespaces:the-initial-set-itself(equal-by-construction)", s, val is init_obj, kind="post")
                    else:
                        eng.oblige("otherwise-a-new-object(never-an-existing-one)", s, val is fresh, kind="post")
                obs += eng.obligations
    return obs


# ------------------------------------------------------------------------------------------------ operators: which construction they ask for
def ops_unit(fname):
    @unit("C16", f"_types:ArgsNamespace.{fname}")
    def u(ctx):
        obs = []
        for other_kind in ("namespace", "render-args", "other"):
            for rel in ("same", "self-sub-other", "other-sub-self", "unrelated"):
                if fname in ("__pos__", "to_render_args") and (other_kind, rel) != ("namespace", "same"):
                    continue
                eng = ctx.engine(f"C16/ArgsNamespace.{fname}[other={other_kind},{rel}]", "C16")
                eng.default_replay = "C16.construct"
                st = State()
                eng.classes.update({"ArgsNamespace": (), "RenderArgs": ()})
                eng.genv.update(ArgsNamespace=ClassV("ArgsNamespace"), RenderArgs=ClassV("RenderArgs"), NotImplemented=Opaque("NotImplemented"))
                for exc in ("IncompatibleArgsNamespaceError", "IncompatibleRenderArgsError"):
                    eng.genv[exc] = ClassV(exc)
                    eng.exc_parents[exc] = "RenderArgsError"
                A = st.new("rcls", {"cid": 1, "__name__": "A"})
                Bc = A if rel == "same" else st.new("rcls", {"cid": 2, "__name__": "B"})
                def issub(x, y):
                    if x is y:
                        return True
                    if rel == "self-sub-other":
                        return x is A and y is Bc
                    if rel == "other-sub-self":
                        return x is Bc and y is A
                    return False
                eng.genv["issubclass"] = Fn(lambda e, s, a, k: [(issub(a[0], a[1]), s)])
                # `_ALL_DEFAULT_ARGS` of a render class: keyed by its ancestors (itself included) that HAVE a namespace class.  The
                # class a namespace is associated with has one; the class of a RenderArgs operand need not
                b_has_ns = True if other_kind == "namespace" or Bc is A else z3.Bool("render_args_class_has_its_own_namespace")
                for owner in {A.id: A, Bc.id: Bc}.values():
                    dm = st.new("defaultsmap", {"owner": owner})
                    st.H(owner)["_ALL_DEFAULT_ARGS"] = dm

                def dm_contains(e, s, recv, a, k):
                    owner, key = s.H(recv)["owner"], a[0]
                    return [(And(issub(owner, key), True if key is A else b_has_ns), s)]
                eng.methods[("defaultsmap", "__contains__")] = dm_contains
                self_ = st.new("ArgsNamespace", {"nsid": 1})
                self_cls = st.new("nscls", {"_RENDER_CLS": A})
                other = {"namespace": st.new("ArgsNamespace", {"nsid": 2}), "render-args": st.new("RenderArgs", {"render_cls": Bc}), "other": 5}[other_kind]
                other_cls = st.new("nscls", {"_RENDER_CLS": Bc})
                calls = []

                def new_ra(e, s, c, a, k):
                    s = e.fork(s)
                    r = s.new("RenderArgs", {"built_from": a})
                    return [(r, s)]
                eng.methods["new:RenderArgs"] = new_ra
                or_node = inline(ctx.fn(TY, "ArgsNamespace.__or__"), eng)
                eng.methods[("nscls", "__or__")] = lambda e, s, recv, a, k: e.call(or_node, tuple(a), k, s)
                # the sibling operations, should one of these call another: their real bodies (each is also a unit of its own)
                for sib in ("__pos__", "to_render_args"):
                    if sib != fname:
                        sib_node = inline(ctx.fn(TY, f"ArgsNamespace.{sib}"), eng)
                        eng.methods[("ArgsNamespace", sib)] = lambda e, s, recv, a, k, sib_node=sib_node: e.call(sib_node, (recv,) + tuple(a), k, s)
                eng.genv["type"] = Fn(lambda e, s, a, k: [((self_cls if a[0] is self_ else other_cls if a[0] is other else ClassV("int")), s)])
                st.env.update(self=self_, other=other, render_cls=None)
                outs = run_function(eng, ctx.fn(TY, f"ArgsNamespace.{fname}"), st)
                for kind, val, s in outs:
                    related = rel != "unrelated"
                    if fname in ("__pos__", "to_render_args"):
                        ok = kind == "return" and isinstance(val, Ref) and s.H(val).get("built_from") == (A, self_)
                        eng.oblige("builds-a-new-set-for-its-own-class-from-itself", s, ok, kind="post")
                        continue
                    if other_kind == "other":
                        eng.oblige("unsupported-operand:NotImplemented", s, kind == "return" and isinstance(val, Opaque), kind="post")
                        continue
                    if kind == "raise":
                        want = "IncompatibleArgsNamespaceError" if other_kind == "namespace" else "IncompatibleRenderArgsError"
                        eng.oblige("rejected-exactly-for-unrelated-classes(documented-error)", s, And(not related, val.cls == want), kind="raise")
                        continue
                    built = s.H(val).get("built_from") if isinstance(val, Ref) else None
                    # the more derived class is the target; the right operand takes precedence (it is given last)
                    target = A if rel in ("same", "self-sub-other") else Bc
                    if other_kind == "namespace":
                        if rel == "same":
                            exp = (A, other) if fname == "__or__" else (A, self_)        # `a | b` keeps b; reflected `b.__ror__(a)` computes a | b... with self on the right
                        else:
                            exp = (target, self_, other) if fname == "__or__" else None
                    else:
                        exp = (target, other, self_)
                    if exp is None:
                        # __ror__ delegates to __or__ for all other cases (documented as commutative there)
                        ok = built is not None and built[0] is target
                    else:
                        ok = built == exp
                    eng.oblige("new-set-for-the-more-derived-class;operand-precedence-as-documented", s, And(related, ok), kind="post")
                obs += eng.obligations
        return obs
    return u


for _f in ("__or__", "__ror__", "__pos__", "to_render_args"):
    ops_unit(_f)


# ------------------------------------------------------------------------------------------------ update / convert / eq / hash
@unit("C16", "_types:RenderArgs.update")
def u_update(ctx):
    obs = []
    for first in ("render-class", "namespace"):
        for extra_ns in (0, 1):
            for with_fields in (False, True):
                eng = ctx.engine(f"C16/RenderArgs.update[first={first},more-namespaces={extra_ns},fields={with_fields}]", "C16")
                eng.default_replay = "C16.construct"
                st = State()
                eng.classes.update({"RenderableMeta": (), "RenderArgs": (), "ArgsNamespace": ()})
                eng.genv.update(RenderableMeta=ClassV("RenderableMeta"), RenderArgs=ClassV("RenderArgs"))
                tgt_cls = st.new("RenderableMeta", {"cid": 1})
                any_cls = st.new("RenderableMeta", {"cid": 2})
                self_ = st.new("RenderArgs", {"render_cls": tgt_cls, "_namespaces": "M0"})
                ns_self = st.new("ArgsNamespace", {"nsid": 5})
                updated_ns = st.new("ArgsNamespace", {"nsid": 6})
                eng.methods[("RenderArgs", "__getitem__")] = lambda e, s, recv, a, k: [(ns_self, s)]
                upd_calls = []
                eng.methods[("ArgsNamespace", "update")] = lambda e, s, recv, a, k: (upd_calls.append((recv, dict(k))), [(updated_ns, s)])[1]
                # namespace -> set conversions, should update() go through them: their real bodies (units of their own above)
                ns_cls = st.new("nscls", {"_RENDER_CLS": any_cls})
                eng.genv["type"] = Fn(lambda e, s, a, k, ns_cls=ns_cls: [(ns_cls, s)] if isinstance(a[0], Ref) and a[0].cls == "ArgsNamespace" else _b_type(e, s, a, k))
                for sib in ("__pos__", "to_render_args"):
                    sib_node = inline(ctx.fn(TY, f"ArgsNamespace.{sib}"), eng)
                    eng.methods[("ArgsNamespace", sib)] = lambda e, s, recv, a, k, sib_node=sib_node: e.call(sib_node, (recv,) + tuple(a), k, s)
                eng.methods["new:RenderArgs"] = lambda e, s, c, a, k: [_mk(e, s, a)]
                # RenderArgs.__contains__ (its own contract: "this very value is what the set holds for that class"): may be true or
                # false for any namespace given - whatever it says, update() hands ALL the namespaces on, in the order given
                eng.methods[("RenderArgs", "__contains__")] = lambda e, s, recv, a, k: [(z3.Bool(f"set_already_holds_ns{s.H(a[0])['nsid']}"), s)]
                given = st.new("ArgsNamespace", {"nsid": 7})
                more = tuple(st.new("ArgsNamespace", {"nsid": 8 + i}) for i in range(extra_ns))
                fields = st.new("dict", {"@items": {"x": 1} if with_fields else {}})
                st.env.update(self=self_, render_cls_or_namespace=(any_cls if first == "render-class" else given), namespaces=more, fields=fields)
                before = dict(st.H(self_))
                outs = run_function(eng, ctx.fn(TY, "RenderArgs.update"), st)
                for kind, val, s in outs:
                    eng.oblige(f"self-not-altered@{kind}", s, all(s.H(self_)[k_] is before[k_] or s.H(self_)[k_] == before[k_] for k_ in before), kind="exit")
                    bad_mix = (first == "render-class" and extra_ns > 0) or (first == "namespace" and with_fields)
                    if kind == "raise":
                        eng.oblige("TypeError-only-for-mixed-argument-forms", s, And(val.cls == "TypeError", bad_mix), kind="raise")
                        continue
                    built = s.H(val).get("built_from") if isinstance(val, Ref) else None
                    if first == "render-class":
                        exp = (tgt_cls, self_, updated_ns)
                    else:
                        exp = (tgt_cls, self_, given) + more
                    eng.oblige("new-set=RenderArgs(own-class,self,namespaces...)", s, And(not bad_mix, built == exp), kind="post")
                obs += eng.obligations
    return obs


def _mk(e, s, a):
    s = e.fork(s)
    return s.new("RenderArgs", {"built_from": a}), s


@unit("C16", "_types:RenderArgs.convert")
def u_convert(ctx):
    obs = []
    for rel, tgt_has_args in [(r, True) for r in ("same", "target-is-child", "target-is-parent", "unrelated")] + [("target-is-parent", False), ("same", False),
                                                                                                                      ("target-is-child", False)]:
        eng = ctx.engine(f"C16/RenderArgs.convert[{rel}{'' if tgt_has_args else ',target-without-render-arguments'}]", "C16")
        eng.default_replay = "C16.construct"
        st = State()
        eng.genv["RenderArgs"] = ClassV("RenderArgs")
        own = st.new("rcls", {"cid": 1, "__name__": "Own"})
        keep, drop = st.new("rcls", {"cid": 10}), st.new("rcls", {"cid": 11})
        tgt_args = frozenset([keep]) if tgt_has_args else frozenset()
        if rel == "target-is-child":
            # a child knows every class its parent knows (the set at hand holds one namespace for each of those), plus its own
            # namespace class if it has one - if it has none, the two tables have the same size, and the result is still a NEW set
            # associated with the child
            tgt_args = frozenset([keep, drop, st.new("rcls", {"cid": 12})]) if tgt_has_args else frozenset([keep, drop])
        tgt = own if rel == "same" else st.new("rcls", {"cid": 2, "__name__": "Tgt", "_ALL_DEFAULT_ARGS": tgt_args})
        # the interned set of the root class: an existing object of ANOTHER class - never a valid result of a conversion to `tgt`
        root = st.new("rcls", {"cid": 0, "__name__": "Renderable", "_ALL_DEFAULT_ARGS": frozenset()})
        eng.genv["BASE_RENDER_ARGS"] = st.new("RenderArgs", {"render_cls": root, "_namespaces": st.new("dict", {"@items": {}})})
        if rel == "same":
            st.H(own)["_ALL_DEFAULT_ARGS"] = tgt_args
        issub = lambda x, y: x is y or (rel == "target-is-child" and x is tgt and y is own) or (rel == "target-is-parent" and x is own and y is tgt)
        eng.genv["issubclass"] = Fn(lambda e, s, a, k: [(issub(a[0], a[1]), s)])
        ns_keep, ns_drop = st.new("ArgsNamespace", {"nsid": 1}), st.new("ArgsNamespace", {"nsid": 2})
        nsmap = st.new("dict", {"@items": {keep: ns_keep, drop: ns_drop}})
        self_ = st.new("RenderArgs", {"render_cls": own, "_namespaces": nsmap})
        eng.methods["new:RenderArgs"] = lambda e, s, c, a, k: [_mk(e, s, a)]
        st.env.update(self=self_, render_cls=tgt)
        outs = run_function(eng, ctx.fn(TY, "RenderArgs.convert"), st)
        for kind, val, s in outs:
            if kind == "raise":
                eng.oblige("ValueError-exactly-for-unrelated-classes", s, And(val.cls == "ValueError", rel == "unrelated"), kind="raise")
                continue
            built = s.H(val).get("built_from") if isinstance(val, Ref) and val is not self_ else None
            if rel == "same":
                ok = val is self_
            elif rel == "target-is-child":
                ok = built == (tgt, self_)
            else:
                # to a parent: only the namespaces of classes the parent knows are carried over
                ok = built == ((tgt, ns_keep) if tgt_has_args else (tgt,))
            eng.oblige("conversion=same-object|child:init-from-self|parent:namespaces-the-parent-has", s, And(rel != "unrelated", ok), kind="post")
        obs += eng.obligations
    return obs


@unit("C16", "_types:RenderArgs.__eq__/__hash__")
def u_eq_hash(ctx):
    """equal sets hash equal: __hash__ is a function of exactly what __eq__ compares (class identity and the namespace values)"""
    eng = ctx.engine("C16/RenderArgs.__eq__/__hash__", "C16")
    eng.default_replay = "C16.construct"
    st = State()
    eng.classes["RenderArgs"] = ()
    eng.genv["RenderArgs"] = ClassV("RenderArgs")
    H = z3.Function("py_hash", I, I, I)
    VALS = z3.Function("namespace_values_of", I, I)       # tuple(mapping.values()) as a function of the mapping value (same key order per class)
    c1, c2, m1, m2 = z3.Ints("cls_a cls_b map_a map_b")
    a = st.new("RenderArgs", {"render_cls": Rec("rcls", {"cid": c1}), "_namespaces": Rec("nsmapval", {"id": m1})})
    b = st.new("RenderArgs", {"render_cls": Rec("rcls", {"cid": c2}), "_namespaces": Rec("nsmapval", {"id": m2})})
    eng.attrs[("nsmapval", "values")] = lambda e, s, v: [(Fn(lambda e2, s2, a_, k: [(Rec("valuesview", {"id": VALS(v.f["id"])}), s2)]), s)]
    eng.genv["tuple"] = Fn(lambda e, s, a_, k: [(a_[0], s)])
    PAIR = z3.Function("py_tuple_cons", I, I, I)
    LEN = z3.Function("py_len_of_mapping", I, I)
    HASH1 = z3.Function("py_hash1", I, I)

    def enc(v):
        # hash() is a function of the value: equal arguments give equal hashes (congruence); nothing else is assumed
        if isinstance(v, tuple):
            acc = z3.IntVal(len(v))
            for x in v:
                acc = PAIR(acc, enc(x))
            return acc
        if isinstance(v, Rec):
            return to_z3(v.f.get("cid", v.f.get("id")))
        return to_z3(v)
    eng.genv["hash"] = Fn(lambda e, s, a_, k: [(HASH1(enc(a_[0])), s)])
    eng.genv["len"] = Fn(lambda e, s, a_, k: [(LEN(a_[0].f["id"]), s)] if isinstance(a_[0], Rec) and a_[0].name == "nsmapval" else _unsupported("len"))
    orig_eq = eng.eq

    def eq(x, y, s=None):
        if isinstance(x, Rec) and isinstance(y, Rec) and x.name == y.name == "nsmapval":
            return x.f["id"] == y.f["id"]       # mapping equality is extensional: equal mappings are the same value
        return orig_eq(x, y, s)
    eng.eq = eq
    hs = {}
    for nm, obj in (("a", a), ("b", b)):
        s0 = st.fork()
        s0.env["self"] = obj
        for kind, val, s in run_function(eng, ctx.fn(TY, "RenderArgs.__hash__"), s0):
            hs[nm] = val
    s0 = st.fork()
    s0.env.update(self=a, other=b)
    for kind, val, s in run_function(eng, ctx.fn(TY, "RenderArgs.__eq__"), s0):
        if kind != "return":
            eng.oblige("no-exception", s, False, kind="raise")
            continue
        eng.oblige("equal-sets-hash-equal", s, Implies(val, hs["a"] == hs["b"]), kind="post")
        eng.oblige("equality=same-class-and-equal-namespaces", s, to_z3(val) == z3.And(c1 == c2, m1 == m2) if is_sym(val) else z3.BoolVal(bool(val)) == z3.And(c1 == c2, m1 == m2), kind="post")
    return eng.obligations


@unit("C16", "_types:RenderArgs.__eq__/__hash__")
def u_eq_hash_objects(ctx):
    """The same law on sets whose mappings are spelled out (two classes with namespaces): the constituent namespaces are objects with
    an identity and a value - identical objects are equal, equal objects need not be identical, and either set may hold the class's
    shared default object or a distinct object equal to it.  Whatever __hash__ looks at (values, identities, the defaults table),
    equal sets must hash equal."""
    eng = ctx.engine("C16/RenderArgs.__eq__/__hash__[objects]", "C16")
    eng.default_replay = "C16.construct"
    st = State()
    eng.classes["RenderArgs"] = ()
    eng.genv["RenderArgs"] = ClassV("RenderArgs")
    HASH1 = z3.Function("py_hash1", I, I)
    PAIR = z3.Function("py_tuple_cons", I, I, I)
    oids = {n: z3.Int(f"object_{n}") for n in ("a1", "a2", "b1", "b2", "d1", "d2")}

    def ns(n):
        return Rec("ArgsNamespace", {"id": VALOF(oids[n]), "oid": oids[n]})
    K1, K2 = st.new("rcls", {"cid": 10, "__name__": "K1"}), st.new("rcls", {"cid": 11, "__name__": "K2"})
    defaults = st.new("dict", {"@items": {K1: ns("d1"), K2: ns("d2")}})
    rc = st.new("rcls", {"cid": 1, "__name__": "C", "_ALL_DEFAULT_ARGS": defaults})
    a = st.new("RenderArgs", {"render_cls": rc, "_namespaces": st.new("dict", {"@items": {K1: ns("a1"), K2: ns("a2")}})})
    b = st.new("RenderArgs", {"render_cls": rc, "_namespaces": st.new("dict", {"@items": {K1: ns("b1"), K2: ns("b2")}})})

    def enc(v, s):
        if isinstance(v, tuple):
            acc = z3.IntVal(len(v))
            for x in v:
                acc = PAIR(acc, enc(x, s))
            return acc
        if isinstance(v, Rec) and v.name == "ArgsNamespace":
            return v.f["id"]                    # hash(namespace) is a function of its value (proved by the namespace unit)
        if isinstance(v, Ref) and v.cls == "rcls":
            return z3.IntVal(1000) + to_z3(s.H(v)["cid"])
        if isinstance(v, Ref) and v.cls in ("list", "tuple"):
            return enc(tuple(eng.iter_concrete(v, s)), s)
        if isinstance(v, (int, bool)) or is_sym(v):
            return to_z3(v)
        raise Unsupported(f"hash of {v!r}")
    eng.genv["hash"] = Fn(lambda e, s, a_, k: [(HASH1(enc(a_[0], s)), s)])
    orig_eq = eng.eq

    def eq(x, y, s=None):
        if isinstance(x, Rec) and isinstance(y, Rec) and x.name == y.name == "ArgsNamespace":
            return x.f["id"] == y.f["id"]
        return orig_eq(x, y, s)
    eng.eq = eq
    hs = {}
    for nm, obj in (("a", a), ("b", b)):
        s0 = st.fork()
        s0.env["self"] = obj
        hs[nm] = [(val, s) for kind, val, s in run_function(eng, ctx.fn(TY, "RenderArgs.__hash__"), s0) if kind == "return"]
    s0 = st.fork()
    s0.env.update(self=a, other=b)
    for kind, val, s in run_function(eng, ctx.fn(TY, "RenderArgs.__eq__"), s0):
        if kind != "return":
            eng.oblige("no-exception", s, False, kind="raise")
            continue
        eng.cover("distinct-objects-can-be-equal-sets", s, And(val, oids["a1"] != oids["b1"], oids["a1"] != oids["d1"], oids["b1"] == oids["d1"]))
        # every pair of hash paths (they split on identities when __hash__ looks at them)
        for ha, sa in hs["a"]:
            for hb, sb in hs["b"]:
                s2 = s.fork()
                s2.pc += [c for c in sa.pc + sb.pc]
                eng.oblige("equal-sets-hash-equal(also-when-one-holds-the-shared-default-object-and-the-other-an-equal-one)", s2,
                           Implies(val, ha == hb), kind="post")
    return eng.obligations


@unit("C16", "_types:ArgsNamespace.__eq__/__hash__")
def u_ns_eq_hash(ctx):
    """equal namespaces hash equal: two namespace objects whose classes are associated with the same render class (one class may be
    a subclass of the other: same fields, same association) and whose field values are equal compare equal - and then hash equal"""
    eng = ctx.engine("C16/ArgsNamespace.__eq__/__hash__", "C16")
    eng.default_replay = "C16.construct"
    st = State()
    eng.classes["ArgsNamespace"] = ()
    eng.genv["ArgsNamespace"] = ClassV("ArgsNamespace")
    ca, cb, ta, tb = z3.Ints("render_cls_a render_cls_b ns_class_a ns_class_b")
    FIELDS = ("f0", "f1")
    # data invariant of namespace classes (ArgsNamespaceMeta): classes associated with the same render class have the same fields;
    # the same class object has one association
    st.pc.append(z3.Implies(ta == tb, ca == cb))
    Ta = st.new("nscls", {"cid": ta, "_RENDER_CLS": Rec("rcls", {"cid": ca}), "_FIELDS": FIELDS})
    Tb = st.new("nscls", {"cid": tb, "_RENDER_CLS": Rec("rcls", {"cid": cb}), "_FIELDS": FIELDS})
    va, vb = [z3.Int(f"a_{f}") for f in FIELDS], [z3.Int(f"b_{f}") for f in FIELDS]
    a = st.new("ArgsNamespace", dict(zip(FIELDS, va), **{"@type": Ta, "oid": z3.Int("obj_a")}))
    b = st.new("ArgsNamespace", dict(zip(FIELDS, vb), **{"@type": Tb, "oid": z3.Int("obj_b")}))
    st.pc.append(z3.Implies(z3.Int("obj_a") == z3.Int("obj_b"), z3.And(ta == tb, *[x == y for x, y in zip(va, vb)])))      # one object: one class, one value
    eng.genv["type"] = Fn(lambda e, s, a_, k: [(s.H(a_[0])["@type"], s)])
    PAIR = z3.Function("py_tuple_cons", I, I, I)
    HASH1 = z3.Function("py_hash1", I, I)

    def enc(s, v):
        if isinstance(v, tuple):
            acc = z3.IntVal(len(v))
            for x in v:
                acc = PAIR(acc, enc(s, x))
            return acc
        if isinstance(v, Ref) and isinstance(s.H(v), list):
            return enc(s, tuple(s.H(v)))
        if isinstance(v, Rec):
            return to_z3(v.f["cid"])
        if isinstance(v, Ref) and "cid" in s.H(v):
            return 1000003 * to_z3(s.H(v)["cid"]) + 7            # a class object: its identity (kept apart from render-class ids)
        return to_z3(v)
    eng.genv["hash"] = Fn(lambda e, s, a_, k: [(HASH1(enc(s, a_[0])), s)])
    eng.genv["tuple"] = Fn(lambda e, s, a_, k: [(tuple(e.iter_concrete(a_[0], s)), s)])
    orig_cmp = eng.cmp

    def cmp(op, x, y, s=None):
        import ast as _ast
        if isinstance(op, (_ast.Is, _ast.IsNot)) and isinstance(x, Ref) and isinstance(y, Ref) and s is not None and "oid" in s.H(x) and "oid" in s.H(y):
            r = s.H(x)["oid"] == s.H(y)["oid"]
            return Not(r) if isinstance(op, _ast.IsNot) else r
        return orig_cmp(op, x, y, s)
    eng.cmp = cmp
    hs = {}
    for nm, obj in (("a", a), ("b", b)):
        s0 = st.fork()
        s0.frames = [dict(self=obj)]
        for kind, val, s in run_function(eng, ctx.fn(TY, "ArgsNamespace.__hash__"), s0):
            if kind != "return":
                eng.oblige(f"hash:no-exception:{getattr(val, 'cls', kind)}", s, False, kind="raise")
            else:
                hs[nm] = val
    s0 = st.fork()
    s0.frames = [dict(self=a, other=b)]
    for kind, val, s in run_function(eng, ctx.fn(TY, "ArgsNamespace.__eq__"), s0):
        if kind != "return":
            eng.oblige(f"eq:no-exception:{getattr(val, 'cls', kind)}", s, False, kind="raise")
            continue
        same = z3.And(ca == cb, *[x == y for x, y in zip(va, vb)])
        v_ = to_z3(val) if is_sym(val) or isinstance(val, bool) else None
        if v_ is None:
            eng.oblige("equality-is-a-boolean", s, False, kind="post")
            continue
        eng.oblige("equality=same-render-class-and-equal-field-values", s, v_ == same, kind="post")
        if "a" in hs and "b" in hs:
            eng.oblige("equal-namespaces-hash-equal", s, Implies(v_, hs["a"] == hs["b"]), kind="post")
    return eng.obligations


# ------------------------------------------------------------------------------------------------ namespace classes: definition rules
def ns_class_unit():
    @unit("C16", "_types:ArgsNamespaceMeta.__new__+ArgsDataNamespaceMeta.__new__")
    def u(ctx):
        """Defining a render-argument namespace class: the real bodies of both metaclass `__new__`s are executed (type.__new__ is the
        only callee under contract) for every combination of: one / two bases, a base with / without fields, associated / not, own
        fields or none, every field with a default or one without, no render class / a render class without / with an argument
        namespace already / something that is not a render class.  The definition is accepted exactly when it breaks none of the
        documented rules, and an accepted association is recorded on both classes."""
        import itertools as _it
        obs = []
        for n_bases, base_fields, base_assoc_how, own, all_defaults, rc in _it.product((1, 2), (False, True), (False, True, "inherited"), (False, True), (True, False),
                                                                                      ("none", "fresh", "has-args", "not-a-class")):
            # "inherited": the base is an unassociated-looking subclass (two or more levels down) of an associated class: the association
            # it sees is its ancestor's, nothing about it is in the base's own namespace
            base_assoc = bool(base_assoc_how)
            if base_assoc and not base_fields:
                continue            # an associated class has fields (data invariant established by this very function)
            if not own and not all_defaults:
                continue
            tag = f"bases={n_bases},base-fields={base_fields},base-associated={base_assoc_how},own-fields={own},defaults={'all' if all_defaults else 'one-missing'},render_cls={rc}"
            eng = ctx.engine(f"C16/namespace-class[{tag}]", "C16")
            eng.default_replay = "C16.namespace_classes"
            st = State()
            eng.genv.update(UTIL_ERRS)
            for exc, par in (("RenderArgsDataError", "RenderableError"), ("RenderArgsError", "RenderArgsDataError"), ("RenderableError", "Exception")):
                eng.genv[exc] = ClassV(exc)
                eng.exc_parents[exc] = par
            eng.classes.update({"RenderableMeta": ()})
            eng.genv["RenderableMeta"] = ClassV("RenderableMeta")
            eng.genv["MappingProxyType"] = Fn(lambda e, s, a, k: [(a[0], s)])

            def fromkeys(e, s, a, k):
                s = e.fork(s)
                return [(s.new("dict", {"@items": {n_: None for n_ in e.iter_concrete(a[0], s)}}), s)]
            eng.genv["dict"] = Namespace("dict", {"fromkeys": Fn(fromkeys)})
            sig = st.new("dict", {"@items": {"self": Opaque("parameter")}})
            eng.genv["signature"] = Fn(lambda e, s, a, k: [(Rec("signature", {"parameters": sig}), s)])
            eng.genv["Parameter"] = Namespace("Parameter", {"empty": Opaque("empty"), "VAR_POSITIONAL": 2, "VAR_KEYWORD": 4})
            base_rc = st.new("RenderableMeta", {"cid": 7, "__name__": "BaseRenderCls", "Args": None, "_ALL_DEFAULT_ARGS": st.new("dict", {"@items": {}})})
            base_fields_map = st.new("dict", {"@items": ({"x": 0} if base_fields else {})})
            base = st.new("nsclass", {"_FIELDS": base_fields_map, "_associated": base_assoc, "_RENDER_CLS": base_rc if base_assoc else None, "__name__": "Base"})
            st.H(base)["__dict__"] = st.new("dict", {"@items": ({"_FIELDS": base_fields_map, "_associated": True, "_RENDER_CLS": base_rc} if base_assoc_how is True else {})})
            bases = (base,) if n_bases == 1 else (base, st.new("nsclass", {"_FIELDS": st.new("dict", {"@items": {}}), "_associated": False, "__name__": "Other"}))
            fields = ("a", "b") if own else ()
            items = {}
            if own:
                items["__annotations__"] = fields
                items["a"] = 1
                if all_defaults:
                    items["b"] = 2
            namespace = st.new("dict", {"@items": items})
            prior = st.new("nsclass", {"__name__": "PriorArgs"})
            rcv = {"none": None, "not-a-class": 5,
                   "fresh": st.new("RenderableMeta", {"cid": 9, "__name__": "Target", "Args": None, "_ALL_DEFAULT_ARGS": st.new("dict", {"@items": {}})}),
                   "has-args": st.new("RenderableMeta", {"cid": 9, "__name__": "Target", "Args": prior, "_ALL_DEFAULT_ARGS": st.new("dict", {"@items": {}})})}[rc]
            kwargs = st.new("dict", {"@items": ({"render_cls": rcv} if rc != "none" else {})})
            data_new = inline(ctx.fn(TY, "ArgsDataNamespaceMeta.__new__"), eng)
            created = []

            def type_new(e, s, a, k):
                mcls, name_, bases_, ns_ = a[:4]
                if k:
                    raise Unsupported("keyword arguments reaching type.__new__")
                s = e.fork(s)
                own_items = dict(s.H(ns_)["@items"])
                attrs = {}
                for b_ in reversed(bases_):           # inherited class attributes (single inheritance is what is accepted)
                    attrs.update({k_: v_ for k_, v_ in s.H(b_).items() if k_ in ("_FIELDS", "_associated", "_RENDER_CLS")})
                attrs.update(own_items)
                attrs["__dict__"] = s.new("dict", {"@items": own_items})
                attrs["__qualname__"] = name_
                attrs["__name__"] = name_
                attrs["__new__"] = attrs["__init__"] = Opaque("method")
                c = s.new("nsclass", attrs)
                s.ghost["created"] = s.ghost.get("created", []) + [c]
                return [(c, s)]

            def super_(e, s, a, k):
                return [(Rec("super", {"level": s.ghost.get("level", 0)}), s)]
            eng.genv["super"] = Fn(super_)

            def super_new(e, s, v):
                if v.f["level"] == 0:
                    def call_data_new(e2, s2, a2, k2):
                        s2 = e2.fork(s2)
                        s2.ghost["level"] = 1
                        outs = e2.call(data_new, tuple(a2), k2, s2)
                        res = []
                        for val, s3 in outs:
                            s3 = e2.fork(s3)
                            s3.ghost["level"] = 0
                            res.append((val, s3))
                        return res
                    return [(Fn(call_data_new), s)]
                return [(Fn(type_new), s)]
            eng.attrs[("super", "__new__")] = super_new
            eng.methods[("nsclass", "__call__")] = lambda e, s, recv, a, k: [(Rec("instance", {"of": recv}), s)]
            st.env.update(cls=ClassV("ArgsNamespaceMeta"), name="NewArgs", bases=bases, namespace=namespace, _base=False, kwargs=kwargs)
            outs = run_function(eng, ctx.fn(TY, "ArgsNamespaceMeta.__new__"), st)
            # the documented rules
            valid = (n_bases == 1 and not (base_fields and own) and all_defaults
                     and (rc == "none" and not own or rc == "fresh" and own and not base_assoc))
            for kind, val, s in outs:
                if kind == "raise":
                    eng.oblige(f"rejected({val.cls})-only-when-a-rule-is-broken", s, And(not valid, eng.issubclass(val.cls, "RenderArgsDataError") or val.cls == "TypeError"), kind="raise")
                    eng.oblige("a-rejected-definition-leaves-the-render-class-untouched", s,
                               (not isinstance(rcv, Ref)) or (s.H(rcv)["Args"] is (prior if rc == "has-args" else None)), kind="raise")
                    continue
                eng.oblige("accepted-only-when-every-rule-is-kept(single-base,defaults-for-all-fields,no-re-association,fields-iff-associated)", s, valid, kind="post")
                if valid and isinstance(val, Ref):
                    h = s.H(val)
                    if rc == "fresh":
                        okf = isinstance(h.get("_FIELDS"), Ref) and s.H(h["_FIELDS"]).get("@items") == {"a": 1, "b": 2}
                        eng.oblige("association-recorded-on-both-classes;fields-with-their-defaults", s,
                                   And(h.get("_associated") is True, h.get("_RENDER_CLS") is rcv, s.H(rcv)["Args"] is val, okf), kind="post")
                    else:
                        eng.oblige("unassociated-subclass-stays-unassociated", s, And(h.get("_associated") is base_assoc, s.H(base_rc)["Args"] is None), kind="post")
            obs += eng.obligations
        return obs
    return u


ns_class_unit()


# ------------------------------------------------------------------------------------------------ ArgsNamespace.update: fields of one namespace
@unit("C16", "_types:ArgsNamespace.update")
def u_ns_update(ctx):
    """`ArgsNamespace.update(**fields)` (the callee `RenderArgs.update(render_cls, **fields)` relies on): for every choice of which
    known fields are given and whether an unknown name is among them - an unknown name, alone or next to known ones, is rejected with
    UnknownArgsFieldError; otherwise the result is a NEW namespace of the same class holding the given values over the current ones;
    no fields at all returns the namespace itself; the namespace updated is never altered."""
    import itertools as _it
    obs = []
    for give_a, give_b, give_unknown in _it.product((False, True), repeat=3):
        tag = f"given={'a' * give_a}{'b' * give_b}{'+unknown' * give_unknown}" if (give_a or give_b or give_unknown) else "given=nothing"
        eng = ctx.engine(f"C16/ArgsNamespace.update[{tag}]", "C16")
        eng.default_replay = "C16.ns_update"
        st = State()
        for exc, par in (("UnknownArgsFieldError", "RenderArgsError"), ("RenderArgsError", "RenderArgsDataError"), ("RenderArgsDataError", "RenderableError")):
            eng.genv[exc] = ClassV(exc)
            eng.exc_parents[exc] = par
        eng.genv["ArgsNamespace"] = ClassV("ArgsNamespace")
        cur_a, cur_b, new_a, new_b, new_u = z3.Ints("current_a current_b given_a given_b given_unknown")
        rc = st.new("RenderableMeta", {"__name__": "Target"})
        known = st.new("dict", {"@items": {"a": 0, "b": 0}})
        nscls = st.new("nscls", {"_FIELDS": known, "_RENDER_CLS": rc})
        self_ = st.new("ArgsNamespace", {"a": cur_a, "b": cur_b})
        eng.genv["type"] = Fn(lambda e, s, a, k: [(nscls, s)] if isinstance(a[0], Ref) and a[0].cls == "ArgsNamespace" else _b_type(e, s, a, k))
        eng.methods[("dict", "keys")] = lambda e, s, recv, a, k: [(frozenset(s.H(recv)["@items"]), s)]

        def as_dict(e, s, recv, a, k):
            s = e.fork(s)
            return [(s.new("dict", {"@items": {"a": s.H(recv)["a"], "b": s.H(recv)["b"]}}), s)]
        eng.methods[("ArgsNamespace", "as_dict")] = as_dict

        def ns_new(e, s, recv, a, k):
            s = e.fork(s)
            return [(s.new("ArgsNamespace", {"fresh": True, "of": a[0] if a else None}), s)]
        eng.methods[("nscls", "__new__")] = ns_new

        def super_(e, s, a, k):
            return [(Rec("super-of-ArgsNamespace", {"obj": a[1] if len(a) > 1 else None}), s)]
        eng.genv["super"] = Fn(super_)

        def base_init(e, s, v):
            def f(e2, s2, a, k):
                s2 = e2.fork(s2)
                obj = v.f["obj"]
                if not isinstance(obj, Ref) or not isinstance(a[0], Ref):
                    raise Unsupported("base __init__ call shape")
                s2.H(obj)["initialised_with"] = dict(s2.H(a[0])["@items"])
                return [(None, s2)]
            return [(Fn(f), s)]
        eng.attrs[("super-of-ArgsNamespace", "__init__")] = base_init
        items = {}
        if give_a:
            items["a"] = new_a
        if give_b:
            items["b"] = new_b
        if give_unknown:
            items["c"] = new_u
        fields = st.new("dict", {"@items": items})
        st.env.update(self=self_, fields=fields)
        before = dict(st.H(self_))
        outs = run_function(eng, ctx.fn(TY, "ArgsNamespace.update"), st)
        for kind, val, s in outs:
            eng.oblige(f"the-namespace-updated-is-not-altered@{kind}", s, all(s.H(self_).get(k_) is v_ for k_, v_ in before.items()) and set(s.H(self_)) == set(before), kind="exit")
            if kind == "raise":
                eng.oblige("rejected-only-for-an-unknown-field,with-UnknownArgsFieldError", s, And(give_unknown, val.cls == "UnknownArgsFieldError"), kind="raise")
                continue
            eng.oblige("an-unknown-field-is-never-accepted(alone-or-next-to-known-ones)", s, not give_unknown, kind="post")
            if give_unknown:
                continue
            if not (give_a or give_b):
                eng.oblige("nothing-given:the-namespace-itself", s, val is self_ or (isinstance(val, Ref) and val.id == self_.id), kind="post")
                continue
            ok = isinstance(val, Ref) and val.id != self_.id and s.H(val).get("fresh") is True and s.H(val).get("of") is nscls
            eng.oblige("a-new-namespace-of-the-same-class", s, ok, kind="post")
            got = s.H(val).get("initialised_with") if ok else None
            want = {"a": new_a if give_a else cur_a, "b": new_b if give_b else cur_b}
            eng.oblige("holds-the-given-values-over-the-current-ones,every-field,nothing-else", s,
                       got is not None and set(got) == {"a", "b"} and all(got[k_] is want[k_] for k_ in want), kind="post")
        obs += eng.obligations
    return obs
