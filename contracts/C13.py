"""C13 - Terminal attributes are always put back exactly as found."""
import z3
from pyvc.runner import unit, run_function
from pyvc.values import *
from pyvc.engine import State, LoopSpec
from . import tty
from .renderable import *
from .common import *

UTILS = "utils.py"
TRUSTED = ["termios.tcgetattr returns a fresh copy of the terminal's attribute set; tcsetattr stores a snapshot of the list it is given",
           "signals surface as exceptions at statement / call boundaries (CPython); a signal arriving while the function's own `finally` clause runs is excluded, as the property's 'before its own clean-up starts'"]
ASSUMPTIONS = ["@lock_tty is transparent (C14 is not applicable); @unix_tty_only becomes the pre-condition _tty_fd != -1"]
NOT_DECIDED = ["signals arriving inside the `finally` clause itself"]


def base_world(ctx, eng, st):
    fault = tty.install(eng)
    snap0 = tty.tty_init(st)
    g = st.new("module", {"_tty_fd": z3.Int("tty_fd"), "_queries_enabled": z3.Bool("queries_enabled"), "_query_timeout": z3.Real("query_timeout")})
    st.pc += [z3.Int("tty_fd") != -1, z3.Real("query_timeout") > 0]
    eng.globals_obj = g
    eng.async_faults = ["KeyboardInterrupt"]
    return fault, snap0


def exit_obligations(eng, outs, snap0, replay):
    for kind, val, s in outs:
        name = f"attributes-restored@{kind}" + (f":{val.cls}" if kind == "raise" else "")
        eng.oblige(name, s, tty.tty_equal(s.ghost["tty"], snap0), kind="exit", replay=replay)
    return eng.obligations


@unit(("C13", "C12"), "utils:query_terminal")
def u_query_terminal(ctx):
    eng = ctx.engine("C13/query_terminal", "C13")
    st = State()
    fault, snap0 = base_world(ctx, eng, st)
    # input that was already queued when the query starts (a late reply to an earlier, interrupted query; type-ahead): whether there
    # is any is unknown
    st.ghost["stale_input"] = z3.Bool("input_queued_before_the_query")

    def write_tty(e, s, a, k):
        # C12 ("each query receives exactly its own reply"): what was queued before must be gone when the request goes out, or the
        # read that follows takes it for (the beginning of) the reply
        e.oblige("C12:input-queued-before-the-query-is-discarded-before-the-request-is-written", s, Not(s.ghost["stale_input"]), prop="C12", kind="pre",
                 replay="C12.stale_input")
        fault(e, s)
        return [(None, s)]

    def read_tty(e, s, a, k):
        # contract of read_tty (unit below): attributes as on entry when it returns.  When it is left by an exception they are as on
        # entry too -- unless the signal arrived inside read_tty's own `finally` clause, which read_tty's guarantee excludes but which is
        # NOT query_terminal's own clean-up: then the attributes are whatever read_tty had set (arbitrary), and query_terminal's
        # `finally` is what puts them back
        fault(e, s)
        e.raise_(ExcVal("Exception"), e.fork(s), fault=True, in_cleanup_too=True)     # the caller's predicate raised
        for exc in ("KeyboardInterrupt", "OSError"):
            s2 = e.fork(s)
            tty.tty_init(s2, tag=f"left_by_read_tty_{exc}")
            e.raise_(ExcVal(exc), s2, fault=True, in_cleanup_too=True)
        return [(Opaque("response"), s)]
    eng.genv.update(write_tty=Fn(write_tty), read_tty=Fn(read_tty))
    st.env.update(request=Opaque("request"), more=Opaque("more"), timeout=None)
    outs = run_function(eng, ctx.fn(UTILS, "query_terminal"), st)
    return exit_obligations(eng, outs, snap0, "C13.query_terminal")


def read_tty_unit(mode):
    @unit("C13", f"utils:read_tty[{mode}]")
    def u(ctx, mode=mode):
        eng = ctx.engine(f"C13/read_tty[{mode}]", "C13")
        st = State()
        fault, snap0 = base_world(ctx, eng, st)
        timeout = None if mode == "drain" else z3.Real("timeout")
        mn = z3.Int("min")
        st.pc.append(mn >= 0)
        echo = z3.Bool("echo")

        def more(e, s, a, k):
            e.raise_(ExcVal("Exception"), e.fork(s), fault=True)   # caller-supplied predicate raises
            fault(e, s)
            return [(e.sym_bool("more"), s)]

        def select(e, s, a, k):
            fault(e, s)
            s = e.fork(s)
            ready = e.sym_bool("ready")
            return [((Rec("ready", {"r": 0}, valid=ready), (), ()), s)]

        def os_read(e, s, a, k):
            fault(e, s)
            return [(Opaque("bytes"), s)]

        def monotonic(e, s, a, k):
            fault(e, s)
            return [(e.sym_real("t"), s)]
        eng.genv.update(select=Fn(select), monotonic=Fn(monotonic), os=Namespace("os", {"read": Fn(os_read)}))
        eng.genv["bytearray"] = Fn(lambda e, s, a, k: [(e.fork(s).new("bytearray", {"len": 0}) if False else _new_ba(e, s))])
        eng.genv["bytes"] = Fn(lambda e, s, a, k: [(Opaque("bytes"), s)])
        eng.methods[("bytearray", "extend")] = lambda e, s, recv, a, k: [(None, s)]
        # loops: nothing they modify matters for the restore (the saved attribute list is not touched inside them);
        # the invariant states exactly that: old_attr still holds the entry snapshot
        def inv(s):
            h = s.H(s.lookup("old_attr"))
            return And(*[to_z3(tty.to_bv(x)) == y for x, y in zip(h[:4], snap0[0][:4])], *[to_z3(x) == y for x, y in zip(h[4:6], snap0[0][4:])],
                       *[to_z3(x) == y for x, y in zip(s.H(h[6]), snap0[1])])

        def havoc(e, s, tag):
            if "duration" in s.env:
                s.env["duration"] = e.sym_real("duration")
        for lid in (1, 2):
            eng.invariants[lid] = LoopSpec(inv, havoc)
        st.env.update(more=Fn(more), timeout=timeout, min=mn, echo=echo)
        outs = run_function(eng, ctx.fn(UTILS, "read_tty"), st)
        return exit_obligations(eng, outs, snap0, "C13.read_tty")
    return u


def _new_ba(e, s):
    s = e.fork(s)
    return (s.new("bytearray", {"len": 0}), s)


for _m in ("drain", "timed"):
    read_tty_unit(_m)
