"""RenderIterator under contract: world, abstract machine (DESIGN appendix B) and units shared by C08 / C09 / C10."""
import ast
import z3
from pyvc.runner import unit, run_function
from pyvc.values import *
from pyvc.engine import State, LoopSpec
from .common import *

IT = "render/_iterator.py"
I = z3.IntSort()
# R(i, w, h, dur, args): what `_render_` returns for frame i under those settings (the API contract: a function of the
# render data and arguments).  Components: duration and output of the frame.
RD = z3.Function("R_duration", I, I, I, I, I, I)
RO = z3.Function("R_output", I, I, I, I, I, I)
PW = z3.Function("padded_w", I, I, I, I)       # Padding.get_padded_size(size) per padding object id
PH = z3.Function("padded_h", I, I, I, I)
PADO = z3.Function("pad_output", I, I, I, I, I)  # Padding.pad(output, size)


def dec(x):
    return z3.If(x > 0, x - 1, x)


def frame_rec(number, duration, size, output, valid=True):
    return Rec("Frame", {"number": number, "duration": duration, "render_size": size, "render_output": output}, valid=valid)


class World:
    """objects of one RenderIterator instance; N = frame count (>= 2) or None for INDEFINITE"""

    def __init__(self, ctx, eng, st, definite=True, cached=None, closed=False):
        self.ctx, self.eng = ctx, eng
        self.definite = definite
        eng.default_replay = {"C08": "C08.histories", "C09": "C08.histories", "C10": "C10.faults"}
        ns = ctx.ns("term_image.renderable._enum")
        self.Seek, self.FrameCount, self.FrameDuration = ns.d["Seek"], ns.d["FrameCount"], ns.d["FrameDuration"]
        self.N = z3.Int("N")
        st.pc.append(self.N >= 2)
        eng.genv.update(UTIL_ERRS)
        eng.genv.update(Seek=self.Seek, FrameCount=self.FrameCount, FrameDuration=self.FrameDuration, Renderable=ClassV("Renderable"),
                        RenderArgs=ClassV("RenderArgs"), AlignedPadding=ClassV("AlignedPadding"), ExactPadding=ClassV("ExactPadding"),
                        FinalizedIteratorError=ClassV("FinalizedIteratorError"), StopDefiniteIterationError=ClassV("StopDefiniteIterationError"),
                        _Size=fn_size("Size"))
        eng.classes.update({"Seek": (), "FrameCount": (), "FrameDuration": (), "AlignedPadding": ("Padding",), "ExactPadding": ("Padding",),
                            "MyRenderable": ("Renderable",)})
        eng.int_enums = set(eng.int_enums) | {"Seek"}
        # a duration held in a symbolic integer is a number of milliseconds (> 0) or DYNAMIC, which has a reserved code
        eng.enum_codes = {("FrameDuration", "DYNAMIC"): -1000}
        eng.exc_parents.update({"FinalizedIteratorError": "RenderIteratorError", "RenderIteratorError": "TermImageError",
                                "StopDefiniteIterationError": "RenderError", "RenderError": "TermImageError",
                                "IncompatibleRenderArgsError": "RenderArgsError", "RenderArgsError": "TermImageError"})
        eng.genv["Frame"] = Fn(lambda e, s, a, k: [(frame_rec(*a), s)])
        eng.genv["DUMMY_FRAME"] = Rec("Frame", {"number": 0, "duration": 0, "render_size": size_rec(1, 1), "render_output": -1, "dummy": True})
        eng.closed_classes |= {"RenderIterator"}
        # ---- objects
        w, h, dur, fo = z3.Int("w0"), z3.Int("h0"), z3.Int("dur0"), z3.Int("frame_offset0")
        st.pc += [w >= 1, h >= 1]
        self.whence0 = None
        self.rdata = st.new("RenderableData", {"size": size_rec(w, h), "duration": dur, "frame_offset": fo, "seek_whence": self.Seek.d["START"],
                                               "iteration": True})
        self.render_data = st.new("RenderData", {"finalized": z3.Bool("data_finalized0"), "render_cls": ClassV("MyRenderable"), "fin_calls": z3.IntVal(0)})
        self.renderable = st.new("MyRenderable", {"frame_count": self.N if definite else self.FrameCount.d["INDEFINITE"], "animated": True,
                                                  "_frame": z3.Int("renderable_frame0"),
                                                  # the raw attribute behind the `frame_count` property: a renderable may postpone
                                                  # computing its frame count, the property is what resolves it
                                                  "_frame_count": self.FrameCount.d["POSTPONED"] if "POSTPONED" in self.FrameCount.d else None,
                                                  # the renderable's OWN render size: unrelated to the size this iteration renders at
                                                  # (set_render_size changes only the iteration's data)
                                                  "render_size": size_rec(z3.Int("renderable_own_w"), z3.Int("renderable_own_h"))})
        self.pad = st.new("Padding", {"pid": z3.Int("pad0")})
        self.gen = st.new("generator", {"pc": "Y1", "closed": False})
        args0 = z3.Int("args0")
        self.self_ = st.new("RenderIterator", {
            "loop": z3.Int("loop0"), "_loops": z3.Int("loops0"), "_cached": (z3.Bool("cached0") if cached is None else cached), "_closed": closed,
            "_finalize_data": z3.Bool("finalize_data0"), "_padding": self.pad, "_render_args": args0,
            "_padded_size": size_rec(PW(z3.Int("pad0"), w, h), PH(z3.Int("pad0"), w, h)),
            "_renderable": self.renderable, "_renderable_data": self.rdata, **({} if closed else {"_iterator": self.gen, "_render_data": self.render_data})})
        self.w0, self.h0, self.dur0, self.fo0, self.args0 = w, h, dur, fo, args0
        # ---- callee contracts
        eng.methods[("RenderData", "__getitem__")] = lambda e, s, recv, a, k: [(self.rdata, s)]
        eng.methods[("RenderableData", "update")] = self.rd_update
        eng.methods[("Padding", "get_padded_size")] = self.get_padded_size
        # to_exact(size): an exact padding equivalent to this one FOR THAT SIZE ONLY (another object, another padding in general)
        EXACT = z3.Function("exact_padding_for", I, I, I, I)

        def to_exact(e, s, recv, a, k):
            s = e.fork(s)
            sz = a[0]
            w_, h_ = sz.f["width"], sz.f["height"]
            pid = EXACT(to_z3(s.H(recv)["pid"]), to_z3(w_), to_z3(h_))
            s.pc += [PW(pid, w_, h_) == PW(s.H(recv)["pid"], w_, h_), PH(pid, w_, h_) == PH(s.H(recv)["pid"], w_, h_)]
            return [(s.new("ExactPadding", {"pid": pid, "relative": False, "exact_of": recv.id}), s)]
        eng.methods[("Padding", "to_exact")] = to_exact
        eng.methods[("Padding", "pad")] = lambda e, s, recv, a, k: [(PADO(s.H(recv)["pid"], to_z3(a[0]), a[1].f["width"], a[1].f["height"]), s)]
        eng.methods[("Padding", "resolve")] = self.resolve
        eng.attrs[("Padding", "relative")] = lambda e, s, v: [(s.H(v).get("relative", False), s)]
        eng.methods[("Renderable", "_render_")] = self.render
        eng.methods[("RenderData", "finalize")] = self.finalize
        eng.methods[("generator", "close")] = self.gen_close
        eng.genv["get_terminal_size"] = Fn(lambda e, s, a, k: [(Rec("terminal_size", {"columns": z3.Int("tw"), "lines": z3.Int("th")}), s)])
        self.renders = []

    # -- helpers
    def settings(self, s):
        d = s.H(self.rdata)
        it = s.H(self.self_)
        return d["size"].f["width"], d["size"].f["height"], d["duration"], it["_render_args"]

    def rd_update(self, e, s, recv, a, k):
        if a:
            raise Unsupported("positional update")
        for key in k:
            if key not in ("frame_offset", "seek_whence", "size", "duration", "iteration"):
                e.raise_(ExcVal("UnknownDataFieldError"), e.fork(s))
                return []
        s = e.fork(s)
        s.H(recv).update(k)
        s.ghost["writes"] = s.ghost.get("writes", []) + [(recv.id, key) for key in k]
        return [(None, s)]

    def get_padded_size(self, e, s, recv, a, k):
        # contract proved in C05: a function of the padding and the size; raises for relative paddings
        if s.H(recv).get("relative") is True:
            e.raise_(ExcVal("RelativePaddingDimensionError"), e.fork(s))
            return []
        sz = a[0]
        pid = s.H(recv)["pid"]
        return [(size_rec(PW(pid, sz.f["width"], sz.f["height"]), PH(pid, sz.f["width"], sz.f["height"])), s)]

    def resolve(self, e, s, recv, a, k):
        s = e.fork(s)
        r = s.new("Padding", {"pid": z3.Int("resolved_of_%d" % recv.id), "relative": False, "resolved_from": recv.id})
        return [(r, s)]

    def render(self, e, s, recv, a, k):
        """renderable._render_(render_data, render_args): R(frame_offset, size, duration, args); may stop or fail"""
        rd, args = a
        e.oblige("C10:render-data-not-finalized-at-render", s, Not(s.H(self.render_data)["finalized"]), prop="C10", kind="pre")
        d = s.H(self.rdata)
        w, h, dur = d["size"].f["width"], d["size"].f["height"], d["duration"]
        i = d["frame_offset"]
        s = e.fork(s)
        s.ghost["renders"] = s.ghost.get("renders", 0) + 1
        s.ghost["last_render"] = (i, w, h, dur, args, d["seek_whence"])
        G = s.ghost.get("G")
        if G is not None:
            # C09: ghost record (independent of the code's cache) of the settings each frame was last rendered under
            iz = to_z3(i)
            same = z3.And(G["done"][iz], G["w"][iz] == w, G["h"][iz] == h, G["dur"][iz] == dur, G["args"][iz] == args)
            e.oblige("C09:cached-frame-not-rendered-again-while-its-settings-are-unchanged", s, z3.Not(same), prop="C09", kind="pre")
            G = dict(G)
            for key, v in (("done", z3.BoolVal(True)), ("w", w), ("h", h), ("dur", dur), ("args", args)):
                G[key] = z3.Store(G[key], iz, to_z3(v))
            s.ghost["G"] = G
        e.raise_(ExcVal("StopIteration"), e.fork(s))
        e.raise_(ExcVal("Boom"), e.fork(s))
        if self.definite:
            return [(frame_rec(i, RD(i, w, h, dur, args), size_rec(w, h), RO(i, w, h, dur, args)), s)]
        return [(frame_rec(e.sym_int("indef_no"), RD(i, w, h, dur, args), size_rec(w, h), RO(i, w, h, dur, args)), s)]

    def finalize(self, e, s, recv, a, k):
        # RenderData.finalize contract (verified in C10 on the real body): finalized afterwards; the hook runs at most once
        s = e.fork(s)
        h = s.H(recv)
        h["fin_calls"] = h["fin_calls"] + z3.If(to_z3(h["finalized"]), 0, 1)
        h["finalized"] = z3.BoolVal(True)
        return [(None, s)]

    def gen_close(self, e, s, recv, a, k):
        if getattr(self, "generator_may_be_running", False):
            # close() called from inside a frame render (a callback of the renderable): the generator is executing and refuses
            s1 = e.fork(s)
            s1.ghost["generator_refused"] = True
            e.raise_(ExcVal("ValueError", ("generator already executing",)), s1)
        s = e.fork(s)
        s.H(recv)["closed"] = True
        return [(None, s)]


# =====================================================================================================
# `_iterate`: interleaved generator (DESIGN 2.3 "Generators", appendix B)
# =====================================================================================================
CACHE_FIELDS = ("num", "dur", "rw", "rh", "out", "sw", "sh", "sdur", "sargs")


def cache_arrays(tag):
    a = {k: z3.Array(f"c_{k}!{tag}", I, I) for k in CACHE_FIELDS}
    a["valid"] = z3.Array(f"c_valid!{tag}", I, z3.BoolSort())
    return a


def ghost_arrays(tag):
    G = {k: z3.Array(f"G_{k}!{tag}", I, I) for k in ("w", "h", "dur", "args")}
    G["done"] = z3.Array(f"G_done!{tag}", I, z3.BoolSort())
    return G


def cache_inv(a, N, G=None):
    i = z3.Int("ci")
    body = z3.Implies(a["valid"][i],
                      z3.And(a["num"][i] == i, a["rw"][i] == a["sw"][i], a["rh"][i] == a["sh"][i],
                             a["dur"][i] == RD(i, a["sw"][i], a["sh"][i], a["sdur"][i], a["sargs"][i]),
                             a["out"][i] == RO(i, a["sw"][i], a["sh"][i], a["sdur"][i], a["sargs"][i])))
    if G is not None:
        # the cache holds exactly the last render of each frame, under the settings it was rendered with
        body = z3.And(body, a["valid"][i] == G["done"][i],
                      z3.Implies(G["done"][i], z3.And(a["sw"][i] == G["w"][i], a["sh"][i] == G["h"][i], a["sdur"][i] == G["dur"][i], a["sargs"][i] == G["args"][i])))
    return z3.ForAll([i], z3.Implies(z3.And(0 <= i, i < N), body))


def iterate_unit(mode):
    """mode: 'definite-cached' | 'definite-uncached' | 'indefinite'"""
    @unit(("C08", "C09", "C10"), f"_iterator:RenderIterator._iterate[{mode}]")
    def u(ctx, mode=mode):
        definite = mode != "indefinite"
        cached = mode == "definite-cached"
        eng = ctx.engine(f"C08/_iterate[{mode}]", "C08")
        eng.inv_props = ("C08", "C09", "C10") if cached else ("C08", "C10")
        st = State()
        W = World(ctx, eng, st, definite=definite, cached=cached)
        N = W.N if definite else z3.IntVal(1)
        self_, rdata = W.self_, W.rdata
        H = lambda s, r: s.H(r)
        START, CURRENT, END = (W.Seek.d[n] for n in ("START", "CURRENT", "END"))
        WH = {START: 0, CURRENT: 1, END: 2}

        def wh_code(v):
            return v if is_sym(v) else z3.IntVal(WH[v])

        # the cache list
        def cl_get(e, s, recv, a, k):
            i = to_z3(a[0])
            e.oblige("cache-index-in-bounds", s, z3.And(i >= 0, i < N), kind="safety", prop="C09")
            c = H(s, recv)["a"]
            fr = frame_rec(c["num"][i], c["dur"][i], size_rec(c["rw"][i], c["rh"][i]), c["out"][i], valid=c["valid"][i])
            return [((fr, size_rec(c["sw"][i], c["sh"][i]), c["sdur"][i], c["sargs"][i]), s)]

        def cl_set(e, s, recv, a, k):
            i, tup = to_z3(a[0]), a[1]
            e.oblige("cache-index-in-bounds", s, z3.And(i >= 0, i < N), kind="safety", prop="C09")
            fr, size, dur, args = tup
            if not isinstance(fr, Rec):
                raise Unsupported("cache entry shape")
            c = dict(H(s, recv)["a"])
            vals = dict(valid=to_z3(fr.valid), num=fr.f["number"], dur=fr.f["duration"], rw=fr.f["render_size"].f["width"],
                        rh=fr.f["render_size"].f["height"], out=fr.f["render_output"], sw=size.f["width"], sh=size.f["height"], sdur=dur, sargs=args)
            for key, v in vals.items():
                c[key] = z3.Store(c[key], i, to_z3(v))
            H(s, recv)["a"] = c
            return [(None, s)]
        eng.methods[("cachelist", "__getitem__")] = cl_get
        eng.methods[("cachelist", "__setitem__")] = cl_set
        eng.methods[("cachelist", "__bool__")] = lambda e, s, recv, a, k: [(True, s)]   # len = frame_count >= 1
        clist = st.new("cachelist", {"a": None})

        def list_repeat(e, s, items, n):
            if items != ((None, None, None, None),):
                raise Unsupported("cache initialiser shape")
            e.oblige("cache-length=frame-count", s, to_z3(n) == N, prop="C09", kind="safety")
            s = e.fork(s)
            a = {k: z3.K(I, z3.IntVal(-1)) for k in CACHE_FIELDS}
            a["valid"] = z3.K(I, z3.BoolVal(False))
            H(s, clist)["a"] = a
            G = {k: z3.K(I, z3.IntVal(-1)) for k in ("w", "h", "dur", "args")}
            G["done"] = z3.K(I, z3.BoolVal(False))
            s.ghost["G"] = G
            return [(clist, s)]
        eng.list_repeat_hook = list_repeat

        def psize_ok(s):
            w, h = H(s, rdata)["size"].f["width"], H(s, rdata)["size"].f["height"]
            p = H(s, self_)["_padding"]
            ps = H(s, self_)["_padded_size"]
            pid = H(s, p)["pid"]
            return z3.And(ps.f["width"] == PW(pid, w, h), ps.f["height"] == PH(pid, w, h))

        def havoc_settings(e, s, tag, rely=True):
            d = H(s, rdata)
            fo = z3.Int(f"fo!{tag}")
            d["frame_offset"] = fo
            w, h = z3.Int(f"w!{tag}"), z3.Int(f"h!{tag}")
            d["size"] = size_rec(w, h)
            d["duration"] = z3.Int(f"dur!{tag}")
            it = H(s, self_)
            it["_render_args"] = z3.Int(f"args!{tag}")
            p = s.new("Padding", {"pid": z3.Int(f"pad!{tag}")})
            it["_padding"] = p
            it["_padded_size"] = size_rec(z3.Int(f"psw!{tag}"), z3.Int(f"psh!{tag}"))
            if not definite:
                whc = z3.Int(f"whence!{tag}")
                d["seek_whence"] = whc
                if rely:
                    s.pc += [whc >= 0, whc <= 2]
            if rely:
                # rely = conjunction of the post-conditions of the public operations on the representation
                s.pc += [w >= 1, h >= 1, psize_ok(s)]
                if definite:
                    s.pc += [0 <= fo, fo <= N]
            return s

        def on_yield(e, node, v, s):
            s = e.fork(s)
            tag = f"y{next(e.fresh)}"
            it, d = H(s, self_), H(s, rdata)
            if v.f.get("dummy"):
                # Y0: initialisation complete; control operations may run before the first next()
                e.oblige("Y0/C08:starts-at-frame-0", s, Eq(d["frame_offset"], 0), prop="C08", kind="yield")
                havoc_settings(e, s, tag)
                if definite:
                    s.pc.append(d["frame_offset"] < N)      # a seek keeps [0, N); otherwise still 0
            else:
                w, h, dur, args = W.settings(s)
                ps, p = it["_padded_size"], it["_padding"]
                pid = H(s, p)["pid"]
                unp = z3.And(ps.f["width"] == w, ps.f["height"] == h)
                if definite:
                    gf, gl = s.ghost["g_from"], s.ghost["g_L"]
                    m = z3.If(gf < N, gf, 0)
                    expL = z3.If(gf < N, gl, dec(gl))
                    num_ok = v.f["number"] == m
                else:
                    m = s.ghost["g_from"]
                    num_ok = True
                rdur, rout = RD(m, w, h, dur, args), RO(m, w, h, dur, args)
                raw = And(num_ok, v.f["duration"] == rdur, Eq(v.f["render_size"], (w, h)), v.f["render_output"] == rout)
                padded = And(num_ok, v.f["duration"] == rdur, Eq(v.f["render_size"], ps), v.f["render_output"] == PADO(pid, rout, w, h))
                e.oblige("Y1/C09:frame=fresh-render-of-current-settings(padded-iff-size-differs)", s, z3.If(unp, to_z3(raw), to_z3(padded)), prop="C09", kind="yield")
                e.oblige("Y1/C08:frame(number,duration,size,output)=model", s, z3.If(unp, to_z3(raw), to_z3(padded)), prop="C08", kind="yield")
                if definite:
                    e.oblige("Y1/C08:frame-number=model", s, to_z3(s.lookup("frame_no")) == m, prop="C08", kind="yield")
                    e.oblige("Y1/C08:loop-countdown=model", s, z3.And(it["loop"] == expL, expL != 0), prop="C08", kind="yield")
                    e.oblige("Y1/C08:next=model+1", s, d["frame_offset"] == m + 1, prop="C08", kind="yield")
                    rend = s.ghost.get("renders", 0)
                    if cached:
                        a0 = s.ghost["cache_at_resume"]
                        hit = z3.And(a0["valid"][m], a0["sw"][m] == w, a0["sh"][m] == h, a0["sdur"][m] == dur, a0["sargs"][m] == args)
                        e.oblige("Y1/C09:cached-frame-not-rendered-again-while-settings-unchanged", s, rend == z3.If(hit, 0, 1), prop="C09", kind="yield")
                    else:
                        e.oblige("Y1/C09:uncached-renders-once-per-frame", s, rend == 1, prop="C09", kind="yield")
                else:
                    lr = s.ghost.get("last_render")
                    seen = lr is not None and And(Eq(lr[0], s.ghost["g_from"]), Eq(wh_code(lr[5]), s.ghost["g_wh"]))
                    e.oblige("Y1/C08:pending-seek-handed-to-renderable-once-then-reset", s,
                             And(seen, s.ghost.get("renders", 0) == 1, Eq(d["frame_offset"], 0), Eq(wh_code(d["seek_whence"]), 1)), prop="C08", kind="yield")
                havoc_settings(e, s, tag)
            # resumption: capture what the abstract machine calls `next` and the loop countdown
            s.ghost["g_from"] = H(s, rdata)["frame_offset"]
            s.ghost["g_wh"] = wh_code(H(s, rdata)["seek_whence"])
            s.ghost["g_L"] = to_z3(s.lookup("loop"))
            s.ghost["renders"] = 0
            s.ghost["last_render"] = None
            if cached:
                s.ghost["cache_at_resume"] = dict(H(s, clist)["a"])
            return [(None, s)]
        eng.on_yield = on_yield

        def common(s, inner):
            it, d = H(s, self_), H(s, rdata)
            fo, fn_, lp = d["frame_offset"], to_z3(s.lookup("frame_no")), to_z3(s.lookup("loop"))
            gf, gl = s.ghost["g_from"], s.ghost["g_L"]
            w, h = d["size"].f["width"], d["size"].f["height"]
            rd_ = H(s, W.render_data)
            parts = [it["loop"] == lp, w >= 1, h >= 1, psize_ok(s), gl != 0, z3.Not(to_z3(rd_["finalized"])), rd_["fin_calls"] == 0]
            if definite:
                D1 = z3.And(fn_ == gf, lp == gl)
                D2 = z3.And(gf >= N, fn_ == 0, lp == dec(gl))
                parts += [fo == fn_, z3.Or(D1, D2), 0 <= gf, gf <= N, fn_ >= 0, s.ghost["renders"] == 0]
                if cached:
                    a, a0 = H(s, clist)["a"], s.ghost["cache_at_resume"]
                    parts += [cache_inv(a, N, s.ghost["G"]), *[a[k] == a0[k] for k in a]]
            else:
                parts += [fn_ == 0, lp == gl, Eq(fo, gf), Eq(wh_code(d["seek_whence"]), s.ghost["g_wh"]), s.ghost["renders"] == 0]
            if inner:
                parts.append(lp != 0)
            return z3.And(*[to_z3(p) for p in parts])

        def havoc_loop(e, s, tag):
            for nm in ("frame_no", "loop"):
                s.env[nm] = z3.Int(f"{nm}!{tag}")
            for nm in ("frame", "cache_entry", "frame_details"):
                s.env[nm] = Opaque(nm)
            H(s, self_)["loop"] = z3.Int(f"self.loop!{tag}")
            s.ghost["g_from"], s.ghost["g_L"], s.ghost["g_wh"] = z3.Int(f"g_from!{tag}"), z3.Int(f"g_L!{tag}"), z3.Int(f"g_wh!{tag}")
            s.ghost["renders"] = 0
            s.ghost["last_render"] = None
            if cached:
                H(s, clist)["a"] = cache_arrays(tag)
                s.ghost["cache_at_resume"] = dict(H(s, clist)["a"])
                s.ghost["G"] = ghost_arrays(tag)
            havoc_settings(e, s, tag, rely=False)
        import ast as _ast
        fnode = ctx.fn(IT, "RenderIterator._iterate")
        wloops = sorted([x for x in _ast.walk(fnode) if isinstance(x, _ast.While)], key=lambda x: (x.lineno, x.col_offset))
        KNOWN = {"frame_no", "loop", "frame", "cache_entry", "frame_details"}

        def with_unknown(lid):
            unknown = unknown_loop_locals(fnode, wloops[lid - 1], KNOWN) if lid <= len(wloops) else {}

            def hv(e, s, tag):
                havoc_loop(e, s, tag)
                return havoc_unknown_locals(e, [s], unknown, tag)
            return hv
        eng.invariants = {1: LoopSpec(lambda s: common(s, False), with_unknown(1)), 2: LoopSpec(lambda s: common(s, True), with_unknown(2))}
        # ---- entry state (as left by _init): loop != 0
        H(st, self_)["_closed"] = False
        st.pc.append(H(st, self_)["loop"] != 0)
        # fresh data from _init_render_, or checked by _from_render_data_; only close() finalizes, and it closes the generator first
        st.pc.append(z3.Not(H(st, W.render_data)["finalized"]))
        if not definite:
            st.pc.append(H(st, self_)["loop"] == 1)
        for k in ("_render_data", "_render_args", "_renderable_data", "_padded_size", "_iterator"):
            H(st, self_).pop(k, None)
        st.ghost.update(g_from=z3.IntVal(0), g_L=z3.IntVal(0), g_wh=z3.IntVal(0), renders=0, last_render=None, writes=[])
        st.env.update(self=self_, render_data=W.render_data, render_args=W.args0)
        outs = run_function(eng, ctx.fn(IT, "RenderIterator._iterate"), st)
        for kind, val, s in outs:
            it = H(s, self_)
            if kind in ("normal", "return"):
                if definite:
                    gf, gl = s.ghost["g_from"], s.ghost["g_L"]
                    eng.oblige("return/C08:stops-exactly-when-the-last-loop-is-exhausted", s, z3.And(gf >= N, dec(gl) == 0, it["loop"] == 0), prop="C08", kind="exit")
                else:
                    eng.oblige("return/C08:indefinite-ends-with-loop=0-only-when-the-renderable-stops", s,
                               And(it["loop"] == 0, s.ghost.get("renders", 0) == 1), prop="C08", kind="exit")
            elif kind == "raise":
                ok = val.cls in (("StopDefiniteIterationError", "Boom") if definite else ("Boom",))
                eng.oblige(f"raise:{val.cls}/C08:only-render-errors-escape", s, ok, prop="C08", kind="raise")
            # the generator itself never finalizes the render data: close() does, after closing the generator, and only data it owns
            rd_ = s.H(W.render_data)
            eng.oblige(f"C10:_iterate-leaves-finalization-to-close()@{kind}", s, And(Not(rd_["finalized"]), rd_["fin_calls"] == 0), prop="C10", kind="exit")
            # frame: the iterator never moves the renderable's own current frame
            wr = [x for x in s.ghost.get("writes", []) if x[0] == W.renderable.id]
            eng.oblige("frame/C08:renderable-untouched", s, not wr and Eq(H(s, W.renderable)["_frame"], z3.Int("renderable_frame0")), prop="C08", kind="exit")
        return eng.obligations
    return u


for _m in ("definite-cached", "definite-uncached", "indefinite"):
    iterate_unit(_m)


# =====================================================================================================
# control operations: one contract per public operation against the abstract machine
# =====================================================================================================
def snapshot(W, s):
    it, d = s.H(W.self_), s.H(W.rdata)
    return dict(fo=d["frame_offset"], wh=d["seek_whence"], size=d["size"], dur=d["duration"], args=it["_render_args"], pad=it["_padding"],
                psize=it["_padded_size"], loop=it["loop"], closed=it["_closed"], fin=s.H(W.render_data)["finalized"],
                calls=s.H(W.render_data)["fin_calls"], frame=s.H(W.renderable)["_frame"])


def same_state(W, s, snap, except_=()):
    now = snapshot(W, s)
    return And(*[(now[k] is snap[k]) if isinstance(snap[k], (Ref, EnumV, bool)) or snap[k] is None else Eq(now[k], snap[k]) for k in snap if k not in except_])


def op_unit(name, cases):
    @unit(("C08", "C10"), f"_iterator:RenderIterator.{name}")
    def u(ctx, name=name, cases=cases):
        obs = []
        for label, setup in cases:
            for closed in (False, True):
                eng = ctx.engine(f"C08/{name}[{label},{'closed' if closed else 'open'}]", "C08")
                st = State()
                definite = "indefinite" not in label
                W = World(ctx, eng, st, definite=definite, closed=closed)
                st.pc += [W.fo0 >= 0] + ([W.fo0 <= W.N] if definite else [])
                st.ghost["writes"] = []
                args, check = setup(W, eng, st)
                st.env.update(self=W.self_, **args)
                snap = snapshot(W, st)
                outs = run_function(eng, ctx.fn(IT, f"RenderIterator.{name}"), st)
                for kind, val, s in outs:
                    if closed:
                        # operations on a finalized iterator are rejected without changing state
                        ok = kind == "raise" and val.cls == "FinalizedIteratorError"
                        eng.oblige("closed:rejected-with-FinalizedIteratorError,state-unchanged", s, And(ok, same_state(W, s, snap)), prop="C10", kind="exit")
                        eng.oblige("closed:rejected-with-FinalizedIteratorError,state-unchanged(C08)", s, And(ok, same_state(W, s, snap)), prop="C08", kind="exit", replay="C10.faults")
                        continue
                    check(eng, kind, val, s, snap)
                    wr = [x for x in s.ghost.get("writes", []) if x[0] == W.renderable.id]
                    eng.oblige("frame:renderable-untouched", s, not wr and Eq(s.H(W.renderable)["_frame"], snap["frame"]), prop="C08", kind="exit")
                obs += eng.obligations
        return obs
    return u


def seek_cases():
    out = []
    for kind in ("definite", "indefinite"):
        for wh in ("START", "CURRENT", "END"):
            def setup(W, eng, st, wh=wh, kind=kind):
                off = z3.Int("offset")
                whence = W.Seek.d[wh]

                def check(eng, k, val, s, snap):
                    d = s.H(W.rdata)
                    if kind == "definite":
                        f = {"START": off, "CURRENT": snap["fo"] + off, "END": W.N + off - 1}[wh]      # documented seek semantics
                        in_range = And(0 <= f, f < W.N)
                        if k == "raise":
                            eng.oblige("out-of-range:ValueError,state-unchanged", s, And(val.cls == "ValueError", Not(in_range), same_state(W, s, snap)), prop="C08", kind="raise")
                        else:
                            eng.oblige("in-range:next=target,no-loop-consumed", s, And(in_range, Eq(d["frame_offset"], f), same_state(W, s, snap, ("fo", "wh"))), prop="C08", kind="post")
                    else:
                        bad = Or(And(wh == "START", off < 0), And(wh == "END", off > 0))
                        if k == "raise":
                            eng.oblige("indefinite:invalid-offset:ValueError,state-unchanged", s, And(val.cls == "ValueError", bad, same_state(W, s, snap)), prop="C08", kind="raise")
                        else:
                            eng.oblige("indefinite:pending-seek-recorded", s, And(Not(bad), Eq(d["frame_offset"], off), d["seek_whence"] is whence,
                                                                                  same_state(W, s, snap, ("fo", "wh"))), prop="C08", kind="post")
                return dict(offset=off, whence=whence), check
            out.append((f"{kind},{wh}", setup))
    return out


def dur_cases():
    def setup_int(W, eng, st):
        d = z3.Int("duration")
        st.pc += [d != c for c in eng.enum_codes.values()]       # a genuine integer (the reserved code stands for DYNAMIC: next case)

        def check(eng, k, val, s, snap):
            if k == "raise":
                eng.oblige("non-positive:ValueError,state-unchanged", s, And(val.cls == "ValueError", d <= 0, same_state(W, s, snap)), prop="C08", kind="raise")
            else:
                eng.oblige("duration-applies-from-next-frame", s, And(d > 0, Eq(s.H(W.rdata)["duration"], d), same_state(W, s, snap, ("dur",))), prop="C08", kind="post")
        return dict(duration=d), check

    def setup_enum(W, eng, st):
        member = W.FrameDuration.d["DYNAMIC"]

        def check(eng, k, val, s, snap):
            eng.oblige("dynamic-duration-stored", s, And(k != "raise", s.H(W.rdata)["duration"] is member, same_state(W, s, snap, ("dur",))), prop="C08", kind="post")
        return dict(duration=member), check
    return [("int", setup_int), ("DYNAMIC", setup_enum)]


def size_cases():
    def setup(W, eng, st):
        w, h = z3.Ints("new_w new_h")
        st.pc += [w >= 1, h >= 1]

        def check(eng, k, val, s, snap):
            it = s.H(W.self_)
            pid = s.H(snap["pad"])["pid"]
            eng.oblige("size-and-padded-size-updated-together", s,
                       And(k != "raise", Eq(s.H(W.rdata)["size"], (w, h)), Eq(it["_padded_size"], (PW(pid, w, h), PH(pid, w, h))),
                           same_state(W, s, snap, ("size", "psize"))), prop="C08", kind="post")
        return dict(render_size=size_rec(w, h)), check

    def setup_aligned(W, eng, st):
        """the padding in effect is an AlignedPadding with absolute minimum dimensions: its padded size is max(minimum, render size)
        per axis (contract of AlignedPadding.get_padded_size, C05) - whatever the new render size is, on both axes independently"""
        mw, mh = z3.Ints("min_w min_h")
        st.pc += [mw >= 1, mh >= 1]
        pad = st.new("AlignedPadding", {"pid": z3.Int("pad0"), "relative": False, "width": mw, "height": mh, "size": size_rec(mw, mh)})
        eng.classes.setdefault("AlignedPadding", ("Padding",))
        eng.genv["AlignedPadding"] = ClassV("AlignedPadding")
        eng.genv["_Size"] = fn_size("Size")
        st.H(W.self_)["_padding"] = pad
        W.pad = pad
        mx = lambda x, y: z3.If(to_z3(x) > to_z3(y), to_z3(x), to_z3(y))
        eng.methods[("AlignedPadding", "get_padded_size")] = lambda e, s, recv, a, k: [(size_rec(mx(a[0].f["width"], mw), mx(a[0].f["height"], mh)), s)]
        st.H(W.self_)["_padded_size"] = size_rec(mx(W.w0, mw), mx(W.h0, mh))
        w, h = z3.Ints("new_w new_h")
        st.pc += [w >= 1, h >= 1]

        def check(eng, k, val, s, snap):
            it = s.H(W.self_)
            eng.oblige("size-and-padded-size-updated-together(padded-size=max-of-minimum-and-render-size-per-axis)", s,
                       And(k != "raise", Eq(s.H(W.rdata)["size"], (w, h)), Eq(it["_padded_size"], (mx(w, mw), mx(h, mh))),
                           same_state(W, s, snap, ("size", "psize"))), prop="C08", kind="post", replay="C08.set_padding")
        return dict(render_size=size_rec(w, h)), check
    return [("size", setup), ("size,aligned-padding-in-effect", setup_aligned)]


def padding_cases():
    out = []
    for kind in ("exact", "aligned-absolute", "aligned-relative", "the-padding-already-in-effect"):
        def setup(W, eng, st, kind=kind):
            rel = kind == "aligned-relative"
            if kind == "the-padding-already-in-effect":
                p = W.pad              # the very object the iterator holds: still an operation on the iterator (rejected once it is closed)
                st.H(p).setdefault("relative", False)
            else:
                p = st.new("AlignedPadding" if kind.startswith("aligned") else "ExactPadding", {"pid": z3.Int("newpad"), "relative": rel})

            def check(eng, k, val, s, snap):
                it = s.H(W.self_)
                w, h = snap["size"].f["width"], snap["size"].f["height"]
                if k == "raise":
                    # no documented error for a valid padding: a relative padding is resolved against the terminal size
                    eng.oblige(f"no-exception:{val.cls}", s, False, prop="C08", kind="raise", replay="C08.set_padding")
                    return
                newp = it["_padding"]
                if rel:
                    ok = isinstance(newp, Ref) and s.H(newp).get("resolved_from") == p.id
                else:
                    ok = newp is p
                pid = s.H(newp)["pid"] if isinstance(newp, Ref) else z3.IntVal(-1)
                eng.oblige("padding(resolved)-and-padded-size-updated-together", s,
                           And(ok, Eq(it["_padded_size"], (PW(pid, w, h), PH(pid, w, h))), same_state(W, s, snap, ("pad", "psize"))), prop="C08", kind="post",
                           replay="C08.set_padding")
            return dict(padding=p), check
        out.append((kind, setup))
    return out


def args_cases():
    out = []
    # the args' render class relative to the renderable's class: compatible iff it is that class or one of its parents
    # (C16); a proper SUBCLASS of the renderable's class, like an unrelated class, is incompatible
    for kind in ("same-class", "parent-class", "incompatible", "incompatible:child-class"):
        def setup(W, eng, st, kind=kind):
            incompatible = kind.startswith("incompatible")
            cname = {"same-class": "MyRenderable", "parent-class": "ParentRenderable", "incompatible": "OtherRenderable",
                     "incompatible:child-class": "ChildRenderable"}[kind]
            eng.classes.update({"ParentRenderable": ("Renderable",), "MyRenderable": ("ParentRenderable",), "OtherRenderable": ("Renderable",),
                                "ChildRenderable": ("MyRenderable",)})
            cls = ClassV(cname)
            ra = st.new("RenderArgs", {"render_cls": cls, "aid": z3.Int("new_args")})
            CONV = z3.Function("convert_args", I, I)

            def new_ra(e, s, c, a, k):
                # RenderArgs(render_cls, init): C16 contract - accepted iff compatible, otherwise IncompatibleRenderArgsError
                if incompatible:
                    e.raise_(ExcVal("IncompatibleRenderArgsError"), e.fork(s))
                    return []
                s = e.fork(s)
                return [(s.new("RenderArgs", {"render_cls": a[0], "aid": CONV(s.H(a[1])["aid"])}), s)]
            eng.methods["new:RenderArgs"] = new_ra
            eng.genv["type"] = Fn(lambda e, s, a, k: [(ClassV(a[0].cls) if isinstance(a[0], Ref) else None, s)])

            def check(eng, k, val, s, snap):
                it = s.H(W.self_)
                if k == "raise":
                    eng.oblige("incompatible:rejected,state-unchanged", s, And(incompatible, val.cls == "IncompatibleRenderArgsError", same_state(W, s, snap)), prop="C08", kind="raise")
                    return
                got = it["_render_args"]
                if kind == "same-class":
                    ok = got is ra
                else:
                    ok = isinstance(got, Ref) and s.H(got)["render_cls"].name == "MyRenderable" and Eq(s.H(got)["aid"], CONV(z3.Int("new_args")))
                eng.oblige("args-applied(converted-to-the-renderable-class)", s, And(not incompatible, ok, same_state(W, s, snap, ("args",))), prop="C08", kind="post")
            return dict(render_args=ra), check
        out.append((kind, setup))
    return out


op_unit("seek", seek_cases())
op_unit("set_frame_duration", dur_cases())
op_unit("set_render_size", size_cases())
op_unit("set_padding", padding_cases())
op_unit("set_render_args", args_cases())


# =====================================================================================================
# close / __next__ / construction (C10 typestate, C08 closed-iterator behaviour)
# =====================================================================================================
@unit("C10", "_iterator:RenderIterator.close")
def u_close(ctx):
    obs = []
    for closed in (False, True):
        eng = ctx.engine(f"C10/close[{'closed' if closed else 'open'}]", "C10")
        st = State()
        W = World(ctx, eng, st, closed=closed)
        W.generator_may_be_running = True
        st.env["self"] = W.self_
        snap = snapshot(W, st)
        outs = run_function(eng, ctx.fn(IT, "RenderIterator.close"), st)
        for kind, val, s in outs:
            it, rd = s.H(W.self_), s.H(W.render_data)
            if kind == "raise" and s.ghost.get("generator_refused") and val.cls == "ValueError":
                # a close() that could not be carried out must not leave an iterator that says "closed" over data nobody will
                # finalize any more (the error path of __next__ calls close() again: that call has to do the work)
                fin_ok = z3.Or(to_z3(rd["finalized"]), z3.Not(to_z3(it["_finalize_data"])))
                eng.oblige("close()-refused-by-the-running-generator:not-marked-closed-unless-the-data-was-dealt-with", s,
                           Or(it["_closed"] is False, And(it["_closed"] is True, fin_ok)), kind="raise", replay="C10.reentrant_close")
                continue
            if kind == "raise":
                eng.oblige(f"no-exception:{val.cls}", s, False, kind="raise")
                continue
            if closed:
                eng.oblige("idempotent:second-close-changes-nothing", s, same_state(W, s, snap), kind="post")
                continue
            owns = snap_fin = to_z3(s.H(W.self_)["_finalize_data"])
            fin0 = to_z3(snap["fin"])
            eng.oblige("closed-afterwards,generator-closed,references-dropped", s,
                       And(it["_closed"] is True, s.H(W.gen)["closed"] is True, "_iterator" not in it, "_render_data" not in it), kind="post")
            eng.oblige("data-finalized-iff-owned(exactly-once)", s,
                       And(to_z3(rd["finalized"]) == z3.Or(fin0, owns), rd["fin_calls"] == z3.If(z3.And(owns, z3.Not(fin0)), 1, 0)), kind="post")
        obs += eng.obligations
    return obs


@unit("C10", "_iterator:RenderIterator.__del__")
def u_del(ctx):
    """garbage collection: the same effect on the render data as close() (finalized iff owned, exactly once), whoever else
    still refers to the data; silent for an instance whose construction failed before it had any state"""
    obs = []
    for state in ("open", "closed", "uninitialised"):
        eng = ctx.engine(f"C10/__del__[{state}]", "C10")
        st = State()
        W = World(ctx, eng, st, closed=(state == "closed"))
        if state == "uninitialised":
            st.heap[W.self_.id] = {}
        st.env["self"] = W.self_
        snap = snapshot(W, st) if state != "uninitialised" else None
        close_node = inline(ctx.fn(IT, "RenderIterator.close"), eng)
        eng.methods[("RenderIterator", "close")] = lambda e, s, recv, a, k, close_node=close_node: e.call(close_node, (recv,), {}, s)
        outs = run_function(eng, ctx.fn(IT, "RenderIterator.__del__"), st)
        for kind, val, s in outs:
            it, rd = s.H(W.self_), s.H(W.render_data)
            if kind == "raise":
                eng.oblige(f"no-exception:{val.cls}", s, False, kind="raise")
                continue
            if state == "uninitialised":
                eng.oblige("unsuccessful-init:__del__-is-silent,data-untouched", s, And(Eq(rd["fin_calls"], 0)), kind="post")
                continue
            if state == "closed":
                eng.oblige("closed-before:collection-changes-nothing", s, same_state(W, s, snap), kind="post")
                continue
            owns = to_z3(s.H(W.self_)["_finalize_data"])
            fin0 = to_z3(snap["fin"])
            eng.oblige("collected:closed,generator-closed,references-dropped", s,
                       And(it["_closed"] is True, s.H(W.gen)["closed"] is True, "_iterator" not in it, "_render_data" not in it), kind="post")
            eng.oblige("collected:data-finalized-iff-owned(exactly-once),whoever-else-holds-the-data", s,
                       And(to_z3(rd["finalized"]) == z3.Or(fin0, owns), rd["fin_calls"] == z3.If(z3.And(owns, z3.Not(fin0)), 1, 0)), kind="post")
        obs += eng.obligations
    return obs


@unit(("C10", "C08"), "_iterator:RenderIterator.__next__")
def u_next(ctx):
    obs = []
    for closed in (False, True):
        eng = ctx.engine(f"C10/__next__[{'closed' if closed else 'open'}]", "C10")
        st = State()
        W = World(ctx, eng, st, closed=closed)
        st.env["self"] = W.self_
        snap = snapshot(W, st)
        the_frame = frame_rec(z3.Int("fno"), z3.Int("fdur"), size_rec(z3.Int("fw"), z3.Int("fh")), z3.Int("fout"))

        def gen_next(e, s, recv, a, k):
            # step contract of the generator (proved by the _iterate units): next frame, or normal end, or a render error
            for exc in ("StopIteration", "Boom", "StopDefiniteIterationError", "AttributeError", "KeyboardInterrupt"):
                s2 = e.fork(s)
                s2.ghost["gen_exc"] = exc
                e.raise_(ExcVal(exc), s2)
            return [(the_frame, s)]
        eng.methods[("generator", "__next__")] = gen_next
        close_node = inline(ctx.fn(IT, "RenderIterator.close"), eng)
        eng.methods[("RenderIterator", "close")] = lambda e, s, recv, a, k: e.call(close_node, (recv,), {}, s)
        outs = run_function(eng, ctx.fn(IT, "RenderIterator.__next__"), st)
        for kind, val, s in outs:
            it = s.H(W.self_)
            if closed:
                eng.oblige("closed:next-stops,state-unchanged", s, And(kind == "raise" and val.cls == "StopIteration", same_state(W, s, snap)), kind="exit")
                eng.oblige("closed:next-stops,state-unchanged(C08)", s, And(kind == "raise" and val.cls == "StopIteration", same_state(W, s, snap)), prop="C08", kind="exit")
                continue
            if kind == "return":
                eng.oblige("frame-returned,iterator-stays-open", s, And(val is the_frame, it["_closed"] is False, same_state(W, s, snap)), kind="post")
            elif kind == "raise":
                src = s.ghost.get("gen_exc")
                # exhaustion or any error (KeyboardInterrupt is not an Exception: documented as errors only) closes the iterator
                must_close = src != "KeyboardInterrupt"
                eng.oblige(f"after-{src}:closed-and-{val.cls}-propagates", s,
                           And(val.cls == src, (it["_closed"] is True) if must_close else True), kind="raise")
            else:
                raise Unsupported(kind)
        obs += eng.obligations
    return obs


@unit("C08", "_iterator:RenderIterator._init")
def u_init(ctx):
    eng = ctx.engine("C08/_init", "C08")
    obs = []
    for definite in (True, False):
        for cache_kind in ("bool", "int"):
            eng = ctx.engine(f"C08/_init[{'definite' if definite else 'indefinite'},cache={cache_kind}]", "C08")
            st = State()
            W = World(ctx, eng, st, definite=definite)
            animated = z3.Bool("animated")
            st.H(W.renderable)["animated"] = animated
            loops = z3.Int("loops")
            cache = z3.Bool("cache_b") if cache_kind == "bool" else z3.Int("cache_i")
            new = st.new("RenderIterator", {})
            st.env.update(self=new, renderable=W.renderable, render_args=None, padding=W.pad, loops=loops, cache=cache)
            outs = run_function(eng, ctx.fn(IT, "RenderIterator._init"), st)
            bad_cache = (cache <= 0) if cache_kind == "int" else False
            bad = Or(Not(animated), loops == 0, bad_cache)
            for kind, val, s in outs:
                if kind == "raise":
                    eng.oblige("rejects:non-animated|loops=0|cache<=0", s, And(val.cls == "ValueError", bad), kind="raise")
                    continue
                it = s.H(new)
                L = loops if definite else 1
                exp_cached = (cache if cache_kind == "bool" else (W.N <= cache)) if definite else False
                eng.oblige("initial-state:open,loop-countdown=loops,cache-decision", s,
                           And(Not(bad), it.get("_closed") is False, Eq(it.get("loop"), L), Eq(it.get("_loops"), L), it.get("_renderable") is W.renderable,
                               Eq(it.get("_cached"), exp_cached)), kind="post")
            obs += eng.obligations
    return obs


@unit("C10", "_iterator:RenderIterator._from_render_data_")
def u_from_render_data(ctx):
    obs = []
    for pad_kind in ("exact", "aligned-relative"):
        eng = ctx.engine(f"C10/_from_render_data_[{pad_kind}]", "C10")
        st = State()
        W = World(ctx, eng, st)
        new = st.new("RenderIterator", {})
        finalize = z3.Bool("finalize_arg")
        wrong_cls, not_iter = z3.Bools("wrong_render_cls not_iteration_data")
        st.H(W.rdata)["iteration"] = z3.Not(not_iter)
        other = ClassV("OtherRenderable")
        mine = ClassV("MyRenderable")
        eng.genv["type"] = Fn(lambda e, s, a, k: [(ClassV(a[0].cls), s)])
        st.H(W.render_data)["render_cls"] = mine
        rel = pad_kind == "aligned-relative"
        pad = st.new("AlignedPadding" if rel else "ExactPadding", {"pid": z3.Int("padarg"), "relative": rel})
        inits = []

        def init(e, s, recv, a, k):
            inits.append(a)
            e.raise_(ExcVal("ValueError"), e.fork(s))
            s = e.fork(s)
            s.H(recv).update({"_closed": False, "_renderable": a[0], "loop": z3.Int("L"), "_loops": z3.Int("L"), "_cached": z3.Bool("c")})
            return [(None, s)]
        eng.methods[("RenderIterator", "_init")] = init

        def iterate(e, s, recv, a, k):
            # calling a generator function only creates the generator
            s = e.fork(s)
            g = s.new("generator", {"pc": "start", "closed": False, "data": a[0], "args": a[1]})
            return [(g, s)]
        eng.methods[("RenderIterator", "_iterate")] = iterate

        def gen_next(e, s, recv, a, k):
            # first step: runs the initialisation part of _iterate up to the dummy yield (stores data, args, padded size)
            s = e.fork(s)
            s.H(new)["_render_data"] = s.H(recv)["data"]
            s.H(recv)["pc"] = "Y0"
            return [(Opaque("dummy frame"), s)]
        eng.methods[("generator", "__next__")] = gen_next
        eng.methods["new:RenderArgs"] = lambda e, s, c, a, k: [(Opaque("converted args"), s)]
        cls = st.new("type", {})
        eng.methods[("type", "__new__")] = lambda e, s, recv, a, k: [(new, s)]
        ra = None
        for data_cls in (mine, other):
            s0 = st.fork()
            s0.H(W.render_data)["render_cls"] = data_cls
            s0.env.update(cls=cls, renderable=W.renderable, render_data=W.render_data, render_args=ra, padding=pad, args=(), kwargs=s0.new("dict", {"@items": {}}),
                          finalize=finalize)
            fin0 = s0.H(W.render_data)["finalized"]
            eng.label = f"C10/_from_render_data_[{pad_kind},data_cls={data_cls.name}]"
            outs = run_function(eng, ctx.fn(IT, "RenderIterator._from_render_data_"), s0)
            for kind, val, s in outs:
                rd = s.H(W.render_data)
                # whatever happens, construction itself never finalizes data handed in by the caller
                eng.oblige("caller-data-not-finalized-by-construction", s, And(to_z3(rd["finalized"]) == to_z3(fin0), rd["fin_calls"] == 0), kind="exit")
                if kind == "raise":
                    eng.oblige("rejections:wrong-class|finalized-data|non-iteration-data|bad-arguments", s,
                               And(val.cls == "ValueError"), kind="raise")
                    continue
                it = s.H(new)
                p = it.get("_padding")
                pad_ok = (isinstance(p, Ref) and s.H(p).get("resolved_from") == pad.id) if rel else (p is pad)
                eng.oblige("accepted-only-for-live-iteration-data-of-the-renderable's-class;ownership-flag-kept", s,
                           And(data_cls is mine, Not(fin0), Not(not_iter), val is new, Eq(it.get("_finalize_data"), finalize), pad_ok,
                               isinstance(it.get("_iterator"), Ref)), kind="post")
        obs += eng.obligations
    return obs
