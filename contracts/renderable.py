"""Renderable.draw / _animate_ / _init_render_ / render / __str__ and RenderData.finalize under contract
(shared by C06, C07, C10, C13)."""
import ast
import z3
from pyvc.runner import unit, run_function
from pyvc.values import *
from pyvc.engine import State, LoopSpec
from pyvc import tstr
from pyvc.tstr import TS, Block, PBlock, VT, vt_new
from . import tty
from .common import *

RN, TY = "renderable/_renderable.py", "renderable/_types.py"


class Term:
    """symbolic terminal + stream `output` (sys.stdout on a tty)"""

    def __init__(self, eng, st, PW=None, PH=None, faults=("KeyboardInterrupt", "Boom")):
        self.eng = eng
        self.r0, self.TW, self.TH, self.B0 = z3.Ints("r0 TW TH bottom0")
        st.pc += [self.TW >= 1, self.TH >= 1, self.r0 >= 0, self.B0 >= self.r0, self.B0 - self.TH + 1 <= self.r0]
        st.ghost["vt"] = vt_new(self.r0, z3.IntVal(0), self.B0, self.TW, self.TH, arow=z3.IntVal(-1), acol=z3.IntVal(-1))
        st.ghost["writes_n"] = 0
        self.out = st.new("stream", {})
        self.faults = faults
        eng.methods[("stream", "write")] = self.write
        eng.methods[("stream", "flush")] = self.flush
        eng.methods[("stream", "isatty")] = lambda e, s, recv, a, k: [(s.ghost.get("isatty", True), s)]
        eng.methods[("stream", "fileno")] = lambda e, s, recv, a, k: [(z3.Int("stdout_fd"), s)]

    def interrupted(self, e, s, cursor=True):
        """an interrupted write delivered an arbitrary prefix: cursor anywhere, a command may be left open"""
        s = e.fork(s)
        g = dict(s.ghost["vt"])
        g["interrupted"] = True
        if cursor:
            g["row"], g["col"] = e.sym_int("row_ki"), e.sym_int("col_ki")
            g["cmd_open"] = e.sym_bool("cmd_open_ki")
            g["sgr_default"] = e.sym_bool("sgr_ki")
            g["vis"] = e.sym_bool("vis_ki") if False else g["vis"]
        s.ghost["vt"] = g
        return s

    @staticmethod
    def holds_frame(data):
        return isinstance(data, TS) and any(isinstance(p, (Block, PBlock)) for p in data.items)

    def write(self, e, s, recv, a, k):
        data = a[0]
        for exc in self.faults:
            s1 = self.interrupted(e, s)                                        # a prefix was delivered
            if self.holds_frame(data):
                s1.ghost["frame_output_cut_by"] = exc                          # ... of a render output: whatever it opened stays open
            e.raise_(ExcVal(exc), s1, fault=True)
        s = e.fork(s)
        n = s.ghost["writes_n"] = s.ghost["writes_n"] + 1
        if self.holds_frame(data):
            s.ghost["unflushed_frame"] = True                                  # a buffering stream may hold (part of) it until flush()
        vt = VT(e, s, tag=f"write{n}")
        vt.feed(data)
        vt.commit()
        for exc in self.faults:
            s2 = e.fork(s)                                                     # everything was delivered, then the signal surfaced
            g = dict(s2.ghost["vt"])
            g["interrupted"] = True
            s2.ghost["vt"] = g
            e.raise_(ExcVal(exc), s2, fault=True)
        return [(None, s)]

    def flush(self, e, s, recv, a, k):
        for exc in self.faults:
            s1 = self.interrupted(e, s, cursor=False)
            if s.ghost.get("unflushed_frame"):
                s1.ghost["frame_output_cut_by"] = exc                          # the buffered render output went out only in part
            e.raise_(ExcVal(exc), s1, fault=True)
        s = e.fork(s)
        s.ghost["unflushed_frame"] = False
        return [(None, s)]

    @staticmethod
    def handler(e, s, recv, a, k):
        """_handle_interrupted_draw_ (a hook: the base class does nothing; a subclass terminates what its output left open)"""
        s = e.fork(s)
        s.ghost["interrupted_draw_handled"] = True
        s.ghost["handled_interrupt_at_write"] = s.ghost["writes_n"]
        return [(None, s)]

    @staticmethod
    def oblige_handled(eng, s, kind):
        """C07, new API: a Ctrl-C that cuts a render output short (in write(), or in the flush() that delivers it) is followed by the
        subclass hook - the only place where a command the output left open can be terminated"""
        if s.ghost.get("frame_output_cut_by") == "KeyboardInterrupt":
            eng.oblige(f"C07:interrupt-handler-runs-when-Ctrl-C-cuts-a-render-output-short(write-or-flush)@{kind}", s,
                       s.ghost.get("interrupted_draw_handled") is True, prop="C07", kind="exit")


def ctlseq_world(ctx, eng):
    cs = ctx.ns("term_image._ctlseqs")
    for name in ("cursor_up", "cursor_down", "cursor_forward", "cursor_backward"):
        eng.genv[name] = inline(ctx.fn("_ctlseqs.py", name), eng)
    for k, v in cs.d.items():
        if isinstance(v, str) and k.isupper():
            eng.genv[k] = v
    return cs


# =====================================================================================================
# Renderable._animate_
# =====================================================================================================
@unit(("C06", "C07", "C10"), "_renderable:Renderable._animate_")
def u_animate(ctx):
    eng = ctx.engine("C06/_animate_", "C06")
    eng.default_replay = {"C06": "C06.draw", "C07": "C07.draw_faults", "C10": "C10.faults", "C13": "C07.draw_faults"}
    st = State()
    ctlseq_world(ctx, eng)
    w, h, l, t, r, b = z3.Ints("w h pad_l pad_t pad_r pad_b")
    PW, PH = l + w + r, t + h + b
    T = Term(eng, st)
    st.pc += [w >= 1, h >= 1, l >= 0, t >= 0, r >= 0, b >= 0, PW <= T.TW, PH <= T.TH]     # validated by _init_render_ (unit below)
    # the renderable's own render size is NOT the size this draw was initialised with (another thread, or a resize handler, may have
    # changed it since): only the snapshot in the render data is what the frames are rendered and padded with
    self_ = st.new("MyRenderable", {"render_size": size_rec(z3.Int("own_w_now"), z3.Int("own_h_now"))})
    eng.classes["MyRenderable"] = ("Renderable",)
    rdata = st.new("RenderableData", {"size": size_rec(w, h)})
    render_data = st.new("RenderData", {"finalized": False, "fin_calls": 0})
    padding = st.new("Padding", {})
    it = st.new("RenderIterator", {"padded": True, "closed": False})
    eng.genv.update(Renderable=ClassV("Renderable"), NO_PADDING=st.new("Padding", {"none": True}), Size=None)
    eng.methods[("RenderData", "__getitem__")] = lambda e, s, recv, a, k: [(rdata, s)]
    eng.methods[("Padding", "_get_exact_dimensions_")] = lambda e, s, recv, a, k: [((l, t, r, b), s)]
    created = []

    def from_rd(e, s, a, k):
        # contract proved by the C10 unit of RenderIterator._from_render_data_; ownership flag must be False here:
        # the data belongs to draw(), which finalizes it
        e.oblige("C10:animate-keeps-data-ownership-with-draw(finalize=False)", s, k.get("finalize") is False, prop="C10", kind="pre")
        e.oblige("C10:iterator-built-from-the-draw's-render-data", s, a[1] is render_data and a[0] is self_ and a[3] is padding, prop="C10", kind="pre")
        e.raise_(ExcVal("ValueError"), e.fork(s))
        created.append(1)
        return [(it, s)]
    eng.genv["RenderIterator"] = Namespace("RenderIterator", {"_from_render_data_": Fn(from_rd)})

    def it_next(e, s, recv, a, k):
        s = e.fork(s)
        e.oblige("C10:no-next-after-close", s, Not(s.H(it)["closed"]), prop="C10", kind="pre")
        e.raise_(ExcVal("StopIteration"), e.fork(s))
        for exc in ("KeyboardInterrupt", "Boom"):
            e.raise_(ExcVal(exc), T.interrupted(e, s, cursor=False), fault=True)
        if s.H(it)["padded"]:
            out, size = TS([PBlock(e.sym_int("blk"), w, h, l, t, r, b)]), size_rec(PW, PH)
        else:
            out, size = TS([Block(e.sym_int("blk"), w, h)]), size_rec(w, h)
        return [(Rec("Frame", {"number": e.sym_int("no"), "duration": e.sym_int("dur"), "render_size": size, "render_output": out}), s)]
    eng.methods[("RenderIterator", "__next__")] = it_next

    def it_set_padding(e, s, recv, a, k):
        s = e.fork(s)
        none = isinstance(a[0], Ref) and s.H(a[0]).get("none")
        s.H(it)["padded"] = not none
        return [(None, s)]
    eng.methods[("RenderIterator", "set_padding")] = it_set_padding

    def it_close(e, s, recv, a, k):
        s = e.fork(s)
        s.H(it)["closed"] = True
        return [(None, s)]
    eng.methods[("RenderIterator", "close")] = it_close
    eng.genv["perf_counter_ns"] = Fn(lambda e, s, a, k: [(e.sym_int("ns"), s)])

    def sleep(e, s, a, k):
        for exc in ("KeyboardInterrupt", "Boom"):
            e.raise_(ExcVal(exc), T.interrupted(e, s, cursor=False), fault=True)
        return [(None, s)]
    eng.genv["sleep"] = Fn(sleep)
    eng.methods[("Renderable", "_clear_frame_")] = lambda e, s, recv, a, k: [(None, s)]
    eng.methods[("Renderable", "_handle_interrupted_draw_")] = Term.handler

    # every frame after the first is drawn over the same cells: the block must start at the anchor of the first frame
    def on_block(vt, blk):
        g = vt.g
        vt.oblige("C06:frame-drawn-over-the-same-cells", z3.And(to_z3(g["row"]) == to_z3(g["arow"]), to_z3(g["col"]) == to_z3(g["acol"])), prop="C06", kind="geometry")
    st.ghost["vt"]["on_block"] = on_block

    def inv(s):
        g = s.ghost["vt"]
        ffw = s.lookup("first_frame_written")
        return z3.And(to_z3(g["row"]) == to_z3(g["arow"]), to_z3(g["col"]) == to_z3(g["acol"]), to_z3(g["arow"]) == T.r0 + t, to_z3(g["acol"]) == l,
                      to_z3(g["bottom"]) >= T.r0 + PH - 1, to_z3(g["bottom"]) - T.TH + 1 <= T.r0 + t,
                      to_z3(ffw), z3.BoolVal(g["parser"] == "ground"), z3.BoolVal(g["interrupted"] is False),
                      Not(s.H(it)["closed"]), z3.BoolVal(s.H(it)["padded"] is False))

    def havoc(e, s, tag):
        for nm in ("duration_ms", "start_ns"):
            s.env[nm] = z3.Int(f"{nm}!{tag}")
        s.env["frame"] = Opaque("frame")
        g = dict(s.ghost["vt"])
        for nm in ("row", "col", "bottom", "arow", "acol", "nl", "line_idx", "line_w", "written", "skipped", "blk_col", "blk_line", "blk_id", "ech_to"):
            g[nm] = z3.Int(f"vt_{nm}!{tag}")
        for nm in ("sgr_default", "irregular", "last_nl"):
            g[nm] = z3.Bool(f"vt_{nm}!{tag}")
        g["log"] = []
        s.ghost["vt"] = g
    eng.invariants = {1: LoopSpec(inv, havoc, iterator=True)}
    st.env.update(self=self_, render_data=render_data, render_args=Opaque("render_args"), padding=padding, loops=z3.Int("loops"), cache=Opaque("cache"), output=T.out)
    outs = run_function(eng, ctx.fn(RN, "Renderable._animate_"), st)
    for kind, val, s in outs:
        g = s.ghost["vt"]
        made = it.id in s.heap and any(v is it for f in s.frames for v in f.values())
        if made:
            eng.oblige(f"C10:iterator-closed@{kind}", s, s.H(it)["closed"], prop="C10", kind="exit")
        eng.oblige(f"C10:data-left-to-draw()-un-finalized@{kind}", s, And(s.H(render_data)["finalized"] is False), prop="C10", kind="exit")
        if kind == "raise":
            eng.oblige(f"C07:animation-ends-silently-on-Ctrl-C({val.cls})", s, val.cls != "KeyboardInterrupt", prop="C07", kind="raise")
        Term.oblige_handled(eng, s, kind)
        if kind in ("normal", "return") and g["interrupted"] is False and not s.ghost.get("faulted"):
            ffw = s.lookup("first_frame_written")
            eng.oblige("C06:cursor-on-last-line-of-padded-box-after-animation", s,
                       Implies(ffw, And(to_z3(g["row"]) == T.r0 + PH - 1, z3.BoolVal(g["parser"] == "ground"))), prop="C06", kind="post")
    return eng.obligations


# =====================================================================================================
# Renderable.draw
# =====================================================================================================
def draw_unit(animated_case, still_of_animated=False):
    """still_of_animated: an animated renderable drawn with animate=False - by the documented rule a non-animation (the current frame
    only; size validation and scrolling as for a still image)"""
    tag = "still-frame-of-an-animated-renderable" if still_of_animated else ("animation" if animated_case else "still")

    @unit(("C06", "C07", "C10", "C13"), f"_renderable:Renderable.draw[{tag}]")
    def u(ctx, animated_case=animated_case):
        eng = ctx.engine(f"C06/draw[{tag}]", "C06")
        eng.default_replay = {"C06": "C06.draw", "C07": "C07.draw_faults", "C10": "C10.faults", "C13": "C07.draw_faults"}
        st = State()
        ctlseq_world(ctx, eng)
        fault = tty.install(eng, faults=("KeyboardInterrupt", "OSError"))
        snap0 = tty.tty_init(st)
        w, h, l, t, r, b = z3.Ints("w h pad_l pad_t pad_r pad_b")
        PW, PH = l + w + r, t + h + b
        T = Term(eng, st)
        st.pc += [w >= 1, h >= 1, l >= 0, t >= 0, r >= 0, b >= 0]
        st.pc.append(PW <= T.TW)        # C06 speaks about output that fits the terminal width (check_size=False may waive the check)

        def on_block(vt, blk):          # an unpadded still image: the block itself is the picture
            vt.g["arow"], vt.g["acol"] = vt.g["row"], vt.g["col"]
        st.ghost["vt"]["on_block"] = on_block
        isatty = z3.Bool("isatty")
        st.ghost["isatty"] = isatty
        eng.classes["MyRenderable"] = ("Renderable",)
        animate, check_size, allow_scroll, hide_cursor, echo_input = z3.Bools("animate check_size allow_scroll hide_cursor echo_input")
        self_ = st.new("MyRenderable", {"animated": animated_case or still_of_animated})
        if animated_case:
            st.pc.append(animate)
        if still_of_animated:
            st.pc.append(z3.Not(animate))
        animation = animated_case   # self.animated and animate
        render_data = st.new("RenderData", {"finalized": False, "fin_calls": 0})
        real_args = Opaque("real_render_args")
        padding_in = st.new("Padding", {"relative": True})
        padding = st.new("Padding", {"resolved": True})
        unix = ctx.const("term_image.utils", "OS_IS_UNIX") if "OS_IS_UNIX" in ctx.ns("term_image.utils").d else True
        eng.genv.update(sys=Namespace("sys", {"stdout": T.out}), OS_IS_UNIX=unix, AlignedPadding=ClassV("AlignedPadding"))

        def init_render(e, s, recv, a, k):
            """contract of _init_render_ (unit below): validates the size BEFORE anything is written; with finalize=False
            the data is returned un-finalized and not stored anywhere else"""
            e.oblige("C10:draw-takes-ownership-of-the-data(finalize=False)", s, k.get("finalize") is False, prop="C10", kind="pre")
            e.oblige("C06:nothing-written-before-size-validation", s, s.ghost["writes_n"] == 0, prop="C06", kind="pre")
            e.oblige("C06:animations-always-validated,stills-per-check_size", s,
                     And(Eq(k.get("check_size"), Or(animation, check_size)), Eq(k.get("allow_scroll"), And(Not(animation), allow_scroll)),
                         Eq(k.get("iteration"), animation)), prop="C06", kind="pre")
            s1 = e.fork(s)
            s1.ghost["validation_failed"] = True
            e.raise_(ExcVal("RenderSizeOutofRangeError"), s1)
            e.raise_(ExcVal("IncompatibleRenderArgsError"), e.fork(s))
            s = e.fork(s)
            chk, scroll = to_z3(k.get("check_size")), to_z3(k.get("allow_scroll"))
            s.pc.append(z3.Implies(chk, z3.And(PW <= T.TW, z3.Or(scroll, PH <= T.TH))))
            res = e.call(a[0], (render_data, real_args), {}, s)
            return [((v, padding), s2) for v, s2 in res]
        eng.methods[("Renderable", "_init_render_")] = init_render

        def animate_(e, s, recv, a, k):
            """contract of _animate_ (unit above): never lets KeyboardInterrupt out; closes its iterator; leaves the data
            un-finalized; an uninterrupted run ends on the last line of the padded box it drew from column 0"""
            g = s.ghost["vt"]
            e.oblige("C06:animation-starts-at-column-0", s, to_z3(g["col"]) == 0, prop="C06", kind="pre")
            e.oblige("C10:animate-gets-the-draw's-data", s, a[0] is render_data and a[2] is padding, prop="C10", kind="pre")
            s.pc += [PW <= T.TW, PH <= T.TH] if False else []
            outs = []
            # (a) ran to completion
            s1 = e.fork(s)
            g1 = dict(g)
            g1["bottom"] = Max(g["bottom"], g["row"] + PH - 1)
            g1["row"] = g["row"] + PH - 1
            g1["col"] = e.sym_int("col_after_anim")
            s1.pc += [g1["col"] >= 0, g1["col"] <= T.TW]
            s1.ghost["vt"] = g1
            s1.ghost["writes_n"] = s1.ghost["writes_n"] + 1
            outs.append((None, s1))
            # (b) interrupted by Ctrl-C / no frame at all: returns silently, cursor anywhere
            s2 = T.interrupted(e, s)
            s2.ghost["writes_n"] = s2.ghost["writes_n"] + 1
            outs.append((None, s2))
            # (c) a rendering error propagates
            s3 = T.interrupted(e, s)
            s3.ghost["writes_n"] = s3.ghost["writes_n"] + 1
            e.raise_(ExcVal("Boom"), s3)
            return outs
        eng.methods[("Renderable", "_animate_")] = animate_

        def render_(e, s, recv, a, k):
            e.oblige("C10:render-data-not-finalized-at-render", s, s.H(a[0])["finalized"] is False, prop="C10", kind="pre")
            for exc in ("KeyboardInterrupt", "Boom"):
                e.raise_(ExcVal(exc), T.interrupted(e, s, cursor=False), fault=True)
            blk = e.sym_int("blk")
            s = e.fork(s)
            s.ghost["blk"] = blk
            return [(Rec("Frame", {"number": 0, "duration": 0, "render_size": size_rec(w, h), "render_output": TS([Block(blk, w, h)])}), s)]
        eng.methods[("Renderable", "_render_")] = render_
        eng.methods[("Padding", "get_padded_size")] = lambda e, s, recv, a, k: [(size_rec(l + a[0].f["width"] + r, t + a[0].f["height"] + b), s)]

        def pad(e, s, recv, a, k):
            blk = a[0].items[0]
            return [(TS([PBlock(blk.id, w, h, l, t, r, b)]), s)]
        eng.methods[("Padding", "pad")] = pad

        eng.methods[("Renderable", "_handle_interrupted_draw_")] = Term.handler

        def finalize(e, s, recv, a, k):
            s = e.fork(s)
            hh = s.H(recv)
            hh["fin_calls"] = hh["fin_calls"] + (0 if hh["finalized"] else 1)
            hh["finalized"] = True
            return [(None, s)]
        eng.methods[("RenderData", "finalize")] = finalize
        st.env.update(self=self_, render_args=None, padding=padding_in, animate=animate, loops=z3.Int("loops"), cache=Opaque("cache"), check_size=check_size,
                      allow_scroll=allow_scroll, hide_cursor=hide_cursor, echo_input=echo_input)
        outs = run_function(eng, ctx.fn(RN, "Renderable.draw"), st)
        for kind, val, s in outs:
            g = s.ghost["vt"]
            started = s.ghost.get("validation_failed") is not True and not (kind == "raise" and val.cls == "IncompatibleRenderArgsError")
            if not started:
                eng.oblige("C06:rejected-before-anything-is-written", s, And(s.ghost["writes_n"] == 0, tty.tty_equal(s.ghost["tty"], snap0)), prop="C06", kind="raise")
                continue
            # ---- C07 / C13: every exit
            Term.oblige_handled(eng, s, kind)
            eng.oblige(f"C07:cursor-visible@{kind}", s, g["vis"], prop="C07", kind="exit")
            eng.oblige(f"C13:terminal-attributes-restored@{kind}", s, tty.tty_equal(s.ghost["tty"], snap0), prop="C13", kind="exit")
            eng.oblige(f"C07:terminal-attributes-restored@{kind}", s, tty.tty_equal(s.ghost["tty"], snap0), prop="C07", kind="exit")
            if kind == "raise" and s.ghost.get("raised_in_try") == 0:
                # interrupted between _init_render_ and the try block: nothing was changed yet; the data is referenced by
                # nothing but the dying frame, so RenderData.__del__ finalizes it (the property's "garbage-collected")
                eng.oblige("C10:data-unreferenced-when-interrupted-before-the-try(finalized-by-__del__)", s,
                           And(s.H(render_data)["fin_calls"] == 0, s.ghost["writes_n"] == 0,
                               not any(v is render_data for hid, hobj in s.heap.items() if isinstance(hobj, dict) for v in hobj.values())), prop="C10", kind="exit")
            else:
                eng.oblige(f"C10:data-finalized-exactly-once@{kind}", s, And(s.H(render_data)["finalized"] is True, s.H(render_data)["fin_calls"] == 1), prop="C10", kind="exit")
                eng.oblige(f"C07:data-finalized@{kind}", s, s.H(render_data)["finalized"] is True, prop="C07", kind="exit")
            if kind == "raise":
                if animation:
                    where = "(interrupt-between-size-validation-and-try)" if s.ghost.get("raised_in_try") == 0 else ""
                    eng.oblige("C07:animation-ends-silently-on-Ctrl-C" + where, s, val.cls != "KeyboardInterrupt", prop="C07", kind="raise",
                               replay="C07.draw_faults_pre_try" if where else "C07.draw_faults")
            else:
                if not animation:
                    # still images propagate KeyboardInterrupt: a normal return means no interrupt happened
                    eng.oblige("C07:still-image-interrupt-not-swallowed", s, g["interrupted"] is False and not s.ghost.get("faulted"), prop="C07", kind="post")
            # ---- C06: uninterrupted normal return
            if kind in ("normal", "return") and g["interrupted"] is False and not s.ghost.get("faulted"):
                eng.oblige("C06:cursor-at-start-of-line-below-padded-region", s,
                           And(to_z3(g["row"]) == T.r0 + PH, to_z3(g["col"]) == 0, g["vis"], g["sgr_default"], z3.BoolVal(g["parser"] == "ground")), prop="C06", kind="post")
                if not animation:
                    eng.oblige("C06:picture-inside-its-padding-where-drawn", s, And(to_z3(g["arow"]) == T.r0 + t, to_z3(g["acol"]) == l) if True else True, prop="C06", kind="post")
        return eng.obligations
    return u


for _a in (False, True):
    draw_unit(_a)
draw_unit(False, still_of_animated=True)


# =====================================================================================================
# RenderData.finalize / __del__
# =====================================================================================================
@unit("C10", "_types:RenderData.finalize")
def u_finalize(ctx):
    eng = ctx.engine("C10/RenderData.finalize", "C10")
    obs = []
    for which in ("finalize", "__del__"):
        for initialised in ((True, False) if which == "__del__" else (True,)):
            eng = ctx.engine(f"C10/RenderData.{which}" + ("" if initialised else "[unsuccessful-init]"), "C10")
            eng.default_replay = "C10.raising_finalizer"
            st = State()
            fin0 = z3.Bool("finalized0")
            cls = st.new("rendercls", {})
            st.ghost["hook_calls"] = 0

            def hook(e, s, recv, a, k):
                s = e.fork(s)
                s.ghost["hook_calls"] = s.ghost["hook_calls"] + 1
                e.raise_(ExcVal("Boom"), e.fork(s))       # a subclass hook may fail
                return [(None, s)]
            eng.methods[("rendercls", "_finalize_render_data_")] = hook
            eng.closed_classes.add("RenderData")
            self_ = st.new("RenderData", {"finalized": fin0, "render_cls": cls} if initialised else {})
            st.env["self"] = self_
            if which == "__del__":
                fin_node = inline(ctx.fn(TY, "RenderData.finalize"), eng)
                eng.methods[("RenderData", "finalize")] = lambda e, s, recv, a, k: e.call(fin_node, (recv,), {}, s)
            outs = run_function(eng, ctx.fn(TY, f"RenderData.{which}"), st)
            for kind, val, s in outs:
                if not initialised:
                    eng.oblige("unsuccessful-init:__del__-is-silent", s, kind != "raise", kind="exit")
                    continue
                calls = s.ghost["hook_calls"]
                # the hook runs exactly once over the object's life: iff it was not finalized before; finalized afterwards even if the hook raises
                eng.oblige(f"finalize-once,finalized-afterwards@{kind}", s, And(to_z3(s.H(self_)["finalized"]) == True, calls == z3.If(fin0, 0, 1),
                                                                               (val.cls == "Boom" and True) if kind == "raise" else True), kind="exit")
                if kind == "raise":
                    eng.oblige("only-the-hook's-error-escapes", s, And(val.cls == "Boom", Not(fin0)), kind="raise")
            obs += eng.obligations
    return obs


# =====================================================================================================
# Renderable._init_render_ / render / __str__
# =====================================================================================================
@unit(("C06", "C10"), "_renderable:Renderable._init_render_")
def u_init_render(ctx):
    obs = []
    for pad_kind in ("none", "exact", "aligned-relative"):
        eng = ctx.engine(f"C06/_init_render_[padding={pad_kind}]", "C06")
        eng.default_replay = {"C06": "C06.draw", "C07": "C07.draw_faults", "C10": "C10.faults", "C13": "C07.draw_faults"}
        st = State()
        w, h, l, t, r, b, tw, th = z3.Ints("w h pad_l pad_t pad_r pad_b tw th")
        st.pc += [w >= 1, h >= 1, l >= 0, t >= 0, r >= 0, b >= 0, tw >= 1, th >= 1]
        PW, PH = (l + w + r, t + h + b) if pad_kind != "none" else (w, h)
        eng.classes.update({"MyRenderable": ("Renderable",), "AlignedPadding": ("Padding",), "ExactPadding": ("Padding",)})
        eng.genv.update(Renderable=ClassV("Renderable"), AlignedPadding=ClassV("AlignedPadding"), RenderArgs=ClassV("RenderArgs"),
                        RenderSizeOutofRangeError=ClassV("RenderSizeOutofRangeError"))
        eng.exc_parents["RenderSizeOutofRangeError"] = "RenderableError"
        eng.genv["get_terminal_size"] = Fn(lambda e, s, a, k: [(Rec("terminal_size", {"columns": tw, "lines": th}), s)])
        eng.genv["type"] = Fn(lambda e, s, a, k: [(ClassV(a[0].cls), s)])
        self_ = st.new("MyRenderable", {})
        rdata = st.new("RenderableData", {"size": size_rec(w, h)})
        st.ghost["created"] = []
        st.ghost["rendered"] = 0

        def get_render_data(e, s, recv, a, k):
            e.raise_(ExcVal("Boom"), e.fork(s))
            s = e.fork(s)
            d = s.new("RenderData", {"finalized": False, "fin_calls": 0, "iteration": k.get("iteration")})
            s.ghost["created"] = s.ghost["created"] + [d]
            return [(d, s)]
        eng.methods[("Renderable", "_get_render_data_")] = get_render_data
        eng.methods[("RenderData", "__getitem__")] = lambda e, s, recv, a, k: [(rdata, s)]

        def finalize(e, s, recv, a, k):
            s = e.fork(s)
            hh = s.H(recv)
            hh["fin_calls"] = hh["fin_calls"] + (0 if hh["finalized"] else 1)
            hh["finalized"] = True
            return [(None, s)]
        eng.methods[("RenderData", "finalize")] = finalize
        eng.methods["new:RenderArgs"] = lambda e, s, c, a, k: (e.raise_(ExcVal("IncompatibleRenderArgsError"), e.fork(s)), [(Opaque("converted"), s)])[1]
        if pad_kind == "none":
            padding = None
        else:
            rel = pad_kind == "aligned-relative"
            padding = st.new("AlignedPadding" if rel else "ExactPadding", {"relative": rel})
            eng.attrs[("Padding", "relative")] = lambda e, s, v: [(s.H(v).get("relative", False), s)]

            def resolve(e, s, recv, a, k):
                s = e.fork(s)
                return [(s.new("AlignedPadding", {"relative": False, "resolved_from": recv.id, "against": a[0]}), s)]
            eng.methods[("Padding", "resolve")] = resolve

            def gps(e, s, recv, a, k):
                if s.H(recv).get("relative"):
                    e.raise_(ExcVal("RelativePaddingDimensionError"), e.fork(s))
                    return []
                return [(size_rec(l + a[0].f["width"] + r, t + a[0].f["height"] + b), s)]
            eng.methods[("Padding", "get_padded_size")] = gps

        def renderer(e, s, a, k):
            s = e.fork(s)
            s.ghost["rendered"] = s.ghost["rendered"] + 1
            e.oblige("C10:data-not-finalized-when-handed-to-the-renderer", s, s.H(a[0])["finalized"] is False, prop="C10", kind="pre")
            for exc in ("Boom", "KeyboardInterrupt"):
                e.raise_(ExcVal(exc), e.fork(s), fault=True)
            return [(Opaque("rendered"), s)]
        finalize_, check_size, allow_scroll, iteration = z3.Bools("finalize check_size allow_scroll iteration")
        st.env.update(self=self_, renderer=Fn(renderer), render_args=None, padding=padding, iteration=iteration, finalize=finalize_, check_size=check_size,
                      allow_scroll=allow_scroll)
        outs = run_function(eng, ctx.fn(RN, "Renderable._init_render_"), st)
        too_big = z3.And(check_size, z3.Or(PW > tw, z3.And(z3.Not(allow_scroll), PH > th)))
        for kind, val, s in outs:
            created = s.ghost["created"]
            if kind == "raise" and val.cls == "RenderSizeOutofRangeError":
                eng.oblige("C06:size-rejected-exactly-when-it-does-not-fit,before-any-render", s, And(too_big, s.ghost["rendered"] == 0), prop="C06", kind="raise")
            elif kind == "raise":
                eng.oblige(f"C06:other-errors({val.cls})-are-not-size-errors", s, val.cls in ("Boom", "KeyboardInterrupt", "IncompatibleRenderArgsError"), prop="C06", kind="raise")
            else:
                eng.oblige("C06:accepted-only-when-it-fits(or-unchecked)", s, And(Not(too_big), s.ghost["rendered"] == 1), prop="C06", kind="post")
                if pad_kind == "aligned-relative":
                    if not (kind == "return" and isinstance(val, tuple)):
                        raise Unsupported(f"_init_render_ exit {kind} {val!r}")
                    p = val[1]
                    eng.oblige("C06:relative-padding-resolved-against-the-terminal-size", s, isinstance(p, Ref) and s.H(p).get("resolved_from") == padding.id, prop="C06", kind="post")
            for d in created:
                hh = s.H(d)
                # finalize=True: finalized exactly once on every exit; finalize=False: never touched and handed to nobody but the renderer
                eng.oblige(f"C10:data-finalized-iff-finalize-requested@{kind}", s,
                           And(to_z3(hh["finalized"]) == finalize_, hh["fin_calls"] == z3.If(finalize_, 1, 0),
                               not any(v is d for hid, hobj in s.heap.items() if isinstance(hobj, dict) for v in hobj.values())), prop="C10", kind="exit")
            eng.oblige(f"C10:at-most-one-data-object-created@{kind}", s, len(created) <= 1, prop="C10", kind="exit")
        obs += eng.obligations
    return obs


@unit(("C10", "C05"), "_renderable:Renderable.render/__str__")
def u_render_str(ctx):
    """render() and __str__(): whatever route they take, every RenderData created by the call is finalized exactly once on
    every exit (normally by going through _init_render_ with finalize left on), and never used after finalization"""
    obs = []
    for name in ("render", "__str__"):
        eng = ctx.engine(f"C10/Renderable.{name}", "C10")
        eng.default_replay = {"C10": "C10.faults", "C05": "C05.pad"}
        st = State()
        self_ = st.new("MyRenderable", {})
        eng.classes["MyRenderable"] = ("Renderable",)
        w, h, l, t, r, b = z3.Ints("w h pad_l pad_t pad_r pad_b")
        st.ghost["created"] = []

        def new_data(e, s):
            s = e.fork(s)
            d = s.new("RenderData", {"finalized": False, "fin_calls": 0})
            s.ghost["created"] = s.ghost["created"] + [d]
            return d, s

        def finalize(e, s, recv, a, k):
            s = e.fork(s)
            hh = s.H(recv)
            hh["fin_calls"] = hh["fin_calls"] + (0 if hh["finalized"] else 1)
            hh["finalized"] = True
            return [(None, s)]
        eng.methods[("RenderData", "finalize")] = finalize
        eng.methods[("RenderData", "__getitem__")] = lambda e, s, recv, a, k: [(s.new("RenderableData", {"size": size_rec(w, h)}), s)]

        def render_(e, s, recv, a, k):
            e.oblige("C10:render-data-not-finalized-at-render", s, isinstance(a[0], Ref) and s.H(a[0])["finalized"] is False, kind="pre")
            for exc in ("Boom", "KeyboardInterrupt", "StopIteration"):
                e.raise_(ExcVal(exc), e.fork(s), fault=True)
            return [(Rec("Frame", {"number": 0, "duration": 0, "render_size": size_rec(w, h), "render_output": TS([Block(1, w, h)])}), s)]
        eng.methods[("Renderable", "_render_")] = render_

        def get_render_data(e, s, recv, a, k):
            e.raise_(ExcVal("Boom"), e.fork(s), fault=True)
            return [new_data(e, s)]
        eng.methods[("Renderable", "_get_render_data_")] = get_render_data

        def init_render(e, s, recv, a, k):
            """contract of _init_render_ (own unit): creates the data, hands it to the renderer, finalizes it on every exit iff finalize"""
            renderer, fin = a[0], k.get("finalize", True)
            e.raise_(ExcVal("IncompatibleRenderArgsError"), e.fork(s), fault=True)
            d, s = new_data(e, s)
            e.rstack.append([])
            res = e.call(renderer, (d, Opaque("render_args")), {}, s)
            raised = e.rstack.pop()
            outs = []
            for v, s2 in res:
                if fin is True:
                    (_, s2), = finalize(e, s2, d, (), {})
                pad = s2.new("Padding", {})
                outs.append(((v, pad), s2))
            for exc, s2 in raised:
                if fin is True:
                    (_, s2), = finalize(e, s2, d, (), {})
                e.raise_(exc, s2)
            return outs
        eng.methods[("Renderable", "_init_render_")] = init_render
        eng.methods[("Padding", "get_padded_size")] = lambda e, s, recv, a, k: [(size_rec(l + w + r, t + h + b), s)]
        eng.methods[("Padding", "pad")] = lambda e, s, recv, a, k: [(TS([PBlock(1, w, h, l, t, r, b)]), s)]
        eng.genv["Frame"] = Fn(lambda e, s, a, k: [(Rec("Frame", dict(zip(("number", "duration", "render_size", "render_output"), a))), s)])
        eng.genv["NO_PADDING"] = Opaque("NO_PADDING")
        eng.genv["Renderable"] = ClassV("Renderable")
        eng.genv["RenderArgs"] = ClassV("RenderArgs")
        eng.methods["new:RenderArgs"] = lambda e, s, c, a, k: (e.raise_(ExcVal("IncompatibleRenderArgsError"), e.fork(s), fault=True), [(Opaque("render args"), s)])[1]
        eng.genv["type"] = Fn(lambda e, s, a, k: [(ClassV(a[0].cls) if isinstance(a[0], Ref) else ClassV("object"), s)])
        eng.genv["get_terminal_size"] = Fn(lambda e, s, a, k: [(Rec("terminal_size", {"columns": z3.Int("tw"), "lines": z3.Int("th")}), s)])
        st.pc += [w >= 1, h >= 1, l >= 0, t >= 0, r >= 0, b >= 0]
        st.env.update(self=self_, render_args=None, padding=Opaque("padding"))
        outs = run_function(eng, ctx.fn(RN, f"Renderable.{name}"), st)
        for kind, val, s in outs:
            for d in s.ghost["created"]:
                eng.oblige(f"C10:data-created-by-the-call-finalized-exactly-once@{kind}", s, And(s.H(d)["finalized"] is True, s.H(d)["fin_calls"] == 1), kind="exit")
            eng.oblige(f"C10:at-most-one-data-object@{kind}", s, len(s.ghost["created"]) <= 1, kind="exit")
            if kind == "raise":
                eng.oblige("only-render-errors-escape", s, val.cls in ("Boom", "KeyboardInterrupt", "StopIteration", "IncompatibleRenderArgsError"), kind="raise")
            elif name == "render":
                ok = isinstance(val, Rec) and And(Eq(val.f["render_size"], (l + w + r, t + h + b)))
                eng.oblige("C05:render()-returns-a-frame-of-the-padded-size", s, ok, prop="C05", kind="post")
        obs += eng.obligations
    return obs
