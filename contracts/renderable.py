"""Renderable.draw / _animate_ / _init_render_ / render / __str__ and RenderData.finalize under contract
(shared by C06, C07, C10, C13)."""
import ast
import z3
from pyvc.runner import unit, run_function
from pyvc.values import *
from pyvc.engine import State, LoopSpec
from pyvc import tstr
from pyvc.tstr import TS, Block, PBlock, VT, vt_new
from . import tty
from .common import *

RN, TY = "renderable/_renderable.py", "renderable/_types.py"


class Term:
    """symbolic terminal + stream `output` (sys.stdout on a tty)"""

    def __init__(self, eng, st, PW=None, PH=None, faults=("KeyboardInterrupt", "Boom")):
        self.eng = eng
        self.r0, self.TW, self.TH, self.B0 = z3.Ints("r0 TW TH bottom0")
        st.pc += [self.TW >= 1, self.TH >= 1, self.r0 >= 0, self.B0 >= self.r0, self.B0 - self.TH + 1 <= self.r0]
        st.ghost["vt"] = vt_new(self.r0, z3.IntVal(0), self.B0, self.TW, self.TH, arow=z3.IntVal(-1), acol=z3.IntVal(-1))
        st.ghost["writes_n"] = 0
        self.out = st.new("stream", {})
        self.faults = faults
        eng.methods[("stream", "write")] = self.write
        eng.methods[("stream", "flush")] = self.flush
        eng.methods[("stream", "isatty")] = lambda e, s, recv, a, k: [(s.ghost.get("isatty", True), s)]
        eng.methods[("stream", "fileno")] = lambda e, s, recv, a, k: [(z3.Int("stdout_fd"), s)]

    def interrupted(self, e, s, cursor=True):
        """an interrupted write delivered an arbitrary prefix: cursor anywhere, a command may be left open"""
        s = e.fork(s)
        g = dict(s.ghost["vt"])
        g["interrupted"] = True
        if cursor:
            g["row"], g["col"] = e.sym_int("row_ki"), e.sym_int("col_ki")
            g["cmd_open"] = e.sym_bool("cmd_open_ki")
            g["sgr_default"] = e.sym_bool("sgr_ki")
            g["vis"] = e.sym_bool("vis_ki") if False else g["vis"]
        s.ghost["vt"] = g
        return s

    def write(self, e, s, recv, a, k):
        data = a[0]
        for exc in self.faults:
            e.raise_(ExcVal(exc), self.interrupted(e, s), fault=True)
        s = e.fork(s)
        n = s.ghost["writes_n"] = s.ghost["writes_n"] + 1
        vt = VT(e, s, tag=f"write{n}")
        vt.feed(data)
        vt.commit()
        return [(None, s)]

    def flush(self, e, s, recv, a, k):
        for exc in self.faults:
            e.raise_(ExcVal(exc), self.interrupted(e, s, cursor=False), fault=True)
        return [(None, s)]


def ctlseq_world(ctx, eng):
    cs = ctx.ns("term_image._ctlseqs")
    for name in ("cursor_up", "cursor_down", "cursor_forward", "cursor_backward"):
        eng.genv[name] = inline(ctx.fn("_ctlseqs.py", name), eng)
    for k, v in cs.d.items():
        if isinstance(v, str) and k.isupper():
            eng.genv[k] = v
    return cs


# =====================================================================================================
# Renderable._animate_
# =====================================================================================================
@unit(("C06", "C07", "C10"), "_renderable:Renderable._animate_")
def u_animate(ctx):
    eng = ctx.engine("C06/_animate_", "C06")
    st = State()
    ctlseq_world(ctx, eng)
    w, h, l, t, r, b = z3.Ints("w h pad_l pad_t pad_r pad_b")
    PW, PH = l + w + r, t + h + b
    T = Term(eng, st)
    st.pc += [w >= 1, h >= 1, l >= 0, t >= 0, r >= 0, b >= 0, PW <= T.TW, PH <= T.TH]     # validated by _init_render_ (unit below)
    self_ = st.new("MyRenderable", {})
    eng.classes["MyRenderable"] = ("Renderable",)
    rdata = st.new("RenderableData", {"size": size_rec(w, h)})
    render_data = st.new("RenderData", {"finalized": False, "fin_calls": 0})
    padding = st.new("Padding", {})
    it = st.new("RenderIterator", {"padded": True, "closed": False})
    eng.genv.update(Renderable=ClassV("Renderable"), NO_PADDING=st.new("Padding", {"none": True}), Size=None)
    eng.methods[("RenderData", "__getitem__")] = lambda e, s, recv, a, k: [(rdata, s)]
    eng.methods[("Padding", "_get_exact_dimensions_")] = lambda e, s, recv, a, k: [((l, t, r, b), s)]
    created = []

    def from_rd(e, s, a, k):
        # contract proved by the C10 unit of RenderIterator._from_render_data_; ownership flag must be False here:
        # the data belongs to draw(), which finalizes it
        e.oblige("C10:animate-keeps-data-ownership-with-draw(finalize=False)", s, k.get("finalize") is False, prop="C10", kind="pre")
        e.oblige("C10:iterator-built-from-the-draw's-render-data", s, a[1] is render_data and a[0] is self_ and a[3] is padding, prop="C10", kind="pre")
        e.raise_(ExcVal("ValueError"), e.fork(s))
        created.append(1)
        return [(it, s)]
    eng.genv["RenderIterator"] = Namespace("RenderIterator", {"_from_render_data_": Fn(from_rd)})

    def it_next(e, s, recv, a, k):
        s = e.fork(s)
        e.oblige("C10:no-next-after-close", s, Not(s.H(it)["closed"]), prop="C10", kind="pre")
        e.raise_(ExcVal("StopIteration"), e.fork(s))
        for exc in ("KeyboardInterrupt", "Boom"):
            e.raise_(ExcVal(exc), T.interrupted(e, s, cursor=False), fault=True)
        if s.H(it)["padded"]:
            out, size = TS([PBlock(e.sym_int("blk"), w, h, l, t, r, b)]), size_rec(PW, PH)
        else:
            out, size = TS([Block(e.sym_int("blk"), w, h)]), size_rec(w, h)
        return [(Rec("Frame", {"number": e.sym_int("no"), "duration": e.sym_int("dur"), "render_size": size, "render_output": out}), s)]
    eng.methods[("RenderIterator", "__next__")] = it_next

    def it_set_padding(e, s, recv, a, k):
        s = e.fork(s)
        none = isinstance(a[0], Ref) and s.H(a[0]).get("none")
        s.H(it)["padded"] = not none
        return [(None, s)]
    eng.methods[("RenderIterator", "set_padding")] = it_set_padding

    def it_close(e, s, recv, a, k):
        s = e.fork(s)
        s.H(it)["closed"] = True
        return [(None, s)]
    eng.methods[("RenderIterator", "close")] = it_close
    eng.genv["perf_counter_ns"] = Fn(lambda e, s, a, k: [(e.sym_int("ns"), s)])

    def sleep(e, s, a, k):
        for exc in ("KeyboardInterrupt", "Boom"):
            e.raise_(ExcVal(exc), T.interrupted(e, s, cursor=False), fault=True)
        return [(None, s)]
    eng.genv["sleep"] = Fn(sleep)
    eng.methods[("Renderable", "_clear_frame_")] = lambda e, s, recv, a, k: [(None, s)]
    eng.methods[("Renderable", "_handle_interrupted_draw_")] = lambda e, s, recv, a, k: [(None, s)]

    # every frame after the first is drawn over the same cells: the block must start at the anchor of the first frame
    def on_block(vt, blk):
        g = vt.g
        vt.oblige("C06:frame-drawn-over-the-same-cells", z3.And(to_z3(g["row"]) == to_z3(g["arow"]), to_z3(g["col"]) == to_z3(g["acol"])), prop="C06", kind="geometry")
    st.ghost["vt"]["on_block"] = on_block

    def inv(s):
        g = s.ghost["vt"]
        ffw = s.lookup("first_frame_written")
        return z3.And(to_z3(g["row"]) == to_z3(g["arow"]), to_z3(g["col"]) == to_z3(g["acol"]), to_z3(g["arow"]) == T.r0 + t, to_z3(g["acol"]) == l,
                      to_z3(g["bottom"]) >= T.r0 + PH - 1, to_z3(g["bottom"]) - T.TH + 1 <= T.r0 + t,
                      to_z3(ffw), z3.BoolVal(g["parser"] == "ground"), z3.BoolVal(g["interrupted"] is False),
                      Not(s.H(it)["closed"]), z3.BoolVal(s.H(it)["padded"] is False))

    def havoc(e, s, tag):
        for nm in ("duration_ms", "start_ns"):
            s.env[nm] = z3.Int(f"{nm}!{tag}")
        s.env["frame"] = Opaque("frame")
        g = dict(s.ghost["vt"])
        for nm in ("row", "col", "bottom", "arow", "acol", "nl", "line_idx", "line_w", "written", "skipped", "blk_col", "blk_line", "blk_id", "ech_to"):
            g[nm] = z3.Int(f"vt_{nm}!{tag}")
        for nm in ("sgr_default", "irregular", "last_nl"):
            g[nm] = z3.Bool(f"vt_{nm}!{tag}")
        g["log"] = []
        s.ghost["vt"] = g
    eng.invariants = {1: LoopSpec(inv, havoc, iterator=True)}
    st.env.update(self=self_, render_data=render_data, render_args=Opaque("render_args"), padding=padding, loops=z3.Int("loops"), cache=Opaque("cache"), output=T.out)
    outs = run_function(eng, ctx.fn(RN, "Renderable._animate_"), st)
    for kind, val, s in outs:
        g = s.ghost["vt"]
        made = it.id in s.heap and any(v is it for f in s.frames for v in f.values())
        if made:
            eng.oblige(f"C10:iterator-closed@{kind}", s, s.H(it)["closed"], prop="C10", kind="exit")
        eng.oblige(f"C10:data-left-to-draw()-un-finalized@{kind}", s, And(s.H(render_data)["finalized"] is False), prop="C10", kind="exit")
        if kind == "raise":
            eng.oblige(f"C07:animation-ends-silently-on-Ctrl-C({val.cls})", s, val.cls != "KeyboardInterrupt", prop="C07", kind="raise")
        if kind in ("normal", "return") and g["interrupted"] is False:
            ffw = s.lookup("first_frame_written")
            eng.oblige("C06:cursor-on-last-line-of-padded-box-after-animation", s,
                       Implies(ffw, And(to_z3(g["row"]) == T.r0 + PH - 1, z3.BoolVal(g["parser"] == "ground"))), prop="C06", kind="post")
    return eng.obligations
