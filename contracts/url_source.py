"""BaseImage.from_url / close under contract (C11): the private temporary copy backing a URL-sourced image exists exactly while that
image is open, and none is left behind when construction fails.  Ghost file system: the set of temporary files created by mkstemp
and not yet removed, the set of descriptors open."""
import z3
from pyvc.runner import unit, run_function
from pyvc.values import *
from pyvc.engine import State
from .common import *

COMMON = "image/common.py"


def fs_world(eng, st):
    st.ghost.update(tmp=[], fds_open=[], written={}, removed=[])

    def mkstemp(e, s, a, k):
        s = e.fork(s)
        path = Rec("tmppath", {"n": len(s.ghost["tmp"]) + len(s.ghost["removed"])})
        fd = Rec("fd", {"n": len(s.ghost["fds_open"])})
        s.ghost["tmp"] = s.ghost["tmp"] + [path]
        s.ghost["fds_open"] = s.ghost["fds_open"] + [fd]
        s.ghost["mkstemp_dir"] = k.get("dir")
        return [((fd, path), s)]

    def os_write(e, s, a, k):
        s = e.fork(s)
        e.oblige("write-to-an-open-descriptor", s, any(a[0] is f for f in s.ghost["fds_open"]), kind="pre")
        s.ghost["written"] = {**s.ghost["written"], a[0].f["n"]: s.ghost["written"].get(a[0].f["n"], []) + [a[1]]}
        return [(None, s)]

    def os_fdopen(e, s, a, k):
        s = e.fork(s)
        return [(s.new("fdfile", {"fd": a[0]}), s)]

    def f_write(e, s, recv, a, k):
        return os_write(e, s, (s.H(recv)["fd"], a[0]), {})

    def f_close(e, s, recv, a, k):
        return os_close(e, s, (s.H(recv)["fd"],), {})
    eng.methods.update({("fdfile", "write"): f_write, ("fdfile", "close"): f_close, ("fdfile", "__enter__"): lambda e, s, recv, a, k: [(recv, s)],
                        ("fdfile", "__exit__"): lambda e, s, recv, a, k: [(False, s2) for _, s2 in f_close(e, s, recv, (), {})]})

    def os_close(e, s, a, k):
        s = e.fork(s)
        s.ghost["fds_open"] = [f for f in s.ghost["fds_open"] if f is not a[0]]
        return [(None, s)]

    def os_remove(e, s, a, k):
        s = e.fork(s)
        if isinstance(a[0], str) and a[0] in s.ghost.get("user_files", []):
            s.ghost["user_files"] = [p for p in s.ghost["user_files"] if p != a[0]]      # a file of the caller's: gone for good
            s.ghost["removed"] = s.ghost["removed"] + [a[0]]
            return [(None, s)]
        if not any(a[0] is p for p in s.ghost["tmp"]):
            e.raise_("FileNotFoundError", s)
            return []
        s.ghost["tmp"] = [p for p in s.ghost["tmp"] if p is not a[0]]
        s.ghost["removed"] = s.ghost["removed"] + [a[0]]
        return [(None, s)]
    eng.genv["mkstemp"] = Fn(mkstemp)
    base = z3.String("url_basename")
    eng.genv["os"] = Namespace("os", {"write": Fn(os_write), "close": Fn(os_close), "remove": Fn(os_remove), "unlink": Fn(os_remove), "fdopen": Fn(os_fdopen),
                                      "path": Namespace("os.path", {"basename": Fn(lambda e, s, a, k: [(base, s)])})})
    eng.theory |= {"tmppath", "fd"}


@unit("C11", "common:BaseImage.from_url")
def u_from_url(ctx):
    eng = ctx.engine("C11/BaseImage.from_url", "C11")
    eng.default_replay = "C11.url_source"
    st = State()
    fs_world(eng, st)
    eng.genv.update(UTIL_ERRS)
    IS = ctx.ns("term_image.image.common").d["ImageSource"]
    eng.genv["ImageSource"] = IS
    eng.genv["_TEMP_DIR"] = "TEMP_DIR"
    for exc in ("URLNotFoundError", "UnidentifiedImageError", "ConnectionError"):
        eng.genv[exc] = ClassV(exc)
        eng.exc_parents[exc] = "Exception"
    url = z3.String("url")
    parts = tuple(z3.String(f"url_part{i}") for i in range(6))
    eng.genv["urlparse"] = Fn(lambda e, s, a, k: [(parts, s)])
    content = Rec("bytes", {"id": z3.Int("response_content")})
    chunks = (Rec("bytes", {"id": z3.Int("response_content"), "part": 0}), Rec("bytes", {"id": z3.Int("response_content"), "part": 1}))
    status = z3.Int("status_code")
    # a streamed body: its chunks, in order, are the content (modelled with two chunks)
    eng.methods[("response", "iter_content")] = lambda e, s, recv, a, k: [(chunks, s)]
    eng.methods[("PIL.Image", "__enter__")] = lambda e, s, recv, a, k: [(recv, s)]
    eng.methods[("PIL.Image", "__exit__")] = lambda e, s, recv, a, k: [(False, s)]

    def requests_get(e, s, a, k):
        e.raise_(ExcVal("ConnectionError"), e.fork(s))
        s = e.fork(s)
        return [(s.new("response", {"status_code": status, "content": content}), s)]
    eng.genv["requests"] = Namespace("requests", {"get": Fn(requests_get)})
    eng.genv["io"] = Namespace("io", {"BytesIO": Fn(lambda e, s, a, k: [(Rec("bytesio", {"of": a[0]}), s)])})

    def image_open(e, s, a, k):
        e.raise_(ExcVal("UnidentifiedImageError", ("cannot identify image file",)), e.fork(s))
        s = e.fork(s)
        return [(s.new("PIL.Image", {"from": a[0]}), s)]
    eng.genv["Image"] = Namespace("Image", {"open": Fn(image_open)})
    cls = ClassV("BlockImage")
    kwargs = st.new("dict", {"@items": {"width": z3.Int("width_arg")}})

    def new_image(e, s, c, a, k):
        # the constructor validates its arguments (width / height / ...) and may reject them
        e.raise_(ExcVal("ValueError"), e.fork(s))
        e.raise_(ExcVal("TypeError"), e.fork(s))
        s = e.fork(s)
        return [(s.new("BlockImage", {"_source": a[0], "_source_type": IS.d["PIL_IMAGE"], "_closed": False}), s)]
    eng.methods["new:BlockImage"] = new_image
    orig_setattr = eng.setattr

    def setattr_(o, name, v, s):
        # `e.args = (...)` on the exception being re-raised: message only
        if isinstance(o, ExcVal):
            return
        return orig_setattr(o, name, v, s)
    eng.setattr = setattr_
    st.env.update(cls=cls, url=url, kwargs=kwargs)
    outs = run_function(eng, ctx.fn(COMMON, "BaseImage.from_url"), st)
    for kind, val, s in outs:
        tmp, fds = s.ghost["tmp"], s.ghost["fds_open"]
        if kind == "raise":
            eng.oblige(f"construction-failed({val.cls}):no-temporary-file-left-behind,no-descriptor-open", s, And(len(tmp) == 0, len(fds) == 0), kind="raise")
            continue
        ok = isinstance(val, Ref) and val.cls == "BlockImage"
        h = s.H(val) if ok else {}
        eng.oblige("opened:exactly-one-temporary-copy,it-is-the-image's-source,written-completely,descriptor-closed", s,
                   And(ok, len(tmp) == 1 and h.get("_source") is tmp[0], h.get("_source_type") is IS.d["URL"], len(fds) == 0,
                       list(s.ghost["written"].values()) in ([[content]], [list(chunks)]), s.ghost.get("mkstemp_dir") == "TEMP_DIR", is_sym(h.get("_url")) and z3.eq(h.get("_url"), url)), kind="post")
    return eng.obligations


@unit("C11", "common:BaseImage.close")
def u_close(ctx):
    obs = []
    IS = ctx.ns("term_image.image.common").d["ImageSource"]
    for source in ("URL", "FILE_PATH", "PIL_IMAGE", "unfinished"):
        for state in ("open", "closed"):
            eng = ctx.engine(f"C11/BaseImage.close[{source},{state}]", "C11")
            eng.default_replay = "C11.url_source"
            st = State()
            fs_world(eng, st)
            st.ghost["user_files"] = ["some/file"]
            eng.genv["ImageSource"] = IS
            eng.closed_classes.add("BlockImage")
            path = Rec("tmppath", {"n": 0})
            pil = st.new("PIL.Image", {"closed": False})
            fields = {"_closed": state == "closed"}
            if source != "unfinished" and state == "open":
                fields.update(_source=path if source == "URL" else ("some/file" if source == "FILE_PATH" else pil), _source_type=IS.d[source])
                if source == "URL":
                    fields["_url"] = "http://x/y.png"
                    st.ghost["tmp"] = [path]
            if source == "unfinished":
                fields = {}           # construction failed before anything was set: close() runs from __del__
            self_ = st.new("BlockImage", fields)
            st.env["self"] = self_
            tmp_file_gone = z3.Bool("temporary_file_already_deleted_by_someone_else")
            for gone in ((False, True) if (source == "URL" and state == "open") else (False,)):
                s0 = st.fork()
                if gone:
                    s0.ghost["tmp"] = []
                for kind, val, s in run_function(eng, ctx.fn(COMMON, "BaseImage.close"), s0):
                    if kind == "raise":
                        eng.oblige(f"close-never-raises({val.cls})", s, False, kind="raise")
                        continue
                    h = s.H(self_)
                    eng.oblige("closed-afterwards;temporary-copy-of-a-URL-source-removed;nothing-else-removed;caller's-PIL-image-untouched", s,
                               And(h.get("_closed") is True, len(s.ghost["tmp"]) == 0,
                                   s.ghost["removed"] == ([path] if (source == "URL" and state == "open" and not gone) else []),
                                   s.H(pil)["closed"] is False), kind="post")
            obs += eng.obligations
    return obs
