"""Shared building blocks for contract files: value constructors and assumed contracts of tiny library helpers."""
import ast
import z3
from pyvc.values import (Rec, Ref, EnumV, ExcVal, Opaque, Fn, ClassV, Closure, Namespace, Unsupported, is_sym, to_z3,
                         And, Or, Not, If, Max, Min, Implies, Eq)
from pyvc.engine import State, Obligation, LoopSpec
from pyvc.runner import run_function


def size_rec(w, h, name="Size"):
    return Rec(name, {"width": w, "height": h})


def fn_size(name):
    """`_Size(w, h)` / `_RawSize(w, h)`: alternate constructors without validation (inline: tuple.__new__)"""
    def f(eng, s, args, kw):
        return [(size_rec(args[0], args[1], name), s)]
    return Fn(f, "_" + name)


def fn_Size_checked(eng, s, args, kw):
    """`Size(w, h)`: raises ValueError unless both >= 1 (geometry.Size.__new__, verified separately in C05/geometry)"""
    w, h = args
    out = []
    for ok, s2 in eng.split(s, And(w >= 1, h >= 1)):
        if ok:
            out.append((size_rec(w, h), s2))
        else:
            eng.raise_(ExcVal("ValueError", ("size",)), s2)
    return out


def arg_value_error_range(eng, s, args, kw):
    return [(ExcVal("ValueError", args), s)]


def arg_value_error_msg(eng, s, args, kw):
    return [(ExcVal("ValueError", args), s)]


def arg_type_error(eng, s, args, kw):
    return [(ExcVal("TypeError", args), s)]


def arg_value_error(eng, s, args, kw):
    return [(ExcVal("ValueError", args), s)]


UTIL_ERRS = {"arg_value_error_range": Fn(arg_value_error_range), "arg_value_error_msg": Fn(arg_value_error_msg),
             "arg_type_error": Fn(arg_type_error), "arg_value_error": Fn(arg_value_error),
             "arg_type_error_msg": Fn(arg_type_error)}


def inline(fnode, eng, name=None):
    """the real function body executed in a fresh frame at every call (contract marked `inline`)"""
    st0 = State()
    return Closure(fnode, 0, name or fnode.name, eng.closure_defaults(fnode, st0))


def dataclass_fields(ctx, rel, cls):
    """field names of a dataclass in declaration order (annotated class-level names)"""
    tree, _ = ctx.tree(rel)
    for n in ast.walk(tree):
        if isinstance(n, ast.ClassDef) and n.name == cls:
            return [x.target.id for x in n.body if isinstance(x, ast.AnnAssign) and isinstance(x.target, ast.Name)]
    raise Unsupported(f"class {cls} not found")


def exits(eng, outs, ensure=None, raises=None, label="", prop=None, replay=None, allow_exc=()):
    """standard exit obligations.
    ensure(value, state) -> goal at normal exits; raises: {ExcName: cond(state)} iff-conditions; any other exception
    class must be unreachable (goal False)."""
    raises = raises or {}
    for kind, val, s in outs:
        if kind == "raise":
            if val.cls in allow_exc:
                continue
            cond = raises.get(val.cls)
            goal = cond(s) if cond is not None else False
            eng.oblige(f"{label}raise:{val.cls}", s, goal, prop=prop, kind="raise", replay=replay)
        elif kind in ("return", "normal"):
            goal = ensure(val, s) if ensure else True
            for c in raises.values():
                goal = And(goal, Not(c(s)))
            eng.oblige(f"{label}post", s, goal, prop=prop, kind="post", replay=replay)
        else:
            raise Unsupported(f"{kind} escaping function")
    return eng.obligations


# ------------------------------------------------------------------------------------------------ loop-carried locals a unit does not know
def unknown_loop_locals(fn_node, loop_node, known):
    """Names assigned inside `loop_node` - directly, or through `nonlocal` by a nested function the loop calls - that are not in
    `known`, with the shapes of the values assigned to them anywhere in the function:
        {name: [("const", v) | ("tuple", k) | ("opaque",)]}
    A unit havocs them at the loop head (one head per combination of shapes), so that a change that introduces a new piece of
    loop-carried state is explored with every value it may hold instead of only its initial one."""
    import ast as _ast
    assigned = {n.id for n in _ast.walk(loop_node) if isinstance(n, _ast.Name) and isinstance(n.ctx, _ast.Store)}
    called = {n.func.id for n in _ast.walk(loop_node) if isinstance(n, _ast.Call) and isinstance(n.func, _ast.Name)}
    for d in _ast.walk(fn_node):
        if isinstance(d, _ast.FunctionDef) and d is not fn_node and d.name in called:
            nl = {x for n in _ast.walk(d) if isinstance(n, _ast.Nonlocal) for x in n.names}
            assigned |= {n.id for n in _ast.walk(d) if isinstance(n, _ast.Name) and isinstance(n.ctx, _ast.Store) and n.id in nl}
    out = {}
    for name in sorted(assigned - set(known)):
        shapes = []
        for n in _ast.walk(fn_node):
            if isinstance(n, _ast.Assign) and any(isinstance(t, _ast.Name) and t.id == name for t in n.targets):
                v = n.value
                if isinstance(v, _ast.Constant):
                    sh = ("const", v.value)
                elif isinstance(v, _ast.Tuple) and not any(isinstance(e_, _ast.Starred) for e_ in v.elts):
                    sh = ("tuple", len(v.elts))
                else:
                    sh = ("opaque",)
                if sh not in shapes:
                    shapes.append(sh)
            elif isinstance(n, _ast.AugAssign) and isinstance(n.target, _ast.Name) and n.target.id == name and isinstance(n.op, (_ast.Add, _ast.Sub)):
                if ("int",) not in shapes:
                    shapes.append(("int",))          # a counter
        if ("int",) in shapes:
            shapes = [sh for sh in shapes if sh[0] != "opaque"]      # its initial value is a number too
        out[name] = shapes or [("opaque",)]
    return out


def havoc_unknown_locals(e, heads, unknown, tag):
    """split every head by the shapes of the unknown names; values of tuple shape are fresh integers"""
    import itertools as _it
    names = sorted(unknown)
    if not names:
        return heads
    out = []
    for h in heads:
        for combo in _it.product(*[unknown[n] for n in names]):
            h2 = e.fork(h)
            # every value of the right shape, whether or not the loop can actually be in that state: a failure found from here on is
            # reported as a violation only if a failing input is found on the real code (runner), as undecided otherwise
            h2.ghost["@over_approx"] = sorted(names)
            for n, sh in zip(names, combo):
                if sh[0] == "const":
                    h2.set_local(n, sh[1]) if hasattr(h2, "set_local") else _set_any_frame(h2, n, sh[1])
                elif sh[0] == "tuple":
                    _set_any_frame(h2, n, tuple(z3.Int(f"{n}{i}!{tag}") for i in range(sh[1])))
                elif sh[0] == "int":
                    _set_any_frame(h2, n, z3.Int(f"{n}!{tag}"))
                else:
                    # unknown shape: if the local currently holds a symbolic number / truth value (e.g. a copy of an attribute the
                    # model keeps as one), any value of that sort; otherwise an opaque value
                    cur = next((f[n] for f in reversed(h2.frames) if n in f), None)
                    if is_sym(cur) and z3.is_int(cur):
                        _set_any_frame(h2, n, z3.Int(f"{n}!{tag}"))
                    elif is_sym(cur) and z3.is_bool(cur):
                        _set_any_frame(h2, n, z3.Bool(f"{n}!{tag}"))
                    elif is_sym(cur) and z3.is_real(cur):
                        _set_any_frame(h2, n, z3.Real(f"{n}!{tag}"))
                    else:
                        o_ = Opaque(n)
                        o_.unknown = True       # nothing is known about it: comparisons with it go both ways (engine.cmp)
                        _set_any_frame(h2, n, o_)
            out.append(h2)
    return out


def _set_any_frame(s, name, value):
    for f in reversed(s.frames):
        if name in f:
            f[name] = value
            return
    s.frames[-1][name] = value


# ------------------------------------------------------------------------------------------------ C11: the iterator's frame image
def frame_image_world(eng, cls, also_same=True):
    """_get_render_data (its own unit proves: the image handed back is the one given, or a new open one) - as seen by a render function:
    besides a new image, the VERY image passed in may come back (nothing had to be converted or resized).  Records the image handed
    back in ghost `rd_returned`; `_close_image` calls are recorded in ghost `closed_ids`."""
    orig = eng.methods[(cls, "_get_render_data")]

    def grd(e, s, recv, a, k):
        res = []
        for val, s2 in orig(e, s, recv, a, k):
            im = val[0]
            s2 = e.fork(s2)
            s2.ghost["rd_returned"] = im
            res.append((val, s2))
            if also_same and isinstance(a[0], Ref):
                s3 = e.fork(s2)
                src = a[0]
                s3.H(src).update({k_: v_ for k_, v_ in s3.H(im).items() if k_ not in ("from", "role")})
                s3.ghost["rd_returned"] = src
                res.append(((src,) + tuple(val[1:]), s3))
        return res
    eng.methods[(cls, "_get_render_data")] = grd
    orig_close = eng.methods.get((cls, "_close_image"))

    def close_image(e, s, recv, a, k):
        s = e.fork(s)
        s.ghost["closed_ids"] = s.ghost.get("closed_ids", []) + [a[0].id if isinstance(a[0], Ref) else None]
        return orig_close(e, s, recv, a, k) if orig_close is not None else [(None, s)]
    eng.methods[(cls, "_close_image")] = close_image


def frame_image_exits(eng, outs, img0, frame, replay="C11.frame_image"):
    """ImageIterator renders every frame from ONE open image (frame=True): the render must not close it; any other image that
    _get_render_data handed back is the render's to close"""
    for kind, val, s in outs:
        closed = s.ghost.get("closed_ids", [])
        fr = to_z3(frame) if is_sym(frame) else z3.BoolVal(bool(frame))
        eng.oblige(f"C11:the-iterator's-own-frame-image-is-not-closed-by-the-render@{kind}", s, Not(fr) if img0.id in closed else True, prop="C11", kind="exit",
                   replay=replay)
        ret = s.ghost.get("rd_returned")
        if kind == "return" and isinstance(ret, Ref):
            eng.oblige("C11:image-handed-back-by-_get_render_data-closed-unless-it-is-the-iterator's-frame-image", s,
                       True if ret.id in closed else (fr if ret is img0 else False), prop="C11", kind="exit", replay=replay)
