"""Old-API image iterator (C09 / C11): ImageIterator._animate as an interleaved generator, __init__ (cache decision), __next__,
seek, close.

Abstract machine (from the class documentation): `repeat` passes over frames 0..NF-1; seek(pos) chooses the next frame without
touching the repeat count; the number of the last yielded frame is the image's seek position; after exhaustion the image is at
frame 0; loop_no counts down once per pass (never for infinite iteration).  The generator protocol: a value yielded in answer to
send() (the acknowledgement seek() discards) is not a frame of the iteration.

FR(n, size) is the uninterpreted result of `_format_render(_render_image(img @ frame n, alpha, frame=True, **style_args), *fmt)`
at image size `size` (deterministic: API contract); PIL raises EOFError when asked for frame NF.
A-HASH: hash() of a rendered size is injective on the sizes that occur (the cache compares hashes, not sizes)."""
import ast
import z3
from pyvc.runner import unit, run_function
from pyvc.values import *
from pyvc.engine import State, LoopSpec
from .common import *

COMMON = "image/common.py"
I, B = z3.IntSort(), z3.BoolSort()
FR = z3.Function("formatted_frame", I, I, I)          # (frame number, size id) -> text id
HASH = z3.Function("py_hash_of_size", I, I)


def dec(x):
    return z3.If(x > 0, x - 1, x)


def animate_unit(cached, pil_source):
    name = f"common:ImageIterator._animate[{'cached' if cached else 'uncached'},{'PIL-source' if pil_source else 'file-source'}]"

    @unit(("C09", "C11", "C20"), name)
    def u(ctx):
        eng = ctx.engine("C11/" + name.split(":", 1)[1], "C11")
        eng.inv_props = ("C09", "C11")
        eng.default_replay = {"C09": "C09.image_iterator", "C11": "C09.image_iterator"}
        st = State()
        NF, R0 = z3.Ints("n_frames repeat0")
        st.pc += [NF >= 2, R0 != 0]          # animated images have at least two frames; repeat = 0 is rejected by __init__
        # A-HASH: hash() is injective on rendered sizes, so the hash of a size is identified with the size itself
        img = st.new("pilimg", {"pos": z3.Int("pil_pos0"), "closed": False})
        image = st.new("BlockImage", {"n_frames": NF, "_seek_position": z3.Int("seek0"), "_source": img if pil_source else "path/to/file"})
        self_ = st.new("ImageIterator", {"_image": image, "_cached": cached, "_repeat": R0, "_loop_no": None})
        st.ghost.update(size=z3.Int("size0"), renders=0, g_next=z3.IntVal(0), g_rep=R0, last_real=False, seeks=0)
        eng.attrs[("BlockImage", "rendered_size")] = lambda e, s, v: [(Rec("sizeid", {"id": s.ghost["size"]}), s)]
        # one dimension of the rendered size: a function of the size that does NOT determine it (different sizes share a width)
        WIDTH_OF, HEIGHT_OF = z3.Function("rendered_width_of", I, I), z3.Function("rendered_height_of", I, I)
        eng.attrs[("BlockImage", "rendered_width")] = lambda e, s, v: [(Rec("dimid", {"id": WIDTH_OF(s.ghost["size"])}), s)]
        eng.attrs[("BlockImage", "rendered_height")] = lambda e, s, v: [(Rec("dimid", {"id": HEIGHT_OF(s.ghost["size"])}), s)]
        # the size SETTING (a Size member or a pair): with a dynamic setting the rendered size changes (terminal resized, cell ratio
        # changed) while the setting stays what it is
        eng.attrs[("BlockImage", "_size")] = lambda e, s, v: [(Rec("dimid", {"id": z3.Int("size_setting")}), s)]
        eng.attrs[("BlockImage", "size")] = lambda e, s, v: [(Rec("dimid", {"id": z3.Int("size_setting")}), s)]
        eng.genv["hash"] = Fn(lambda e, s, a, k: [(a[0].f["id"], s)] if isinstance(a[0], Rec) and a[0].name in ("sizeid", "dimid") else _unsup("hash of another value"))

        def _unsup(msg):
            raise Unsupported(msg)

        def m_render(e, s, recv, a, k):
            if not (len(a) == 2 and a[0] is img and k.get("frame") is True):
                raise Unsupported("_render_image called differently")
            n = s.H(recv)["_seek_position"]
            outs = []
            for ok, s2 in e.split(s, z3.And(n >= 0, n < NF)):
                if not ok:
                    e.raise_("EOFError", e.fork(s2, n == NF))        # PIL: seeking to frame NF; other values never reach here (obligation)
                    e.oblige("frame-requested-from-PIL-in-[0,NF]", s2, n == NF, kind="safety")
                    continue
                s2 = e.fork(s2)
                s2.ghost["renders"] = s2.ghost["renders"] + 1
                outs.append((Rec("raw", {"n": n, "size": s2.ghost["size"], "alpha": a[1], "style": tuple(sorted(k.items(), key=lambda kv: kv[0]))}), s2))
            return outs
        eng.methods[("BlockImage", "_render_image")] = m_render
        FMT = ("<", z3.Int("fmt_w"), "^", z3.Int("fmt_h"))
        ALPHA, STYLE = z3.Real("alpha_v"), st.new("dict", {"@items": {"style_arg": z3.Int("style_v")}})

        def m_format(e, s, recv, a, k):
            raw = a[0]
            ok = isinstance(raw, Rec) and raw.name == "raw" and raw.f["alpha"] is ALPHA and len(a) == 5 and all(x is y for x, y in zip(a[1:], FMT)) \
                and raw.f["style"] == (("frame", True), ("style_arg", s.H(STYLE)["@items"]["style_arg"]))
            e.oblige("C11:frame-rendered-with-the-iterator's-own-alpha,style-arguments-and-format", s, ok, prop="C11", kind="pre")
            e.oblige("C09:frame-rendered-with-the-iterator's-own-alpha,style-arguments-and-format(cached-or-not)", s, ok, prop="C09", kind="pre")
            # C20: a render method given for this iteration (specifier / draw(method=...)) is a style argument: every frame, whenever
            # it is rendered, uses it
            e.oblige("C20:every-frame-rendered-with-the-style-arguments-of-this-iteration(per-call-method-override-included)", s, ok, prop="C20", kind="pre",
                     replay="C09.image_iterator")
            if not ok:
                return [(Rec("text", {"id": e.sym_int("some_other_text")}), s)]          # some other text: the run goes on, the obligation above has failed
            return [(Rec("text", {"id": FR(raw.f["n"], raw.f["size"])}), s)]
        eng.methods[("BlockImage", "_format_render")] = m_format

        def m_seek(e, s, recv, a, k):
            s = e.fork(s)
            s.H(recv)["pos"] = to_z3(a[0])
            s.ghost["seeks"] = s.ghost["seeks"] + 1
            return [(None, s)]
        eng.methods[("pilimg", "seek")] = m_seek

        # ---- the cache list
        clist = st.new("cachelist", {"f": None, "h": None, "none": None})

        def list_repeat(e, s, items, n):
            if items != ((None, None),):
                raise Unsupported("cache initialiser shape")
            e.oblige("C09:cache-length=frame-count", s, to_z3(n) == NF, prop="C09", kind="safety")
            s = e.fork(s)
            s.H(clist).update(f=z3.K(I, z3.IntVal(-1)), h=z3.K(I, z3.IntVal(-1)), none=z3.K(I, z3.BoolVal(True)))
            return [(clist, s)]
        eng.list_repeat_hook = list_repeat

        def idx(e, s, i):
            i = to_z3(i)
            e.oblige("C09:cache-index-in-bounds", s, z3.And(i >= -NF, i < NF), prop="C09", kind="safety")
            return z3.If(i < 0, i + NF, i)

        def cl_get(e, s, recv, a, k):
            i = idx(e, s, a[0])
            c = s.H(recv)
            outs = []
            for empty, s2 in e.split(s, c["none"][i]):
                outs.append(((None, None) if empty else (Rec("text", {"id": c["f"][i]}), c["h"][i]), s2))
            return outs

        def cl_set(e, s, recv, a, k):
            i = idx(e, s, a[0])
            tup = a[1]
            if not (isinstance(tup, tuple) and len(tup) == 2 and isinstance(tup[0], Rec) and tup[0].name == "text" and (is_sym(tup[1]) or tup[1] is None)):
                raise Unsupported("cache entry shape")
            c = s.H(recv)
            if tup[1] is None:
                # (frame, None): an entry whose stored hash equals no size - it can never be served, which is what `none` says
                c["none"] = z3.Store(c["none"], i, True)
                return [(None, s)]
            c["f"], c["h"], c["none"] = z3.Store(c["f"], i, tup[0].f["id"]), z3.Store(c["h"], i, tup[1]), z3.Store(c["none"], i, False)
            return [(None, s)]
        eng.methods.update({("cachelist", "__getitem__"): cl_get, ("cachelist", "__setitem__"): cl_set,
                            ("cachelist", "__len__"): lambda e, s, recv, a, k: [(NF, s)]})

        def cache_inv(s):
            if not cached or s.H(clist)["f"] is None:
                return z3.BoolVal(True)
            c = s.H(clist)
            i = z3.Int("ci")
            # every filled entry is the formatted frame of its own index at the size whose hash is stored with it
            return z3.ForAll([i], z3.Implies(z3.And(0 <= i, i < NF, z3.Not(c["none"][i])), c["f"][i] == FR(i, c["h"][i])))

        # ---- yields
        def on_yield(e, node, v, s):
            s = e.fork(s)
            tag = f"y{next(e.fresh)}"
            sent = s.lookup("sent")
            im, it = s.H(image), s.H(self_)
            if sent is None:
                gn, gr = s.ghost["g_next"], s.ghost["g_rep"]
                m = z3.If(gn < NF, gn, 0)
                rep = z3.If(gn < NF, gr, dec(gr))
                okv = isinstance(v, Rec) and v.name == "text"
                e.oblige("C11:yielded=the-frame-chosen(next-in-order-or-sought),formatted-at-the-current-image-size", s,
                         And(okv, v.f["id"] == FR(m, s.ghost["size"])) if okv else False, prop="C11", kind="yield")
                e.oblige("C09:yielded=fresh-render-of-that-frame-at-the-current-size(cached-or-not)", s,
                         And(okv, v.f["id"] == FR(m, s.ghost["size"])) if okv else False, prop="C09", kind="yield")
                e.oblige("C11:image's-current-frame=the-frame-just-yielded", s, Eq(im["_seek_position"], m), prop="C11", kind="yield")
                e.oblige("C11:passes-counted(loop_no=remaining-passes,never-zero-while-yielding)", s, And(Eq(it["_loop_no"], rep), rep != 0), prop="C11", kind="yield")
                s.ghost["g_next"], s.ghost["g_rep"] = m, rep
                s.ghost["last_real"] = True
            # interference while suspended: the image size may change; the next resume is next() (None) or seek(pos) (send)
            s.ghost["size"] = z3.Int(f"size!{tag}")
            s.ghost["renders"] = 0
            outs = []
            s_none = e.fork(s)
            if s.ghost["last_real"] is True:
                s_none.ghost["g_next"] = s.ghost["g_next"] + 1
            s_none.ghost["last_real"] = False
            outs.append((None, s_none))
            pos = z3.Int(f"pos!{tag}")
            s_send = e.fork(s, z3.And(pos >= 0, pos < NF))          # seek() validates 0 <= pos < n_frames
            s_send.ghost["g_next"] = pos
            s_send.ghost["last_real"] = False
            outs.append((pos, s_send))
            return outs
        eng.on_yield = on_yield

        def head_inv(s, inner=False, later=False):
            """at every loop head: either nothing happened since the last resume (D1), or the pass just wrapped around (D2: the ghost
            still says `past the end`, the code is back at frame 0 with one pass less and the image at frame 0)"""
            it, im = s.H(self_), s.H(image)
            n, rep, sent = to_z3(s.lookup("n")), to_z3(s.lookup("repeat")), s.lookup("sent")
            gn, gr = s.ghost["g_next"], s.ghost["g_rep"]
            parts = [Eq(it["_loop_no"], rep), s.ghost["renders"] == 0, z3.BoolVal(s.ghost["last_real"] is False), gn >= 0, gn <= NF, gr != 0, cache_inv(s)]
            if sent is None:
                parts.append(z3.Or(z3.And(n == gn, rep == gr), z3.And(gn == NF, n == 0, rep == dec(gr), to_z3(Eq(im["_seek_position"], 0)))))
            else:
                parts += [n == to_z3(sent) - 1, gn == to_z3(sent), to_z3(sent) >= 0, to_z3(sent) < NF, rep == gr]
            if inner:
                parts.append(rep != 0)
            if later and not cached:
                parts.append(rep == 0)        # without a cache the first loop only ends when no pass is left
            if "n_frames" in s.env:
                parts.append(to_z3(s.env["n_frames"]) == NF)
            return z3.And(*[to_z3(p) for p in parts])

        def havoc(sent_kinds, assigned=()):
            def f(e, s, tag):
                heads = []
                for kind_ in sent_kinds:
                    h = e.fork(s)
                    h.env["n"], h.env["repeat"] = z3.Int(f"n!{tag}"), z3.Int(f"repeat!{tag}")
                    h.env["sent"] = None if kind_ == "none" else z3.Int(f"sent!{tag}")
                    h.env["frame"] = Rec("text", {"id": z3.Int(f"frame!{tag}")})
                    for nm in assigned:
                        if nm not in ("n", "repeat", "sent", "frame"):
                            h.env[nm] = Opaque(nm)        # other locals written in the loop: re-assigned before use, or the run is undecided
                    h.H(self_)["_loop_no"] = z3.Int(f"loop_no!{tag}")
                    h.H(image)["_seek_position"] = z3.Int(f"seekpos!{tag}")
                    h.ghost.update(size=z3.Int(f"size!{tag}"), renders=0, g_next=z3.Int(f"g_next!{tag}"), g_rep=z3.Int(f"g_rep!{tag}"), last_real=False)
                    if cached and h.H(clist)["f"] is not None:
                        h.H(clist).update(f=z3.Array(f"cf!{tag}", I, I), h=z3.Array(f"ch!{tag}", I, I), none=z3.Array(f"cnone!{tag}", I, B))
                    heads.append(h)
                return heads
            return f
        fn = ctx.fn(COMMON, "ImageIterator._animate")
        eng.number_loops(fn)
        loops = sorted([x for x in ast.walk(fn) if isinstance(x, ast.While)], key=lambda x: (x.lineno, x.col_offset))
        for lid, loop in enumerate(loops, 1):
            inner = any(o is not loop and any(n_ is loop for n_ in ast.walk(o)) for o in loops)
            outer_of_inner = any(o is not loop and any(n_ is o for n_ in ast.walk(loop)) for o in loops)
            eng.invariants[lid] = LoopSpec((lambda inner_, later_: lambda s: head_inv(s, inner_, later_))(inner, lid > 1),
                                           havoc(("none", "sent"), {x.id for x in ast.walk(loop) if isinstance(x, ast.Name) and isinstance(x.ctx, ast.Store)}))
        st.env.update(self=self_, img=img, alpha=ALPHA, fmt=FMT, style_args=STYLE)
        outs = run_function(eng, fn, st)
        for kind, val, s in outs:
            if kind == "raise":
                eng.oblige(f"no-exception:{val.cls}", s, False, kind="raise")
                continue
            gn, gr = s.ghost["g_next"], s.ghost["g_rep"]
            eng.oblige("C11:stops-exactly-when-the-last-pass-is-exhausted,loop_no=0", s, And(gn >= NF, dec(gr) == 0, Eq(s.H(self_)["_loop_no"], 0)), prop="C11", kind="exit")
            eng.oblige("C11:image-back-at-frame-0-on-exhaustion", s, Eq(s.H(image)["_seek_position"], 0), prop="C11", kind="exit")
            eng.oblige("C11:caller's-PIL-image-rewound,not-closed", s,
                       And(s.H(img)["closed"] is False, Eq(s.H(img)["pos"], 0) if pil_source else True), prop="C11", kind="exit")
        return eng.obligations
    return u


for _c in (True, False):
    for _p in (True, False):
        animate_unit(_c, _p)


# ------------------------------------------------------------------------------------------------ close / __next__ / seek
def _iter_world(ctx, label, started):
    """an ImageIterator whose generator is suspended (`started`) or not yet run; the generator is a contract object"""
    eng = ctx.engine(label, "C11")
    eng.default_replay = "C11.image_iterator_ops"
    st = State()
    NF = z3.Int("n_frames")
    st.pc.append(NF >= 2)
    img = st.new("pilimg", {"closed": False})
    image = st.new("BlockImage", {"n_frames": NF})
    gen = st.new("generator", {"closed": False, "started": started, "holds": img})
    fields = {"_image": image, "_animator": gen, "_repeat": z3.Int("repeat"), "_format": "", "_cached": z3.Bool("cached"), "_loop_no": z3.Int("loop_no")}
    if started:
        fields["_img"] = img            # _animate stores it first thing
    self_ = st.new("ImageIterator", fields)
    eng.closed_classes |= {"ImageIterator"}
    st.ghost.update(close_image_calls=[], gen_close_calls=0)

    def m_close_image(e, s, recv, a, k):
        s = e.fork(s)
        s.ghost["close_image_calls"] = s.ghost["close_image_calls"] + [a[0]]
        return [(None, s)]
    eng.methods[("BlockImage", "_close_image")] = m_close_image

    def g_close(e, s, recv, a, k):
        s = e.fork(s)
        s.H(recv)["closed"] = True
        s.ghost["gen_close_calls"] = s.ghost["gen_close_calls"] + 1
        return [(None, s)]
    eng.methods[("generator", "close")] = g_close
    return eng, st, self_, image, img, gen, NF


def closed_ok(s, self_, gen, img, started):
    """the iterator's resources are released: generator closed and dropped, the opened image handed to _close_image exactly once
    (a generator that never ran holds the only reference to the image: dropping it releases the file -- CPython reference counting)"""
    h = s.H(self_)
    calls = s.ghost["close_image_calls"]
    return And(s.H(gen)["closed"] is True, "_animator" not in h, "_img" not in h,
               (len(calls) == 1 and calls[0] is img) if started else len(calls) == 0)


def close_unit(started):
    @unit("C11", f"common:ImageIterator.close[{'started' if started else 'never-run'}]")
    def u(ctx, started=started):
        eng, st, self_, image, img, gen, NF = _iter_world(ctx, f"C11/ImageIterator.close[{'started' if started else 'never-run'}]", started)
        fn = ctx.fn(COMMON, "ImageIterator.close")
        st.env["self"] = self_
        for kind, val, s in run_function(eng, fn, st):
            if kind == "raise":
                eng.oblige(f"close-never-raises({val.cls})", s, False, kind="raise")
                continue
            eng.oblige("generator-closed-and-dropped,opened-image-closed-exactly-once", s, closed_ok(s, self_, gen, img, started), kind="post")
            # idempotence: a second close() changes nothing and does not raise
            s2 = s.fork()
            s2.frames = [dict(self=self_)]
            before = (list(s.ghost["close_image_calls"]), s.ghost["gen_close_calls"], dict(s.H(self_)))
            for k2, v2, s3 in run_function(eng, fn, s2):
                same = k2 != "raise" and s3.ghost["close_image_calls"] == before[0] and s3.ghost["gen_close_calls"] == before[1] and s3.H(self_) == before[2]
                eng.oblige("second-close-is-a-no-op", s3, same, kind="post")
        return eng.obligations
    return u


for _s in (True, False):
    close_unit(_s)


@unit("C11", "common:ImageIterator.close+BaseImage._close_image")
def u_close_real_close_image(ctx):
    """close() of an iterator with the REAL BaseImage._close_image underneath, also when the image itself was closed first (its
    `_source` is gone by then): a file the iterator opened is closed whatever the order of the two closes; the caller's PIL image is
    never closed."""
    obs = []
    IS = ctx.ns("term_image.image.common").d["ImageSource"]
    for pil_source in (False, True):
        for image_closed_first in (False, True):
            label = f"C11/ImageIterator.close[{'PIL' if pil_source else 'file'}-source,image-{'closed-first' if image_closed_first else 'open'}]"
            eng, st, self_, image, img, gen, NF = _iter_world(ctx, label, True)
            eng.default_replay = "C11.close_order"
            eng.genv["ImageSource"] = IS
            h = st.H(image)
            h["_source_type"] = IS.d["PIL_IMAGE"] if pil_source else IS.d["FILE_PATH"]
            h["_closed"] = image_closed_first
            if not image_closed_first:
                h["_source"] = img if pil_source else "SRC_PATH"
            eng.closed_classes.add("BlockImage")
            real = inline(ctx.fn(COMMON, "BaseImage._close_image"), eng)
            eng.methods[("BlockImage", "_close_image")] = lambda e, s, recv, a, k, real=real: e.call(real, (recv,) + tuple(a), k, s)
            st.ghost["pil_close_calls"] = 0

            def pil_close(e, s, recv, a, k):
                s = e.fork(s)
                s.H(recv)["closed"] = True
                s.ghost["pil_close_calls"] = s.ghost["pil_close_calls"] + 1
                return [(None, s)]
            eng.methods[("pilimg", "close")] = pil_close
            st.env["self"] = self_
            for kind, val, s in run_function(eng, ctx.fn(COMMON, "ImageIterator.close"), st):
                if kind == "raise":
                    eng.oblige(f"close-never-raises({val.cls})", s, False, kind="raise")
                    continue
                if pil_source:
                    eng.oblige("the-caller's-PIL-image-is-not-closed", s, And(s.H(img)["closed"] is False, s.ghost["pil_close_calls"] == 0), kind="post")
                else:
                    eng.oblige("the-file-the-iterator-opened-is-closed(whichever-of-image-and-iterator-is-closed-first)", s,
                               And(s.H(img)["closed"] is True, s.ghost["pil_close_calls"] == 1), kind="post")
                eng.oblige("generator-closed", s, s.H(gen)["closed"] is True, kind="post")
            obs += eng.obligations
    return obs


@unit("C11", "common:ImageIterator.__next__")
def u_next(ctx):
    obs = []
    for state in ("open", "closed"):
        eng, st, self_, image, img, gen, NF = _iter_world(ctx, f"C11/ImageIterator.__next__[{state}]", True)
        close_fn = inline(ctx.fn(COMMON, "ImageIterator.close"), eng)
        eng.methods[("ImageIterator", "close")] = lambda e, s, recv, a, k: e.call(close_fn, (recv,), {}, s)
        if state == "closed":
            for k_ in ("_animator", "_img"):
                del st.H(self_)[k_]
            st.H(gen)["closed"] = True
            st.ghost["close_image_calls"] = [img]
        FRAME = Rec("text", {"id": z3.Int("frame")})

        def g_next(e, s, recv, a, k):
            # contract of the suspended generator (the _animate units): a frame, or exhaustion, or an error raised while rendering
            outs = [(FRAME, s)]
            e.raise_(ExcVal("StopIteration"), e.fork(s))
            e.raise_(ExcVal("Boom"), e.fork(s))
            ae = ExcVal("AttributeError", ("tobytes",))      # an AttributeError from inside the render, about something else
            e.raise_(ae, e.fork(s))
            return outs
        eng.methods[("generator", "__next__")] = g_next
        st.env["self"] = self_
        for kind, val, s in run_function(eng, ctx.fn(COMMON, "ImageIterator.__next__"), st):
            if state == "closed":
                eng.oblige("closed-iterator:StopIteration,nothing-else-happens", s,
                           kind == "raise" and val.cls == "StopIteration" and s.ghost["close_image_calls"] == [img] and s.ghost["gen_close_calls"] == 0, kind="raise" if kind == "raise" else "post")
            elif kind == "raise":
                eng.oblige(f"{val.cls}:iterator-closed-before-the-error-leaves(no-open-image-left)", s,
                           And(val.cls in ("StopIteration", "Boom", "AttributeError"), closed_ok(s, self_, gen, img, True)), kind="raise")
            else:
                eng.oblige("a-frame:iterator-stays-open", s, And(val is FRAME, s.ghost["close_image_calls"] == [], "_animator" in s.H(self_)), kind="post")
        obs += eng.obligations
    return obs


@unit("C11", "common:ImageIterator.seek")
def u_seek(ctx):
    obs = []
    for state in ("suspended", "never-run", "closed"):
        eng, st, self_, image, img, gen, NF = _iter_world(ctx, f"C11/ImageIterator.seek[{state}]", state == "suspended")
        eng.genv.update(UTIL_ERRS)
        eng.exc_parents["TermImageError"] = "Exception"
        eng.genv["TermImageError"] = ClassV("TermImageError")
        if state == "closed":
            for k_ in ("_animator", "_img"):
                st.H(self_).pop(k_, None)
        pos = z3.Int("pos")
        st.ghost["sent"] = []

        def g_send(e, s, recv, a, k):
            if not s.H(recv)["started"]:
                e.raise_(ExcVal("TypeError"), s)            # can't send non-None value to a just-started generator
                return []
            s = e.fork(s)
            s.ghost["sent"] = s.ghost["sent"] + [a[0]]
            return [(Rec("text", {"id": z3.Int("ack")}), s)]
        eng.methods[("generator", "send")] = g_send
        st.env.update(self=self_, pos=pos)
        for kind, val, s in run_function(eng, ctx.fn(COMMON, "ImageIterator.seek"), st):
            valid = z3.And(pos >= 0, pos < NF)
            sent = s.ghost["sent"]
            if kind == "raise":
                want = {"ValueError": z3.Not(valid), "TermImageError": z3.And(valid, z3.BoolVal(state != "suspended"))}.get(val.cls, z3.BoolVal(False))
                eng.oblige(f"rejected({val.cls})-exactly-when-out-of-range-or-not-iterating;nothing-sent", s, And(want, len(sent) == 0), kind="raise")
            else:
                eng.oblige("accepted:in-range,iterating,position-handed-to-the-generator-once", s, And(valid, state == "suspended", len(sent) == 1 and sent[0] is pos), kind="post")
        obs += eng.obligations
    return obs
