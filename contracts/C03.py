"""C03 - Graphics renders transmit exactly the image, in well-formed protocol framing."""
from .render_kitty import *
from .render_iterm2 import *
from .render_data import *     # noqa: F401,F403  what is transmitted is what _get_render_data hands over

TRUSTED = ["zlib / base64 / PNG / JPEG codecs are inverse pairs; len(b64(x)) = 4*ceil(len(x)/3) over an alphabet without ESC; len(img.tobytes()) = w*h*len(mode)",
           "the kitty / iTerm2 protocol meaning of the keys (a, f, t, s, v, z, o, C, c, r, m; size=, width=, height=)"]
ASSUMPTIONS = []
NOT_DECIDED = ["that the decoded payload equals the expected pixels (depends on PIL and the codecs; outside the library's own code)"]
