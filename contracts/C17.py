"""C17 - Trimming an image canvas equals cropping what the full canvas shows."""
import z3
from pyvc.runner import unit, run_function
from pyvc.values import *
from pyvc.engine import State
from spec import trim as ST
from .common import *

URW = "widget/_urwid.py"
TRUSTED = ["urwid calls content() with 0 <= trim_left, trim_top and trim + visible <= size (its canvas protocol)"]
ASSUMPTIONS = []
NOT_DECIDED = []


@unit("C17", "_urwid:UrwidImageCanvas._ti_calc_trim")
def u_calc_trim(ctx):
    eng = ctx.engine("C17/_ti_calc_trim", "C17")
    st = State()
    size, img, t1, p1, t2, p2 = z3.Ints("size image_size trim_side1 pad_side1 trim_side2 pad_side2")
    st.pc += [img >= 1, p1 >= 0, p2 >= 0, p1 + img + p2 == size, t1 >= 0, t2 >= 0, t1 + t2 < size]
    st.env.update(size=size, image_size=img, trim_side1=t1, pad_side1=p1, trim_side2=t2, pad_side2=p2)
    outs = run_function(eng, ctx.fn(URW, "UrwidImageCanvas._ti_calc_trim"), st)
    spec = ST.spec_calc_trim(size, img, t1, p1, t2, p2)

    def ensure(v, s):
        np1, c1, c2, np2 = v
        return And(Eq(v, spec),
                   # consequence stated by the property: the kept pieces tile the window exactly
                   np1 + Max(img - c1 - c2, 0) + np2 == size - t1 - t2)
    return exits(eng, outs, ensure=ensure, replay="C17.calc_trim")
