"""C17 - Trimming an image canvas equals cropping what the full canvas shows."""
import z3
from pyvc.runner import unit, run_function
from pyvc.values import *
from pyvc.engine import State
from spec import trim as ST
from spec import padding as SP
from pyvc.engine import LoopSpec
from pyvc.tstr import TS, Rep, Text, Cond
from .render_kitty import class_literals
from .render_block import *   # noqa: F401,F403  (split-cell structure of the block render: what content() relies on)
from .common import *

URW = "widget/_urwid.py"
TRUSTED = ["urwid calls content() with 0 <= trim_left, trim_top and trim + visible <= size (its canvas protocol)"]
ASSUMPTIONS = []
NOT_DECIDED = []


@unit("C17", "_urwid:UrwidImageCanvas._ti_calc_trim")
def u_calc_trim(ctx):
    eng = ctx.engine("C17/_ti_calc_trim", "C17")
    st = State()
    size, img, t1, p1, t2, p2 = z3.Ints("size image_size trim_side1 pad_side1 trim_side2 pad_side2")
    st.pc += [img >= 1, p1 >= 0, p2 >= 0, p1 + img + p2 == size, t1 >= 0, t2 >= 0, t1 + t2 < size]
    st.env.update(size=size, image_size=img, trim_side1=t1, pad_side1=p1, trim_side2=t2, pad_side2=p2)
    outs = run_function(eng, ctx.fn(URW, "UrwidImageCanvas._ti_calc_trim"), st)
    spec = ST.spec_calc_trim(size, img, t1, p1, t2, p2)

    def ensure(v, s):
        np1, c1, c2, np2 = v
        return And(Eq(v, spec),
                   # consequence stated by the property: the kept pieces tile the window exactly
                   np1 + Max(img - c1 - c2, 0) + np2 == size - t1 - t2)
    return exits(eng, outs, ensure=ensure, replay="C17.calc_trim")


# ------------------------------------------------------------------------------------------------ rows() announces what render() produces
@unit("C17", "_urwid:UrwidImage.rows-vs-render")
def u_rows_render(ctx):
    """flow widgets: the row count announced by rows((cols,)) equals the number of rows of the canvas render((cols,)) builds.
    _valid_size is an uninterpreted deterministic function of its arguments (its own contract is C04)."""
    obs = []
    I = z3.IntSort()
    VW = z3.Function("valid_w", I, I, I, I)
    VH = z3.Function("valid_h", I, I, I, I)
    ns = ctx.ns("term_image.image.common")
    SizeNS = ns.d["Size"]
    for sizing in ("FIT", "AUTO"):
        eng = ctx.engine(f"C17/rows-vs-render[{sizing}]", "C17")
        eng.default_replay = "C17.rows"
        st = State()
        cols = z3.Int("cols")
        st.pc.append(cols >= 1)
        eng.genv["Size"] = SizeNS
        eng.genv["UrwidImageError"] = ClassV("UrwidImageError")

        def code(v):
            if v is None:
                return z3.IntVal(-1)
            if isinstance(v, EnumV):
                return z3.IntVal(-2 - ["FIT", "AUTO", "ORIGINAL", "FIT_TO_WIDTH"].index(v.name))
            return to_z3(v)

        def valid_size(e, s, recv, a, k):
            a = list(a) + [None] * (2 - len(a))
            w, h = code(a[0]), code(a[1])
            ep = s.ghost.get("epoch", 1)          # terminal conditions (size, cell ratio) may differ between calls made at different times
            r = (VW(ep, w, h), VH(ep, w, h))
            s.pc += [r[0] >= 1, r[1] >= 1]
            return [(r, s)]
        eng.methods[("BlockImage", "_valid_size")] = valid_size

        def set_size(e, s, recv, a, k):
            # contract of set_size (C04): stores _valid_size(width, height, frame_size) (default frame size here)
            if k.get("frame_size") is not None or len(a) > 2:
                raise Unsupported("set_size with a frame size in the flow branch")
            s = e.fork(s)
            (r, s), = valid_size(e, s, recv, a, k)
            s.H(recv)["_size"] = r
            return [(None, s)]
        eng.methods[("BlockImage", "set_size")] = set_size
        image = st.new("BlockImage", {"_size": (z3.Int("old_w"), z3.Int("old_h"))})
        # the size an earlier operation left on the image (any): what the width / height / size properties report
        eng.attrs[("BlockImage", "width")] = lambda e, s, v: [(s.H(v)["_size"][0], s)]
        eng.attrs[("BlockImage", "height")] = lambda e, s, v: [(s.H(v)["_size"][1], s)]
        eng.attrs[("BlockImage", "size")] = lambda e, s, v: [(s.H(v)["_size"], s)]
        self_ = st.new("UrwidImage", {"_ti_image": image, "_ti_sizing": SizeNS.d[sizing], "_ti_alpha": None, "_ti_style_args": st.new("dict", {"@items": {}}),
                                      "_ti_h_align": "<", "_ti_v_align": "^"})
        # class-level defaults of the widget (attributes the model does not know are looked up there, as python does)
        for k_, v_ in class_literals(ctx, URW, "UrwidImage").items():
            if k_ not in st.H(self_) and (v_ is None or isinstance(v_, (int, str, bool, tuple))):
                st.H(self_)[k_] = v_
        canv = {}

        def new_canvas(e, s, c, a, k):
            s = e.fork(s)
            o = s.new("UrwidImageCanvas", {"render": a[0], "size": a[1], "image_size": a[2]})
            return [(o, s)]
        eng.methods["new:UrwidImageCanvas"] = new_canvas
        eng.genv["UrwidImageCanvas"] = ClassV("UrwidImageCanvas")
        def m_renderer(e, s, recv, a, k):
            e.raise_(ExcVal("Boom"), e.fork(s))          # the image may fail to render: the widget then shows its error placeholder
            return [(Opaque("render"), s)]
        eng.methods[("BlockImage", "_renderer")] = m_renderer
        eng.exc_parents.setdefault("Boom", "Exception")

        def placeholder_render(e, s, recv, a, k):
            # any widget: given a box size (cols, rows) its canvas has that many rows; given a flow size (cols,) as many as IT needs
            sz = a[0]
            s = e.fork(s)
            if len(sz) == 2:
                rows_ = sz[1]
            else:
                rows_ = e.sym_int("placeholder_own_rows")
                s.pc.append(rows_ >= 1)
            return [(s.new("UrwidImageCanvas", {"render": Rec("formatted", {"size": (sz[0], rows_)}), "size": (sz[0], rows_), "image_size": (sz[0], rows_), "placeholder": True}), s)]
        eng.methods[("placeholderwidget", "render")] = placeholder_render
        PLACEHOLDER = st.new("placeholderwidget", {})
        eng.methods[("BlockImage", "_format_render")] = lambda e, s, recv, a, k: [(Rec("formatted", {"size": (a[2], a[4])}), s)]
        eng.attrs[("BlockImage", "_render_image")] = lambda e, s, v: [(Opaque("method"), s)]
        WCLS = st.new("wcls", {"_ti_error_placeholder": PLACEHOLDER})
        eng.genv["type"] = Fn(lambda e, s, a, k: [(WCLS, s)])

        def call(which, s, width):
            s = s.fork()
            s.frames = [dict(self=self_, size=(width,), focus=False)]
            return run_function(eng, ctx.fn(URW, "UrwidImage." + which), s)
        # history: anything the widget did earlier under other terminal conditions (epoch 0), then rows() and render() now (epoch 1)
        cols0 = z3.Int("earlier_cols")
        st.pc.append(cols0 >= 1)
        preludes = [("fresh", st)]
        for which in ("rows", "render"):
            s0 = st.fork()
            s0.ghost["epoch"] = 0
            for k0, v0, sp in call(which, s0, cols0):
                if k0 == "return":
                    preludes.append((which, sp))
        for pname, sp in preludes:
            sp = sp.fork()
            sp.ghost["epoch"] = 1
            for k1, v1, sa in call("rows", sp, cols):
                if k1 != "return":
                    eng.oblige(f"after[{pname}]/rows:no-exception", sa, False, kind="raise")
                    continue
                for k2, v2, sb in call("render", sa, cols):
                    if k2 != "return":
                        eng.oblige(f"after[{pname}]/render:no-exception", sb, False, kind="raise")
                        continue
                    csize = sb.H(v2)["size"]
                    eng.oblige(f"after[{pname}]/announced-rows=rows-of-the-rendered-canvas", sb, And(Eq(v1, csize[1]), Eq(csize[0], cols)), kind="post")
                    if not sb.H(v2).get("placeholder"):
                        eng.oblige(f"after[{pname}]/canvas-size=formatted-render-size=(cols,image-height)", sb,
                                   And(Eq(csize, sb.H(v2)["render"].f["size"]), Eq(csize[1], sb.H(v2)["image_size"][1])), kind="post")
        obs += eng.obligations
    return obs


# ------------------------------------------------------------------------------------------------ UrwidImageCanvas.content()
# Specification theory of a formatted text render as the canvas stores it (assumed structure, established by C01/C02/C05):
#   canvas row R (0 <= R < H) is an image row iff PT <= R < PT + ih, where (PL, PT) is the padding BaseImage._format_render
#   puts before the image for the widget's alignments (C05);
#   an image row is   b" " * PL + cell_0 \0 cell_1 \0 ... cell_{iw-1} SGR_DEFAULT + b" " * PR + b"\0\0"   and every other row is
#   b" " * W + b"\0\0";   a cell is an optional colour prefix (one or two SGR sequences, starts with ESC, ends with its last "m")
#   followed by one glyph that contains neither ESC nor "m" nor NUL; cell 0 of every row has a prefix;
#   a prefix determines on its own the appearance of the cells of its run (a background-only prefix precedes blanks only:
#   BlockImage._render_image.update_buffer writes the foreground unless the two pixels are equal).
# The appearance of image cell (i, j) is therefore a function of (i, j) and of LP(i, j) = the last prefixed cell at or before j.
_I = z3.IntSort()
HP = z3.Function("cell_has_prefix", _I, _I, z3.BoolSort())
LP = z3.Function("last_prefixed_cell", _I, _I, _I)
PLEN = z3.Function("prefix_bytes", _I, _I, _I)            # length of the whole colour prefix of a cell
FSGR = z3.Function("first_sgr_bytes", _I, _I, _I)         # length of the first SGR sequence of the prefix (<= PLEN)


class LPFacts:
    """hand-instantiated axioms of LP:  0 <= LP(i,j) <= j,  HP(i, LP(i,j)),  HP(i,0),  forall p. LP(i,j) < p <= j -> not HP(i,p)"""

    def __init__(self):
        self.js, self.ps = [], []

    def at(self, i, j):
        self.js.append((to_z3(i), to_z3(j)))
        return LP(to_z3(i), to_z3(j))

    def point(self, i, p):
        self.ps.append((to_z3(i), to_z3(p)))

    def facts(self):
        out = []
        ps = list(self.ps) + [(i, LP(i, j)) for i, j in self.js]
        for i, j in self.js:
            out += [z3.Implies(j >= 0, z3.And(LP(i, j) >= 0, LP(i, j) <= j, HP(i, LP(i, j)))), HP(i, 0),
                    z3.And(PLEN(i, j) >= 3, FSGR(i, j) >= 3, FSGR(i, j) <= PLEN(i, j))]
            for i2, p in ps:
                out.append(z3.Implies(z3.And(i == i2, LP(i, j) < p, p <= j), z3.Not(HP(i2, p))))
        return out


def _norm(lo, hi, n):
    """python slice bounds -> (lo, hi) clamped into [0, n]"""
    def one(x, dflt):
        if x is None:
            return dflt
        x = to_z3(x)
        return z3.If(x < 0, Max(n + x, 0), Min(x, n))
    lo, hi = one(lo, z3.IntVal(0)), one(hi, to_z3(n))
    return lo, hi


BLANK = (0, 0, 0, 0)


def rep_flat(p):
    """Rep(Rep(.. unit .., n1), n2) -> (unit text, product of the counts clamped at 0)"""
    n = Max(to_z3(as_arith(p.n)), 0)
    items = p.ts.items
    if len(items) == 1 and isinstance(items[0], Rep):
        u, m = rep_flat(items[0])
        return u, m * n
    if len(items) == 1 and isinstance(items[0], str):
        return items[0], n
    raise Unsupported(f"repetition of {p.ts!r}")


def content_unit(kind, h_align, v_align, cols_given, rows_given):
    name = f"_urwid:UrwidImageCanvas.content[{kind},{h_align}{v_align},cols={'n' if cols_given else 'None'},rows={'n' if rows_given else 'None'}]"

    @unit("C17", name)
    def u(ctx):
        import ast as _ast
        eng = ctx.engine("C17/" + name.split(":", 1)[1], "C17")
        eng.default_replay = "C17.content"
        eng.theory |= {"CLine", "Cells", "CellList", "Cell", "Piece"}
        eng.classes.update({"BlockImage": ("TextImage",), "TextImage": ("BaseImage",), "KittyImage": ("GraphicsImage",),
                            "ITerm2Image": ("GraphicsImage",), "GraphicsImage": ("BaseImage",)})
        for c in ("TextImage", "KittyImage", "ITerm2Image", "BlockImage", "GraphicsImage"):
            eng.genv[c] = ClassV(c)
        cs = ctx.ns("term_image._ctlseqs")
        for k in ("ESC_b", "SGR_DEFAULT_b"):
            eng.genv[k] = cs.d[k]
        ESC_b, RESET_b = cs.d["ESC_b"], cs.d["SGR_DEFAULT_b"]
        st = State()
        W, H, iw, ih, tl, tt = z3.Ints("W H iw ih trim_left trim_top")
        cols = z3.Int("cols") if cols_given else None
        rows = z3.Int("rows") if rows_given else None
        vc = cols if cols_given else W
        vr = rows if rows_given else H
        st.pc += [iw >= 1, ih >= 1, iw <= W, ih <= H, tl >= 0, tt >= 0, vc >= 1, vr >= 1, tl + vc <= W, tt + vr <= H]
        if not cols_given:
            st.pc.append(tl == 0)       # cols=None means "to the right edge" only for an untrimmed left side (urwid passes both or none)
        if not rows_given:
            st.pc.append(tt == 0)
        ha = {"<": SP.LEFT, ">": SP.RIGHT}.get(h_align, SP.CENTER)
        va = {"^": SP.LEFT, "_": SP.RIGHT}.get(v_align, SP.CENTER)
        PL, PT, PR, PB = SP.spec_exact_dims(W, H, ha, va, iw, ih)

        # ---- the theory values
        def cline(row):
            return Rec("CLine", {"row": row})

        def is_img_row(R):
            return z3.And(R >= PT, R < PT + ih)

        def full(R, c, lp):
            """what the untrimmed canvas shows at (row R, column c)"""
            i, j = R - PT, c - PL
            img = z3.And(is_img_row(R), c >= PL, c < PL + iw)
            return tuple(z3.If(img, a, b) for a, b in zip((z3.IntVal(1), i, j, lp.at(i, j)), map(z3.IntVal, BLANK)))

        def m_cline_slice(e, s, v, a, k):
            lo, hi, step = a
            if step is not None or lo is None or hi is None:
                raise Unsupported("slice form of a canvas line")
            R = to_z3(v.f["row"])
            e.oblige("image-cells-taken-from-an-image-row,strip-exactly-its-padding-and-the-NUL-pair", s,
                     z3.And(is_img_row(R), to_z3(lo) == PL, to_z3(hi) == -(PR + 2)), kind="safety")
            return [(Rec("Cells", {"row": R - PT}), s)]
        eng.methods[("CLine", "__getslice__")] = m_cline_slice

        def m_cline_replace(e, s, v, a, k):
            if tuple(a) != (b"\0", b""):
                raise Unsupported("replace on a canvas line")
            return [(Rec("Piece", {"what": "fullrow", "row": to_z3(v.f["row"]), "extra": None}), s)]
        eng.methods[("CLine", "replace")] = m_cline_replace

        def m_cline_add(e, s, v, a, k):
            return [(Rec("Piece", {"what": "rawrow", "row": to_z3(v.f["row"]), "extra": a[0]}), s)]
        eng.methods[("CLine", "__add__")] = m_cline_add

        def m_cells_replace(e, s, v, a, k):
            if tuple(a) != (b"\0", b""):
                raise Unsupported("replace on image cells")
            return [(Rec("Piece", {"what": "run", "row": v.f["row"], "lo": z3.IntVal(0), "hi": iw}), s)]
        eng.methods[("Cells", "replace")] = m_cells_replace

        def m_cells_split(e, s, v, a, k):
            if tuple(a) != (b"\0",):
                raise Unsupported("split on image cells")
            return [(Rec("CellList", {"row": v.f["row"], "lo": z3.IntVal(0), "hi": iw, "rev": False}), s)]
        eng.methods[("Cells", "split")] = m_cells_split

        def m_list_slice(e, s, v, a, k):
            lo, hi, step = a
            n = v.f["hi"] - v.f["lo"]
            if v.f["rev"]:
                raise Unsupported("slice of a reversed cell list")
            if step is None:
                l2, h2 = _norm(lo, hi, n)
                return [(Rec("CellList", {"row": v.f["row"], "lo": v.f["lo"] + l2, "hi": v.f["lo"] + Max(h2, l2), "rev": False}), s)]
            if not (not is_sym(step) and step == -1 and hi is None and lo is not None):
                raise Unsupported("slice step of a cell list")
            # line[a::-1]: cells a, a-1, .. 0   (a negative start counts from the end; clamped like python does)
            a0 = to_z3(lo)
            start = z3.If(a0 < 0, n + a0, Min(a0, n - 1))          # < 0 -> empty
            ln = Max(start + 1, 0)
            i = v.f["row"]
            s = e.fork(s)
            lp0 = LPFacts()
            lp0.at(i, v.f["lo"] + start)
            s.pc += lp0.facts()
            base = v.f["lo"]
            s.ghost["search"] = (to_z3(i), base + start)
            return [(SeqV(ln, lambda kk, st_, i=i, base=base, start=start: Rec("Cell", {"row": i, "j": base + start - kk}), "list"), s)]
        eng.methods[("CellList", "__getslice__")] = m_list_slice

        def m_list_item(e, s, v, a, k):
            j = to_z3(a[0])
            n = v.f["hi"] - v.f["lo"]
            e.oblige("cell-index-in-bounds", s, z3.And(j >= -n, j < n), kind="safety")
            return [(Rec("Cell", {"row": v.f["row"], "j": v.f["lo"] + z3.If(j < 0, n + j, j)}), s)]
        eng.methods[("CellList", "__getitem__")] = m_list_item

        def m_list_joined(e, s, v, a, k):
            if a[0] != b"":
                raise Unsupported("join separator")
            return [(Rec("Piece", {"what": "run", "row": v.f["row"], "lo": v.f["lo"], "hi": v.f["hi"]}), s)]
        eng.methods[("CellList", "__joined__")] = m_list_joined

        def m_cell_startswith(e, s, v, a, k):
            if a[0] != ESC_b:
                raise Unsupported("startswith argument")
            return [(HP(to_z3(v.f["row"]), to_z3(v.f["j"])), s)]
        eng.methods[("Cell", "startswith")] = m_cell_startswith

        def m_cell_find(which):
            def f(e, s, v, a, k):
                if a[0] != b"m":
                    raise Unsupported("search argument")
                i, j = to_z3(v.f["row"]), to_z3(v.f["j"])
                # a prefixed cell: the glyph holds no "m", so the last "m" ends the prefix and the first one ends its first SGR sequence.
                # (the last cell of a row also carries the trailing reset; it is never searched: see the obligation)
                e.oblige("searched-cell-has-a-prefix-and-is-not-the-row's-last", s, z3.And(HP(i, j), j < iw - 1, j >= 0), kind="safety")
                s = e.fork(s)
                s.pc += [PLEN(i, j) >= 3, FSGR(i, j) >= 3, FSGR(i, j) <= PLEN(i, j)]
                return [((PLEN if which == "rindex" else FSGR)(i, j) - 1, s)]
            return f
        for w_ in ("rindex", "index", "rfind", "find"):
            eng.methods[("Cell", w_)] = m_cell_find("rindex" if w_.startswith("r") else "index")

        def m_cell_slice(e, s, v, a, k):
            lo, hi, step = a
            if lo is not None or step is not None or hi is None:
                raise Unsupported("slice form of a cell")
            return [(Rec("Piece", {"what": "prefix", "row": to_z3(v.f["row"]), "j": to_z3(v.f["j"]), "len": to_z3(hi)}), s)]
        eng.methods[("Cell", "__getslice__")] = m_cell_slice

        # ---- objects
        icls = {"text": "BlockImage", "kitty": "KittyImage", "iterm2": "ITerm2Image"}[kind]
        # the widget's image may have been rendered again since this canvas was made (another widget size, another widget sharing the
        # image): whatever the image says about its size NOW is unrelated to the size this canvas was built with
        now_w, now_h = z3.Ints("image_rendered_width_now image_rendered_height_now")
        st.pc += [now_w >= 1, now_h >= 1]
        for an in ("rendered_size", "_size", "size"):
            eng.attrs[(icls, an)] = lambda e, s, v: [((now_w, now_h), s)]
        eng.attrs[(icls, "rendered_width")] = lambda e, s, v: [(now_w, s)]
        eng.attrs[(icls, "rendered_height")] = lambda e, s, v: [(now_h, s)]
        image = st.new(icls, {})
        dw, dc = z3.Ints("widget_disguise canvas_disguise")
        st.pc += [dw >= 0, dw <= 2, dc >= 0, dc <= 2]
        widget = st.new("UrwidImage", {"_ti_image": image, "_ti_h_align": h_align, "_ti_v_align": v_align, "_ti_disguise_state": dw})
        lines = SeqV(H, lambda kk, st_: cline(to_z3(kk)), "list")
        self_ = st.new("UrwidImageCanvas", {"size": (W, H), "_ti_image_size": (iw, ih), "_ti_lines": lines,
                                            "widget_info": (widget, None, None), "_ti_disguise_state": dc})
        eng.methods[("UrwidImageCanvas", "_ti_calc_trim")] = lambda e, s, recv, a, k: [(ST.spec_calc_trim(*a), s)]    # its own unit proves this contract
        konsole = z3.Bool("on_konsole")
        eng.genv["get_terminal_name_version"] = Fn(lambda e, s, a, k: [((z3.If(konsole, z3.StringVal("konsole"), z3.StringVal("other")), None), s)])
        st.ghost["ny"] = z3.IntVal(0)

        # ---- what a yielded row shows
        def on_yield(e, node, v, s):
            s = e.fork(s)
            ny = s.ghost["ny"]
            R = tt + ny
            s.ghost["ny"] = ny + 1
            if not (isinstance(v, Ref) and isinstance(s.H(v), list)):
                e.oblige("row-is-a-list-of-(attr,charset,bytes)", s, False, kind="yield")
                return [(None, s)]
            col = z3.IntVal(0)
            cur_row, cur_p = z3.IntVal(-1), z3.IntVal(-1)          # colour in force: the prefix of cell (cur_row, cur_p); -1 = default
            kcol = e.sym_int("column")
            lp = LPFacts()
            if "search" in s.ghost:
                lp.at(*s.ghost["search"])
            shown = tuple(z3.IntVal(-9) for _ in range(4))
            side = []

            def span(start, ln, val):
                nonlocal shown
                inside = z3.And(kcol >= start, kcol < start + ln)
                shown = tuple(z3.If(inside, a, b) for a, b in zip(val, shown))
            for item in s.H(v):
                if not (isinstance(item, tuple) and len(item) == 3 and item[0] is None and item[1] == "U"):
                    e.oblige("row-is-a-list-of-(attr,charset,bytes)", s, False, kind="yield")
                    return [(None, s)]
                x = item[2]
                pieces = []
                if isinstance(x, bytes):
                    pieces = [x]
                elif isinstance(x, TS):
                    pieces = list(x.items)
                elif isinstance(x, Rec) and x.name == "Piece":
                    pieces = [x]
                else:
                    raise Unsupported(f"row segment {x!r}")
                for p in pieces:
                    if isinstance(p, (bytes, str)):
                        b = p if isinstance(p, bytes) else p.encode("latin1")
                        while b:
                            if b[:1] == b"\0":
                                b = b[1:]
                            elif b[:1] == b" ":
                                span(col, 1, (z3.If(cur_p == -1, 0, 2), z3.IntVal(0), z3.IntVal(0), z3.IntVal(0)))
                                col = col + 1
                                b = b[1:]
                            elif b.startswith(RESET_b):
                                cur_row, cur_p = z3.IntVal(-1), z3.IntVal(-1)
                                b = b[len(RESET_b):]
                            else:
                                raise Unsupported(f"literal bytes {b!r} in a canvas row")
                    elif isinstance(p, Text):
                        if p.ch != " ":
                            raise Unsupported(f"repeated {p.ch!r} in a canvas row")
                        n = Max(to_z3(as_arith(p.n)), 0)
                        span(col, n, (z3.If(cur_p == -1, 0, 2), z3.IntVal(0), z3.IntVal(0), z3.IntVal(0)))
                        col = col + n
                    elif isinstance(p, Rep):
                        unit_, n = rep_flat(p)
                        if unit_ == " ":
                            span(col, n, (z3.If(cur_p == -1, 0, 2), z3.IntVal(0), z3.IntVal(0), z3.IntVal(0)))
                            col = col + n
                        elif unit_ == "\b ":
                            # the redraw-forcing disguise (C18): backspace + space rewrites the previous cell as a blank and leaves the
                            # cursor where it was; it may only follow a graphics line, whose text cells are blanks under the image
                            side.append(("disguise", n))
                        else:
                            raise Unsupported(f"repeated {p.unit!r} in a canvas row")
                    elif isinstance(p, Rec) and p.f["what"] == "prefix":
                        i, j = p.f["row"], p.f["j"]
                        e.oblige("recovered-colour-is-the-whole-colour-prefix-of-a-prefixed-cell", s, z3.And(HP(i, j), p.f["len"] == PLEN(i, j)), kind="yield")
                        cur_row, cur_p = i, j
                        lp.point(i, j)
                    elif isinstance(p, Rec) and p.f["what"] == "run":
                        i, lo, hi = to_z3(p.f["row"]), to_z3(p.f["lo"]), to_z3(p.f["hi"])
                        n = Max(hi - lo, 0)
                        j = lo + (kcol - col)
                        lp.point(i, lo)
                        src = z3.If(lp.at(i, j) >= lo, LP(i, j), z3.If(cur_row == i, cur_p, -1))
                        span(col, n, (z3.IntVal(1), i, j, src))
                        last = z3.If(lp.at(i, hi - 1) >= lo, LP(i, hi - 1), z3.If(cur_row == i, cur_p, -1))
                        ends_reset = hi == iw       # the trailing SGR_DEFAULT travels with the last cell of the row
                        cur_row, cur_p = z3.If(n > 0, z3.If(ends_reset, -1, i), cur_row), z3.If(n > 0, z3.If(ends_reset, -1, last), cur_p)
                        col = col + n
                    elif isinstance(p, Rec) and p.f["what"] in ("fullrow", "rawrow"):
                        Rr = p.f["row"]
                        e.oblige("whole-line-output-only-at-column-0-in-default-colour", s, z3.And(col == 0, cur_p == -1), kind="yield")
                        span(col, W, full(Rr, kcol, lp))
                        col = col + W
                        if p.f["what"] == "rawrow":
                            ex = p.f["extra"]
                            qs = list(ex.items if isinstance(ex, TS) else [ex])
                            while qs:
                                q = qs.pop(0)
                                if isinstance(q, Cond):
                                    qs = list(q.ts.items) + qs        # present or absent: a disguise of either length is invisible
                                elif isinstance(q, Rep) and rep_flat(q)[0] == "\b ":
                                    side.append(("disguise", rep_flat(q)[1]))
                                elif q in (b"", ""):
                                    pass
                                else:
                                    raise Unsupported(f"suffix {q!r} of a canvas line")
                    else:
                        raise Unsupported(f"piece {p!r}")
            s.pc += [kcol >= 0, kcol < vc]
            e.oblige("row-occupies-exactly-the-requested-columns", s, col == vc, kind="yield")
            if True:
                want = full(R, tl + kcol, lp)
                s.pc += lp.facts()
                if kind == "text":
                    e.oblige("every-cell-shows-what-the-untrimmed-canvas-shows-there(glyph,colour-source)", s, And(*[a == b for a, b in zip(shown, want)]), kind="yield")
                    e.oblige("no-colour-in-force-past-the-right-edge", s, cur_p == -1, kind="yield")
                    e.oblige("no-disguise-on-text-lines", s, z3.BoolVal(not side), kind="yield")
                else:
                    horizontal = z3.Or(tl != 0, tl + vc != W)
                    blank = And(*[a == b for a, b in zip(shown, map(z3.IntVal, BLANK))])
                    e.oblige("graphics:whole-corresponding-line-or-blanks-when-trimmed-horizontally", s,
                             z3.If(horizontal, blank, And(*[a == b for a, b in zip(shown, full(R, kcol, lp))])), kind="yield")
            return [(None, s)]
        eng.on_yield = on_yield

        # ---- loops: every loop yields one row per iteration, except the backward search for the colour in force
        fn = ctx.fn(URW, "UrwidImageCanvas.content")
        eng.number_loops(fn)
        loops = sorted([x for x in _ast.walk(fn) if isinstance(x, (_ast.For, _ast.While))], key=lambda x: (x.lineno, x.col_offset))

        def assigned(loop):
            names = set()
            for n in _ast.walk(loop):
                if isinstance(n, _ast.Name) and isinstance(n.ctx, _ast.Store):
                    names.add(n.id)
            return names
        for lid, loop in enumerate(loops, 1):
            has_break = not any(isinstance(n, (_ast.Yield, _ast.YieldFrom)) for n in _ast.walk(loop))     # a loop that yields nothing: the search
            nested = any(o is not loop and any(n is loop for n in _ast.walk(o)) for o in loops)
            names = assigned(loop)
            spec = LoopSpec(None, None, on_break=lambda s: s)
            if has_break and nested:
                # the backward search for the colour in force: cells S, S-1, .. 0 of one row (recorded when the reversed slice is taken);
                # none of the cells already passed has a prefix, nothing was yielded, nothing found yet
                def inv(s, k, N, sp=spec):
                    i, S = sp.entry.ghost["search"]
                    fc = s.lookup("first_color")
                    return z3.And(s.ghost["ny"] == sp.entry.ghost["ny"], LP(i, S) <= S - k, z3.BoolVal(isinstance(fc, tuple) and fc == ()))

                def havoc(e, s, tag):
                    s.env["cell"] = Opaque("loop-local")
            else:
                def inv(s, k, N, sp=spec):
                    return s.ghost["ny"] == sp.entry.ghost["ny"] + k

                def havoc(e, s, tag, names=names):
                    s.ghost["ny"] = z3.Int(f"ny!{tag}")
                    for nm in names:
                        s.env[nm] = Opaque("loop-local")
            spec.inv, spec.havoc = inv, havoc
            eng.invariants[lid] = spec
        st.env.update(self=self_, trim_left=tl, trim_top=tt, cols=cols, rows=rows, attr_map=None)
        outs = run_function(eng, fn, st)
        for kind_, val, s in outs:
            if kind_ == "raise":
                eng.oblige(f"no-exception:{val.cls}", s, False, kind="raise")
                continue
            eng.oblige("exactly-the-requested-number-of-rows", s, s.ghost["ny"] == vr, kind="exit")
        return eng.obligations
    return u


for _k in ("text",):
    for _h in ("<", "|", ">"):
        for _v in ("^", "-", "_"):
            for _c, _r in ((True, True), (False, False), (True, False), (False, True)):
                content_unit(_k, _h, _v, _c, _r)
# no alignment named in the widget's format specifier (the commonest way to create the widget): centre / middle, as the render is
for _c, _r in ((True, True), (False, False), (True, False), (False, True)):
    content_unit("text", None, None, _c, _r)
content_unit("text", None, "^", True, True)
content_unit("text", "<", None, True, True)
for _k in ("kitty", "iterm2"):
    for _c, _r in ((True, True), (False, False), (True, False), (False, True)):
        content_unit(_k, "|", "-", _c, _r)
