"""C17 - Trimming an image canvas equals cropping what the full canvas shows."""
import z3
from pyvc.runner import unit, run_function
from pyvc.values import *
from pyvc.engine import State
from spec import trim as ST
from .common import *

URW = "widget/_urwid.py"
TRUSTED = ["urwid calls content() with 0 <= trim_left, trim_top and trim + visible <= size (its canvas protocol)"]
ASSUMPTIONS = []
NOT_DECIDED = []


@unit("C17", "_urwid:UrwidImageCanvas._ti_calc_trim")
def u_calc_trim(ctx):
    eng = ctx.engine("C17/_ti_calc_trim", "C17")
    st = State()
    size, img, t1, p1, t2, p2 = z3.Ints("size image_size trim_side1 pad_side1 trim_side2 pad_side2")
    st.pc += [img >= 1, p1 >= 0, p2 >= 0, p1 + img + p2 == size, t1 >= 0, t2 >= 0, t1 + t2 < size]
    st.env.update(size=size, image_size=img, trim_side1=t1, pad_side1=p1, trim_side2=t2, pad_side2=p2)
    outs = run_function(eng, ctx.fn(URW, "UrwidImageCanvas._ti_calc_trim"), st)
    spec = ST.spec_calc_trim(size, img, t1, p1, t2, p2)

    def ensure(v, s):
        np1, c1, c2, np2 = v
        return And(Eq(v, spec),
                   # consequence stated by the property: the kept pieces tile the window exactly
                   np1 + Max(img - c1 - c2, 0) + np2 == size - t1 - t2)
    return exits(eng, outs, ensure=ensure, replay="C17.calc_trim")


# ------------------------------------------------------------------------------------------------ rows() announces what render() produces
@unit("C17", "_urwid:UrwidImage.rows-vs-render")
def u_rows_render(ctx):
    """flow widgets: the row count announced by rows((cols,)) equals the number of rows of the canvas render((cols,)) builds.
    _valid_size is an uninterpreted deterministic function of its arguments (its own contract is C04)."""
    obs = []
    I = z3.IntSort()
    VW = z3.Function("valid_w", I, I, I)
    VH = z3.Function("valid_h", I, I, I)
    ns = ctx.ns("term_image.image.common")
    SizeNS = ns.d["Size"]
    for sizing in ("FIT", "AUTO"):
        eng = ctx.engine(f"C17/rows-vs-render[{sizing}]", "C17")
        eng.default_replay = "C17.rows"
        st = State()
        cols = z3.Int("cols")
        st.pc.append(cols >= 1)
        eng.genv["Size"] = SizeNS
        eng.genv["UrwidImageError"] = ClassV("UrwidImageError")

        def code(v):
            if v is None:
                return z3.IntVal(-1)
            if isinstance(v, EnumV):
                return z3.IntVal(-2 - ["FIT", "AUTO", "ORIGINAL", "FIT_TO_WIDTH"].index(v.name))
            return to_z3(v)

        def valid_size(e, s, recv, a, k):
            a = list(a) + [None] * (2 - len(a))
            w, h = code(a[0]), code(a[1])
            r = (VW(w, h), VH(w, h))
            s.pc += [r[0] >= 1, r[1] >= 1]
            return [(r, s)]
        eng.methods[("BlockImage", "_valid_size")] = valid_size

        def set_size(e, s, recv, a, k):
            # contract of set_size (C04): stores _valid_size(width, height, frame_size) (default frame size here)
            if k.get("frame_size") is not None or len(a) > 2:
                raise Unsupported("set_size with a frame size in the flow branch")
            s = e.fork(s)
            (r, s), = valid_size(e, s, recv, a, k)
            s.H(recv)["_size"] = r
            return [(None, s)]
        eng.methods[("BlockImage", "set_size")] = set_size
        image = st.new("BlockImage", {"_size": (z3.Int("old_w"), z3.Int("old_h"))})
        self_ = st.new("UrwidImage", {"_ti_image": image, "_ti_sizing": SizeNS.d[sizing], "_ti_alpha": None, "_ti_style_args": st.new("dict", {"@items": {}}),
                                      "_ti_h_align": "<", "_ti_v_align": "^"})
        # rows()
        s0 = st.fork()
        s0.env.update(self=self_, size=(cols,), focus=False)
        rows_out = run_function(eng, ctx.fn(URW, "UrwidImage.rows"), s0)
        # render(): up to the construction of the canvas
        canv = {}

        def new_canvas(e, s, c, a, k):
            s = e.fork(s)
            o = s.new("UrwidImageCanvas", {"render": a[0], "size": a[1], "image_size": a[2]})
            return [(o, s)]
        eng.methods["new:UrwidImageCanvas"] = new_canvas
        eng.genv["UrwidImageCanvas"] = ClassV("UrwidImageCanvas")
        eng.methods[("BlockImage", "_renderer")] = lambda e, s, recv, a, k: [(Opaque("render"), s)]
        eng.methods[("BlockImage", "_format_render")] = lambda e, s, recv, a, k: [(Rec("formatted", {"size": (a[2], a[4])}), s)]
        eng.attrs[("BlockImage", "_render_image")] = lambda e, s, v: [(Opaque("method"), s)]
        eng.genv["type"] = Fn(lambda e, s, a, k: [(st.new("wcls", {"_ti_error_placeholder": None}), s)])
        s1 = st.fork()
        s1.env.update(self=self_, size=(cols,), focus=False)
        render_out = run_function(eng, ctx.fn(URW, "UrwidImage.render"), s1)
        for k1, v1, sa in rows_out:
            for k2, v2, sb in render_out:
                s = sb.fork()
                s.pc += sa.pc
                if k1 != "return" or k2 != "return":
                    eng.oblige("no-exception", s, False, kind="raise")
                    continue
                csize = sb.H(v2)["size"]
                eng.oblige("announced-rows=rows-of-the-rendered-canvas", s, And(Eq(v1, csize[1]), Eq(csize[0], cols)), kind="post")
                eng.oblige("canvas-size=formatted-render-size=(cols,image-height)", s, And(Eq(csize, sb.H(v2)["render"].f["size"]), Eq(csize[1], sb.H(v2)["image_size"][1])), kind="post")
        obs += eng.obligations
    return obs
