from .iterator import *
from .renderable import *   # registers the units shared by C08 / C09 / C10
from .C08 import TRUSTED, ASSUMPTIONS
NOT_DECIDED = []
