"""C01 - A render output occupies exactly its advertised columns x lines rectangle."""
from .render_block import *
from .render_kitty import *
from .render_iterm2 import *
from . import C12 as _C12   # noqa: F401  (who determines the terminal identity the iterm2 renders rely on, and for which class)
from . import C04 as _C04   # noqa: F401  (the AUTO rule whichever argument carries it: advertised height = rendered height for dynamic sizes)

TRUSTED = ["terminal model of DESIGN appendix A (pyvc/tstr.py VT): the real control-sequence templates are lexed character by character",
           "_get_render_data returns flattened row-major pixel lists of length width*height with components in [0, 255] (PIL)"]
ASSUMPTIONS = ["multi-line renders are anchored at column 0 of the cursor's row (ONLCR newline), as the library assumes throughout"]
NOT_DECIDED = []


# ------------------------------------------------------------------------------------------------ the terminal identity the renders rely on
import z3                                                    # noqa: E402
from pyvc.runner import unit, run_function                   # noqa: E402
from pyvc.values import *                                    # noqa: E402,F401,F403
from pyvc.engine import State                                # noqa: E402


@unit("C01", "common:GraphicsImage.__new__")
def u_graphics_new(ctx):
    """The render units above take the class's terminal identity (`_TERM`, which selects the quirk mode: WezTerm's erase, Konsole's
    cursor handling) as given.  It is `is_supported()` that determines it, so no instance may come into being without it having
    run - also when support is forced (the documented purpose of the call order in __new__); and construction is refused exactly
    when the style is neither supported nor forced."""
    obs = []
    for forced in (True, False):
        eng = ctx.engine(f"C01/GraphicsImage.__new__[forced-support={forced}]", "C01")
        eng.default_replay = "C01.forced_support_quirks"
        st = State()
        eng.genv["StyleError"] = ClassV("StyleError")
        eng.exc_parents["StyleError"] = "TermImageError"
        supported = z3.Bool("terminal_supports_the_style")
        cls = st.new("stylecls", {"_forced_support": forced, "__name__": "SomeGraphicsImage"})
        st.ghost["identity_determined"] = False

        def is_supported(e, s, recv, a, k):
            s = e.fork(s)
            s.ghost["identity_determined"] = True            # (sets _TERM & co. as a side effect: iterm2 / kitty is_supported units)
            return [(supported, s)]
        eng.methods[("stylecls", "is_supported")] = is_supported
        inst = st.new("instance", {})
        eng.genv["super"] = Fn(lambda e, s, a, k: [(Rec("super", {}), s)])
        eng.attrs[("super", "__new__")] = lambda e, s, v: [(Fn(lambda e2, s2, a, k: [(inst, s2)]), s)]
        st.env.update(cls=cls, image=Opaque("image"), width=None, height=None)
        outs = run_function(eng, ctx.fn("image/common.py", "GraphicsImage.__new__"), st)
        for kind, val, s in outs:
            if kind == "raise":
                eng.oblige("refused-only-when-neither-supported-nor-forced(StyleError)", s, And(val.cls == "StyleError", Not(supported), not forced), kind="raise")
                continue
            eng.oblige("an-instance-exists-only-after-is_supported()-determined-the-terminal-identity(also-with-forced-support)", s,
                       And(val is inst, s.ghost["identity_determined"] is True, Or(supported, forced)), kind="post")
        obs += eng.obligations
    return obs
