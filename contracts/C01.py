"""C01 - A render output occupies exactly its advertised columns x lines rectangle."""
from .render_block import *
from .render_kitty import *
from .render_iterm2 import *

TRUSTED = ["terminal model of DESIGN appendix A (pyvc/tstr.py VT): the real control-sequence templates are lexed character by character",
           "_get_render_data returns flattened row-major pixel lists of length width*height with components in [0, 255] (PIL)"]
ASSUMPTIONS = ["multi-line renders are anchored at column 0 of the cursor's row (ONLCR newline), as the library assumes throughout"]
NOT_DECIDED = []
