"""Kitty style: Transmission.* and KittyImage._render_image under contract (C01 geometry, C03 framing)."""
import ast
import z3
from pyvc.runner import unit, run_function
from pyvc.values import *
from pyvc.engine import State, LoopSpec
from pyvc import tstr
from pyvc.tstr import TS, VT, vt_new, Payload, IntDec
from .common import *
from .render_block import havoc_vt, stringio_world

KITTY = "image/kitty.py"


def parse_kitty(keys):
    """`keys`: what the VT lexer collected between APC and ST (characters and symbolic pieces).
    -> (control: {name: value}, payload pieces) for a `G` command; values are str / int / z3 Int"""
    if not keys or keys[0] != "G":
        raise Unsupported("APC that is not a kitty graphics command")
    items = keys[1:]
    ctrl_items, payload = items, []
    for i, x in enumerate(items):
        if x == ";":
            ctrl_items, payload = items[:i], items[i + 1:]
            break
    ctrl, cur_key, cur_val, state = {}, "", [], "key"
    def flush():
        nonlocal cur_key, cur_val
        if cur_key == "" and not cur_val:
            return
        if len(cur_val) == 1 and isinstance(cur_val[0], IntDec):
            v = cur_val[0].v
        elif all(isinstance(c, str) for c in cur_val):
            v = "".join(cur_val)
            if v.lstrip("-").isdigit():
                v = int(v)
        else:
            raise Unsupported(f"control value of {cur_key}: {cur_val}")
        ctrl[cur_key] = v
        cur_key, cur_val = "", []
    for x in ctrl_items:
        if state == "key":
            if x == "=":
                state = "val"
            elif isinstance(x, str):
                cur_key += x
            else:
                raise Unsupported("symbolic piece in a control key")
        else:
            if x == ",":
                flush()
                state = "key"
            else:
                cur_val.append(x)
    flush()
    return ctrl, payload


def control_world(ctx, eng, st, tag="ctl", level=None):
    """a ControlData object with symbolic fields, and the helpers of kitty.py"""
    fields = dataclass_fields(ctx, KITTY, "ControlData")
    ns = ctx.ns("term_image.image.kitty")
    cs = ctx.ns("term_image._ctlseqs")
    for k in ("KITTY_TRANSMISSION", "KITTY_DELETE_CURSOR", "ERASE_CHARS", "CURSOR_FORWARD"):
        eng.genv[k] = cs.d[k]
    eng.genv["ctlseqs"] = cs

    def asdict(e, s, a, k):
        o = a[0]
        h = s.H(o)
        return [(s.new("dict", {"@items": {f: h[f] for f in fields}}), s)] if False else [(Namespace("asdict", {f: h[f] for f in fields}), s)]
    eng.genv["asdict"] = Fn(asdict)
    eng.methods[("ns_items", "x")] = None
    return fields


def ns_items(eng):
    """asdict(...).items() on the Namespace stand-in"""
    def getattr_ns(e, s, v, name):
        return None
    return None


# ------------------------------------------------------------------------------------------- get_chunks
@unit(("C03", "C01"), "kitty:Transmission.get_chunks")
def u_get_chunks(ctx):
    eng = ctx.engine("C03/Transmission.get_chunks", "C03")
    eng.default_replay = {"C03": "C03.render", "C01": "C01.render"}
    st = State()
    cs = ctx.ns("term_image._ctlseqs")
    eng.genv["KITTY_TRANSMISSION"] = cs.d["KITTY_TRANSMISSION"]
    fields = dataclass_fields(ctx, KITTY, "ControlData")
    L = z3.Int("L")
    st.pc += [L >= 0, L % 4 == 0]          # base64 text
    s_, v_, c_, r_, z_, f_ = z3.Ints("s v c r z f")
    st.pc += [s_ >= 1, v_ >= 1, c_ >= 1, r_ >= 1, z3.Or(f_ == 24, f_ == 32)]
    zlib = z3.Bool("compressed")
    cvals = {"a": "T", "f": f_, "t": "d", "s": s_, "v": v_, "z": z_, "o": "z", "C": 1, "c": c_, "r": r_}
    control = st.new("ControlData", dict(cvals))
    if set(fields) != set(cvals):
        raise Unsupported(f"ControlData fields changed: {fields}")
    self_ = st.new("Transmission", {"control": control})
    eng.genv["asdict"] = Fn(lambda e, s, a, k: [(tuple((f, s.H(a[0])[f]) for f in fields), s)])
    # asdict(...).items(): the tuple of pairs itself
    gcd = inline(ctx.fn(KITTY, "Transmission.get_control_data"), eng)
    orig_call_method = eng.call_method

    def call_method(recv, name, args, kwargs, s):
        if isinstance(recv, tuple) and name == "items":
            return [(recv, s)]
        return orig_call_method(recv, name, args, kwargs, s)
    eng.call_method = call_method
    eng.methods[("Transmission", "get_control_data")] = lambda e, s, recv, a, k: e.call(gcd, (recv,), {}, s)

    def get_payload(e, s, recv, a, k):
        # assumed: standard_b64encode(payload).decode('ascii') is a string of L characters (L % 4 == 0) without ESC
        s = e.fork(s)
        return [(s.new("payloadio", {"pos": z3.IntVal(0)}), s)]
    eng.methods[("Transmission", "get_payload")] = get_payload
    eng.methods[("payloadio", "__enter__")] = lambda e, s, recv, a, k: [(recv, s)]
    eng.methods[("payloadio", "__exit__")] = lambda e, s, recv, a, k: [(None, s)]

    def read(e, s, recv, a, k):
        s = e.fork(s)
        pos = s.H(recv)["pos"]
        n = a[0]
        new = Min(pos + n, L)
        s.H(recv)["pos"] = new
        return [(TS([Payload("b64", pos, new)]), s)]
    eng.methods[("payloadio", "read")] = read
    S = eng.closure_defaults(ctx.fn(KITTY, "Transmission.get_chunks"), State())["size"]
    st.ghost.update(n_y=z3.IntVal(0), covered=z3.IntVal(0), last_m=z3.IntVal(-1))

    def on_yield(e, node, v, s):
        s = e.fork(s)
        got = {}

        def on_command(vt, which, keys):
            got["which"], got["keys"] = which, list(keys)
        s.ghost["vt"] = vt_new(z3.IntVal(0), z3.IntVal(0), z3.IntVal(0), z3.IntVal(10), z3.IntVal(10), on_command=on_command)
        vt = VT(e, s, tag="chunk")
        vt.feed(v)
        e.oblige("C01:chunk-is-one-complete-APC-command", s, vt.g["parser"] == "ground" and got.get("which") == "apc" and len(vt.g["log"]) == 1, prop="C01", kind="yield")
        if "keys" not in got:
            return [(None, s)]
        ctrl, payload = parse_kitty(got["keys"])
        if len(payload) != 1 or not isinstance(payload[0], Payload):
            e.oblige("C03:chunk-payload-is-one-slice-of-the-base64-text", s, False, prop="C03", kind="yield")
            return [(None, s)]
        p = payload[0]
        size = p.hi - p.lo
        n_y, covered = s.ghost["n_y"], s.ghost["covered"]
        m = ctrl.get("m")
        e.oblige("C03:chunks-tile-the-payload-in-order", s, p.lo == covered, kind="yield")
        e.oblige("C03:chunk<=4096,multiple-of-4-unless-last", s, And(size <= 4096, size >= 0, Or(size % 4 == 0, to_z3(m) == 0)), kind="yield")
        e.oblige("C03:m=1-unless-last,m=0-on-last", s, to_z3(m) == z3.If(p.hi < L, 1, 0), kind="yield")
        e.oblige("C03:non-final-chunks-are-full(4096)", s, Implies(p.hi < L, size == 4096), kind="yield")
        first = n_y == 0
        ctl_keys = {k_ for k_ in ctrl if k_ != "m"}
        want = {k_: v_ for k_, v_ in cvals.items()}
        same = set(ctl_keys) == set(want) and And(*[Eq(ctrl[k_], want[k_]) if not isinstance(want[k_], str) else ctrl[k_] == want[k_] for k_ in want])
        e.oblige("C03:first-chunk-carries-the-control-keys,others-only-m", s, z3.If(first, z3.BoolVal(bool(same is not False)) if isinstance(same, bool) else to_z3(same),
                                                                                   z3.BoolVal(not ctl_keys)), kind="yield")
        s.ghost["covered"] = p.hi
        s.ghost["n_y"] = n_y + 1
        s.ghost["last_m"] = to_z3(m)
        return [(None, s)]
    eng.on_yield = on_yield

    def inv(s):
        ch, nx = s.lookup("chunk").items, s.lookup("next_chunk").items
        if not (len(ch) == 1 and len(nx) == 1):
            return z3.BoolVal(False)
        ch, nx = ch[0], nx[0]
        cov, pos = s.ghost["covered"], s.H(s.lookup("payload"))["pos"]
        return z3.And(s.ghost["n_y"] >= 1, ch.lo == cov, ch.hi == Min(cov + S, L), nx.lo == ch.hi, nx.hi == Min(ch.hi + S, L), pos == nx.hi,
                      cov <= L, cov >= 0, z3.Or(cov % S == 0, cov == L), s.ghost["last_m"] == z3.If(ch.hi > ch.lo, 1, 0))

    def havoc(e, s, tag):
        for nm in ("chunk", "next_chunk"):
            s.env[nm] = TS([Payload("b64", z3.Int(f"{nm}_lo!{tag}"), z3.Int(f"{nm}_hi!{tag}"))])
        s.H(s.lookup("payload"))["pos"] = z3.Int(f"pos!{tag}")
        for nm in ("n_y", "covered", "last_m"):
            s.ghost[nm] = z3.Int(f"{nm}!{tag}")
    eng.invariants = {1: LoopSpec(inv, havoc)}
    st.env.update(self=self_, size=S)
    outs = run_function(eng, ctx.fn(KITTY, "Transmission.get_chunks"), st)
    for kind, val, s in outs:
        if kind == "raise":
            eng.oblige(f"no-exception:{val.cls}", s, False, kind="raise")
            continue
        eng.oblige("C03:all-of-the-payload-transmitted,at-least-one-command,last-m=0", s,
                   And(s.ghost["covered"] == L, s.ghost["n_y"] >= 1, s.ghost["last_m"] == 0), kind="exit")
    return eng.obligations


@unit("C03", "kitty:Transmission.get_chunked")
def u_get_chunked(ctx):
    """get_chunked(): what the WHOLE method writes.  Whatever way it is put together - from get_chunks() (contract of the unit above:
    a well-framed transmission of the whole payload) or by commands of its own - every command carries at most 4096 base64
    characters, a multiple of 4 unless it is the last, the commands tile the base64 text of the payload in order, the first carries
    the control keys, and m=1 ... m=0 is consistent.  The base64 text of n payload bytes has 4 * ceil(n / 3) characters."""
    eng = ctx.engine("C03/Transmission.get_chunked", "C03")
    eng.default_replay = "C03.chunk_boundaries"
    st = State()
    cs = ctx.ns("term_image._ctlseqs")
    eng.genv["KITTY_TRANSMISSION"] = cs.d["KITTY_TRANSMISSION"]
    fields = dataclass_fields(ctx, KITTY, "ControlData")
    n = z3.Int("payload_bytes")
    L = z3.Int("L")
    st.pc += [n >= 0, L == 4 * ((n + 2) / 3)]
    s_, v_, c_, r_, z_, f_ = z3.Ints("s v c r z f")
    st.pc += [s_ >= 1, v_ >= 1, c_ >= 1, r_ >= 1, z3.Or(f_ == 24, f_ == 32)]
    cvals = {"a": "T", "f": f_, "t": "d", "s": s_, "v": v_, "z": z_, "o": "z", "C": 1, "c": c_, "r": r_}
    if set(fields) != set(cvals):
        raise Unsupported(f"ControlData fields changed: {fields}")
    control = st.new("ControlData", dict(cvals))
    payload = st.new("bytesobj", {"len": n})
    self_ = st.new("Transmission", {"control": control, "payload": payload})
    eng.genv["asdict"] = Fn(lambda e, s, a, k: [(tuple((f, s.H(a[0])[f]) for f in fields), s)])
    gcd = inline(ctx.fn(KITTY, "Transmission.get_control_data"), eng)
    orig_call_method = eng.call_method

    def call_method(recv, name, args, kwargs, s):
        if isinstance(recv, tuple) and name == "items":
            return [(recv, s)]
        return orig_call_method(recv, name, args, kwargs, s)
    eng.call_method = call_method
    eng.methods[("Transmission", "get_control_data")] = lambda e, s, recv, a, k: e.call(gcd, (recv,), {}, s)
    # encode(): the base64 text of the payload, as bytes; .decode() gives the same text as str
    enc = st.new("b64bytes", {"len": L})
    eng.methods[("Transmission", "encode")] = lambda e, s, recv, a, k: [(enc, s)]
    eng.methods[("b64bytes", "decode")] = lambda e, s, recv, a, k: [(TS([Payload("b64", z3.IntVal(0), L)]), s)]
    eng.genv["standard_b64encode"] = Fn(lambda e, s, a, k: [(enc, s)] if a[0] is payload else _unsup_k("standard_b64encode of something else"))
    S0 = eng.closure_defaults(ctx.fn(KITTY, "Transmission.get_chunks"), State())["size"]
    WHOLE_TX = tstr.Placement("kitty-well-framed-transmission", c_, r_, moves_cursor=False)
    st.ghost["chunks_calls"] = []

    def get_chunks(e, s, recv, a, k):
        s = e.fork(s)
        size = a[0] if a else k.get("size", S0)
        s.ghost["chunks_calls"] = s.ghost["chunks_calls"] + [size]
        return [((TS([WHOLE_TX]),), s)]
    eng.methods[("Transmission", "get_chunks")] = get_chunks
    st.env.update(self=self_)
    fn = ctx.fn(KITTY, "Transmission.get_chunked")
    for nm, dv in eng.closure_defaults(fn, State()).items():
        st.env[nm] = dv
    outs = run_function(eng, fn, st)
    for kind, val, s in outs:
        if kind == "raise":
            eng.oblige(f"no-exception:{val.cls}", s, False, kind="raise")
            continue
        items = val.items if isinstance(val, TS) else None
        if items is not None and len(items) == 1 and items[0] is WHOLE_TX:
            # all of get_chunks(), nothing else: its contract carries over - provided the chunk size asked for is within the limit
            sizes = s.ghost["chunks_calls"]
            eng.oblige("whole-of-get_chunks()-with-a-chunk-size-within-the-4096-limit(multiple-of-4)", s,
                       And(len(sizes) == 1, *[And(to_z3(x) <= 4096, to_z3(x) >= 4, to_z3(x) % 4 == 0) for x in sizes]), kind="post")
            continue
        if items is None or any(it is WHOLE_TX for it in items):
            eng.oblige("result-is-the-transmission-and-nothing-else", s, False, kind="post")
            continue
        # commands of its own: interpreted one by one
        cmds = []

        def on_command(vt, which, keys):
            cmds.append((which, list(keys)))
        s2 = s.fork()
        s2.ghost["vt"] = vt_new(z3.IntVal(0), z3.IntVal(0), z3.IntVal(0), z3.IntVal(10), z3.IntVal(10), on_command=on_command)
        vt = VT(eng, s2, tag="chunked")
        vt.feed(val)
        ok_shape = vt.g["parser"] == "ground" and bool(cmds) and all(w == "apc" for w, _ in cmds) and len(vt.g["log"]) == len(cmds)
        eng.oblige("made-of-complete-APC-commands-only", s2, ok_shape, kind="post")
        if not ok_shape:
            continue
        covered = z3.IntVal(0)
        goals = []
        for i, (_, keys) in enumerate(cmds):
            ctrl, pl = parse_kitty(keys)
            if len(pl) != 1 or not isinstance(pl[0], Payload):
                goals.append(z3.BoolVal(False))
                break
            p_ = pl[0]
            size = p_.hi - p_.lo
            m = ctrl.get("m")
            last = i == len(cmds) - 1
            ctl_keys = {k_ for k_ in ctrl if k_ != "m"}
            same = set(ctl_keys) == set(cvals) and And(*[Eq(ctrl[k_], cvals[k_]) if not isinstance(cvals[k_], str) else ctrl[k_] == cvals[k_] for k_ in cvals if k_ in ctrl])
            goals += [to_z3(p_.lo == covered), to_z3(And(size <= 4096, size >= 0, Or(size % 4 == 0, last))), to_z3(Eq(m, 0 if last else 1)),
                      to_z3(same) if i == 0 else z3.BoolVal(not ctl_keys)]
            covered = p_.hi
        goals.append(to_z3(covered == L))
        eng.oblige("own-commands:each<=4096-base64-characters(multiple-of-4-unless-last),tile-the-text,keys-on-the-first,m-flags-consistent", s2, z3.And(*goals), kind="post")
    return eng.obligations


def _unsup_k(msg):
    raise Unsupported(msg)


# ------------------------------------------------------------------------------------------- KittyImage._render_image
def class_literals(ctx, rel, cls):
    """class-level simple assignments of a plain class (the key/value tables of kitty.py)"""
    tree, _ = ctx.tree(rel)
    out = {}
    for n in ast.walk(tree):
        if isinstance(n, ast.ClassDef) and n.name == cls:
            for x in n.body:
                tgt = x.targets[0] if isinstance(x, ast.Assign) else x.target if isinstance(x, ast.AnnAssign) and x.value is not None else None
                if isinstance(tgt, ast.Name):
                    try:
                        out[tgt.id] = ast.literal_eval(x.value)
                    except Exception:
                        out[tgt.id] = x.value      # an expression (resolved by the caller)
    return out


def kitty_unit(method, mode, override=None):
    """override: the per-call `method` argument as the caller spelled it (any letter case is accepted by the argument check); the
    image's own effective method is then the OTHER one, so that the override is what decides"""
    tag = f"{method},{mode}" + (f",override={override}" if override else "")

    c11 = mode == "RGB" and override is None

    @unit(("C01", "C03", "C20", "C11") if c11 else ("C01", "C03", "C20"), f"kitty:KittyImage._render_image[{tag}]")
    def u(ctx, method=method, mode=mode):
        eng = ctx.engine(f"C01/kitty._render_image[{tag}]", "C01")
        eng.default_replay = {"C01": "C01.render", "C03": "C03.render", "C11": "C11.fds", "C20": "C20.method_override"}
        st = State()
        ns = ctx.ns("term_image.image.kitty")
        cs = ctx.ns("term_image._ctlseqs")
        for k in ("ERASE_CHARS", "CURSOR_FORWARD", "KITTY_DELETE_CURSOR"):
            eng.genv[k] = ns.d[k]
        eng.genv.update(LINES=ns.d["LINES"], WHOLE=ns.d["WHOLE"], ctlseqs=cs)
        tables = {c: Namespace(c, class_literals(ctx, KITTY, c)) for c in ("a", "f", "t", "z", "C", "o")}
        eng.genv.update(tables)
        stringio_world(eng)
        rw, rh, cw, ch, mw, mh, r0, TW, TH, B0, zidx, level = z3.Ints("r_width r_height cw ch min_w min_h r0 TW TH bottom0 z_index compress")
        st.pc += [rw >= 1, rh >= 1, cw >= 1, ch >= 1, mw >= 1, mh >= 1, TW >= rw, TH >= rh, r0 >= 0, B0 >= r0 + rh - 1, B0 - TH + 1 <= r0, level >= 0, level <= 9]
        W, H = rw, rh
        bpp = 3 if mode == "RGB" else 4
        width, height = (rw * cw, rh * ch) if method == "lines" else (mw, mh)
        RAWLEN = width * height * bpp

        def line_pred(a, final):
            # nothing outside the rectangle is touched: erases stop at its right edge
            return z3.And(a["line_w"] == W, a["written"] == W, a["skipped"] == 0, z3.Not(a["irregular"]), to_z3(a["erased_to"]) <= W)
        st.ghost["vt"] = vt_new(r0, z3.IntVal(0), B0, TW, TH, line_pred=line_pred)
        st.ghost.update(tx_count=z3.IntVal(0), raw_covered=z3.IntVal(0))
        effective = method if override is None else {"lines": "whole", "whole": "lines"}[method]
        self_ = st.new("KittyImage", {"_render_method": effective})
        eng.attrs[("KittyImage", "rendered_size")] = lambda e, s, v: [((rw, rh), s)]
        # contracts of the size helpers (units of C04 / below): pixel size of the render, minimal size for WHOLE
        eng.methods[("KittyImage", "_get_render_size")] = lambda e, s, recv, a, k: [((rw * cw, rh * ch), s)]
        eng.methods[("KittyImage", "_get_minimal_render_size")] = lambda e, s, recv, a, k: [((mw, mh), s)]
        img0 = st.new("PIL.Image", {"mode": "src"})

        def get_render_data(e, s, recv, a, k):
            e.oblige("C03:pixel-data-requested-at-the-transmitted-resolution", s, Eq(k.get("size"), (width, height)), prop="C03", kind="pre")
            s = e.fork(s)
            s.ghost["size_req"] = k.get("size")
            im = s.new("PIL.Image", {"mode": mode, "size": k.get("size")})
            return [((im, None, None), s)]
        eng.methods[("KittyImage", "_get_render_data")] = get_render_data
        eng.methods[("KittyImage", "_close_image")] = lambda e, s, recv, a, k: [(None, s)]
        # PIL: len(img.tobytes()) = w * h * len(mode)
        def tobytes(e, s, recv, a, k):
            # PIL: len(img.tobytes()) = w * h * len(mode) - of the image it is called on (a converted copy has its own mode)
            m_ = s.H(recv).get("mode", mode)
            n_ = width * height * len(m_) if isinstance(m_, str) else RAWLEN
            return [(Rec("bytes", {"base": "raw" if m_ == mode else f"raw-converted-to-{m_}", "lo": z3.IntVal(0), "hi": n_}), s)]
        eng.methods[("PIL.Image", "tobytes")] = tobytes

        def getextrema(e, s, recv, a, k):
            n = e.sym_int("band_extrema")
            bands = []
            for i in range(len(s.H(recv).get("mode", mode))):
                lo, hi = z3.Int(f"{n}_lo{i}"), z3.Int(f"{n}_hi{i}")
                s.pc += [lo >= 0, lo <= hi, hi <= 255]
                bands.append((lo, hi))
            return [(tuple(bands), s)]
        eng.methods[("PIL.Image", "getextrema")] = getextrema

        def convert(e, s, recv, a, k):
            s = e.fork(s)
            return [(s.new("PIL.Image", {"mode": a[0], "size": s.H(recv).get("size"), "converted_from": recv.id}), s)]
        eng.methods[("PIL.Image", "convert")] = convert
        cd_fields = dataclass_fields(ctx, KITTY, "ControlData")
        cd_defaults = class_literals(ctx, KITTY, "ControlData")
        post_init = inline(ctx.fn(KITTY, "ControlData.__post_init__"), eng)

        def new_control(e, s, c, a, k):
            s = e.fork(s)
            vals = {}
            for fname in cd_fields:
                d = cd_defaults.get(fname)
                if isinstance(d, ast.AST):
                    d, _ = e.ev1(d, s)
                vals[fname] = d
            if a:
                raise Unsupported("positional ControlData arguments")
            for kk, vv in k.items():
                if kk not in vals:
                    e.raise_("TypeError", s)
                    return []
                vals[kk] = vv
            o = s.new("ControlData", vals)
            return [(o, s2) for _, s2 in e.call(post_init, (o,), {}, s)]
        eng.methods["new:ControlData"] = new_control
        eng.genv["ControlData"] = ClassV("ControlData")

        def vars_(e, s, a, k):
            return [(Rec("varsproxy", {"obj": a[0]}), s)]
        eng.genv["vars"] = Fn(vars_)

        def vars_update(e, s, v):
            def upd(e2, s2, a, k):
                s2 = e2.fork(s2)
                s2.H(v.f["obj"]).update(k)
                return [(None, s2)]
            return [(Fn(upd), s)]
        eng.attrs[("varsproxy", "update")] = vars_update

        def bytesio(e, s, a, k):
            s = e.fork(s)
            return [(s.new("BytesIO", {"data": a[0], "pos": z3.IntVal(0)}), s)]
        eng.genv["io"].d["BytesIO"] = Fn(bytesio)
        eng.methods[("BytesIO", "__enter__")] = lambda e, s, recv, a, k: [(recv, s)]
        eng.methods[("BytesIO", "__exit__")] = lambda e, s, recv, a, k: [(None, s)]

        def bread(e, s, recv, a, k):
            s = e.fork(s)
            h = s.H(recv)
            d = h["data"]
            new = Min(h["pos"] + a[0], d.f["hi"])
            r = Rec("bytes", {"base": d.f["base"], "lo": h["pos"], "hi": new})
            h["pos"] = new
            return [(r, s)]
        eng.methods[("BytesIO", "read")] = bread

        def new_trans(e, s, c, a, k):
            """Transmission(control, payload, level): __post_init__ compresses iff level (o = 'z'), units below"""
            control, payload, lvl = a
            s = e.fork(s)
            h = s.H(control)
            # ---- C03 obligations on what is handed to the protocol layer
            i = s.ghost["tx_count"]
            fmt = h["f"]
            if method == "lines":
                bpl = to_z3(h["s"]) * to_z3(h["v"]) * (fmt // 8)
                e.oblige("C03:strip-i-is-raw[i*bpl,(i+1)*bpl),bpl=s*v*bytes-per-pixel", s,
                         And(payload.f["lo"] == s.ghost["raw_covered"], payload.f["hi"] - payload.f["lo"] == bpl, payload.f["lo"] == i * bpl,
                             Eq(h["r"], 1), Eq(h["c"], rw), Eq(h["s"], width), to_z3(h["v"]) * rh == height), prop="C03", kind="pre")
            else:
                e.oblige("C03:whole-payload-is-all-raw-bytes=s*v*bytes-per-pixel", s,
                         And(payload.f["lo"] == 0, payload.f["hi"] == RAWLEN, RAWLEN == to_z3(h["s"]) * to_z3(h["v"]) * (fmt // 8),
                             Eq(h["r"], rh), Eq(h["c"], rw), Eq(h["s"], width), Eq(h["v"], height)), prop="C03", kind="pre")
            e.oblige("C03:format-matches-pixel-mode,cursor-stays,transmit+display,direct", s,
                     And(Eq(fmt, 24 if mode == "RGB" else 32), Eq(h["C"], 1), h["a"] == "T", h["t"] == "d", Eq(h["z"], zidx)), prop="C03", kind="pre")
            s.ghost["tx_count"] = i + 1
            s.ghost["raw_covered"] = payload.f["hi"]
            t_ = s.new("Transmission", {"control": control, "payload": payload, "level": lvl})
            # the real __post_init__ (and compress) decide about compression and the `o` key
            return [(t_, s2) for _, s2 in e.call(tx_post_init, (t_,), {}, s)]
        tx_post_init = inline(ctx.fn(KITTY, "Transmission.__post_init__"), eng)
        tx_compress = inline(ctx.fn(KITTY, "Transmission.compress"), eng)
        eng.methods[("Transmission", "compress")] = lambda e, s, recv, a, k: e.call(tx_compress, (recv,), {}, s)

        def zlib_compress(e, s, a, k):
            n = e.sym_int("zlen")
            s.pc.append(n >= 1)
            return [(Rec("bytes", {"base": "zlib", "lo": z3.IntVal(0), "hi": n, "zlib_of": a[0]}), s)]
        eng.genv["compress"] = Fn(zlib_compress)
        orig_len = eng.genv.get("len")
        eng.genv["len"] = Fn(lambda e, s, a, k: [(a[0].f["hi"] - a[0].f["lo"], s)] if isinstance(a[0], Rec) and a[0].name == "bytes" else
                             __import__("pyvc.engine", fromlist=["BUILTINS"]).BUILTINS["len"](e, s, a, k))
        eng.methods["new:Transmission"] = new_trans
        eng.genv["Transmission"] = ClassV("Transmission")

        def tx_piece(e, s, recv):
            # contract of get_chunks (unit above): a complete, well-framed transmission with the control keys *as they are now*
            ctl = s.H(s.H(recv)["control"])
            pay = s.H(recv)["payload"]
            compressed = "zlib_of" in pay.f
            e.oblige("C03:o=z-iff-the-payload-handed-over-is-zlib-compressed", s, (ctl["o"] == "z") == compressed and ctl["o"] in ("z", None), prop="C03", kind="pre")
            raw = pay.f["zlib_of"] if compressed else pay
            e.oblige("C03:transmitted-bytes-are-the-strip(compressed-or-not)", s, raw.f.get("base") == "raw", prop="C03", kind="pre")
            return TS([tstr.Placement("kitty", ctl["c"], ctl["r"], moves_cursor=False)])
        eng.methods[("Transmission", "get_chunks")] = lambda e, s, recv, a, k: [((tx_piece(e, s, recv),), s)]
        eng.methods[("Transmission", "get_chunked")] = lambda e, s, recv, a, k: [(tx_piece(e, s, recv), s)]

        if method == "lines":
            bpl_inv = (rw * cw) * ch * bpp

            def inv(s, i, N):
                g = s.ghost["vt"]
                raw = s.lookup("raw_image")
                return z3.And(N == rh - 1, to_z3(g["nl"]) == i, to_z3(g["line_idx"]) == i, to_z3(g["row"]) == r0 + i, to_z3(g["col"]) == 0,
                              to_z3(g["line_w"]) == 0, to_z3(g["written"]) == 0, to_z3(g["skipped"]) == 0, z3.Not(g["irregular"]), to_z3(g["bottom"]) == B0,
                              z3.BoolVal(g["parser"] == "ground"), g["sgr_default"], to_z3(g.get("erased_to", 0)) == 0,
                              # the strip of line i has been placed on line i
                              z3.BoolVal(g.get("img") is not None) if g.get("img") is None else
                              z3.And(to_z3(g["img"][0]) == r0 + i, to_z3(g["img"][1]) == r0 + i + 1, to_z3(g["img"][2]) == 0, to_z3(g["img"][3]) == rw,
                                     # ... and nothing placed so far reaches below it (what a delete-at-cursor on the next line may rely on)
                                     to_z3(g["img_bottom"]) == r0 + i + 1),
                              s.ghost["tx_count"] == i + 1, s.ghost["raw_covered"] == (i + 1) * bpl_inv, s.H(raw)["pos"] == (i + 1) * bpl_inv,
                              Eq(s.H(s.lookup("control_data"))["v"], ch), Eq(s.H(s.lookup("control_data"))["r"], 1),
                              to_z3(s.lookup("bytes_per_line")) == bpl_inv)

            def havoc(e, s, tag):
                g = havoc_vt(s, tag)
                g["erased_to"] = z3.Int(f"erased_to!{tag}")
                g["img"] = tuple(z3.Int(f"img{j}!{tag}") for j in range(4))
                g["img_bottom"] = z3.Int(f"img_bottom!{tag}")
                s.ghost["tx_count"], s.ghost["raw_covered"] = z3.Int(f"txc!{tag}"), z3.Int(f"rawc!{tag}")
                s.H(s.lookup("raw_image"))["pos"] = z3.Int(f"rawpos!{tag}")
                s.env["trans"] = Opaque("trans")
                # the shared ControlData's `o` key is rewritten by every Transmission: it may be either value at the loop head
                heads = []
                for oval in (None, "z"):
                    s2 = e.fork(s)
                    s2.H(s2.lookup("control_data"))["o"] = oval
                    heads.append(s2)
                return heads
            # loops of the function in source order: 1 = first `for chunk`, 2 = `for _ in range(r_height - 1)`, 3 = inner `for chunk`
            eng.invariants = {2: LoopSpec(inv, havoc)}
        blend, mix = z3.Bools("blend mix")
        st.env.update(self=self_, img=img0, alpha=Opaque("alpha"), frame=z3.Bool("frame"), method=override, z_index=zidx, mix=mix, compress=level, blend=blend)
        if c11:
            frame_image_world(eng, "KittyImage")
        outs = run_function(eng, ctx.fn(KITTY, "KittyImage._render_image"), st)
        if c11:
            frame_image_exits(eng, outs, img0, z3.Bool("frame"))
        for kind, val, s in outs:
            if kind != "return":
                eng.oblige(f"no-exception:{getattr(val, 'cls', kind)}", s, False, kind="raise")
                continue
            if isinstance(val, Rec) and val.name == "rendered":
                g = dict(val.f["vt"])
                s2 = s
            else:
                # WHOLE: the string is assembled with "".join(...): interpret it now
                s2 = s.fork()
                vt = VT(eng, s2, tag="whole", line_pred=line_pred)
                vt.feed(val)
                vt.commit()
                g = dict(s2.ghost["vt"])
            vt = VT(eng, s2, line_pred=line_pred)
            vt.g = dict(g)
            vt.finish()
            eng.oblige("H-1-newlines,no-trailing-newline,attributes-untouched,cursor-on-last-line-after-last-column", s2,
                       z3.And(to_z3(g["nl"]) == H - 1, z3.Not(g["last_nl"]), g["sgr_default"], to_z3(g["row"]) == r0 + H - 1,
                              z3.Or(to_z3(g["col"]) == W, z3.And(W == TW, to_z3(g["col"]) == TW - 1)), to_z3(g["bottom"]) == B0,
                              z3.BoolVal(g["parser"] == "ground")), kind="post")
            eng.oblige("C03:one-transmission-per-line(LINES)/one-for-the-image(WHOLE),all-raw-bytes-sent", s2,
                       And(s2.ghost["tx_count"] == (rh if method == "lines" else 1), s2.ghost["raw_covered"] == RAWLEN), prop="C03", kind="post")
            eng.oblige("C20:render-method-used=the-per-call-override(any-letter-case),else-the-image's-effective-method", s2,
                       And(s2.ghost["tx_count"] == (rh if method == "lines" else 1), Eq(s2.ghost.get("size_req"), (width, height))), prop="C20", kind="post")
        return eng.obligations
    return u


for _meth in ("lines", "whole"):
    for _mode in ("RGB", "RGBA"):
        kitty_unit(_meth, _mode)
    for _ov in (_meth, _meth.upper(), _meth.capitalize()):
        kitty_unit(_meth, "RGB", override=_ov)
