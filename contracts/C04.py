"""C04 - Automatic sizing always fits the frame, fills it, and preserves aspect ratio."""
import ast
import z3
from pyvc.runner import unit, run_function
from pyvc.values import *
from pyvc.engine import State, Obligation
from spec import sizing as SZ
from .common import *

COMMON, BLOCK = "image/common.py", "image/block.py"
TRUSTED = ["A-FLOAT: Python floats are treated as reals; round(x) is a fixed function within 1/2 of x (ties unconstrained, so ties-to-even is covered); "
           "int(x) of a float truncates, except that at a mathematically exact integer N it may give N or the neighbour towards zero (the "
           "computed float may sit a hair off N), and an order comparison of two floats that are mathematically equal may go either way - "
           "the two places where the real-number reading would hide a float effect",
           "get_terminal_size() returns positive integers; get_cell_size() returns None or a pair of positive integers, constant during one sizing computation"]
ASSUMPTIONS = ["A-FLOAT (IEEE-754 rounding error ignored)"]
NOT_DECIDED = ["gap between reals and IEEE doubles (probed only by the bounded grid of the thorough tier)"]

FAMILY_CLASS = {"text": "BlockImage", "gfx": "KittyImage"}


def world(ctx, eng, fam, st):
    ow, oh, tw, th, cw, ch = z3.Ints("ow oh tw th cw ch")
    pr = z3.Real("pr")
    st.pc += [ow >= 1, oh >= 1, tw >= 1, th >= 1, pr > 0]
    if fam == "text":
        st.pc += [cw == 1, ch == 2]
    else:
        st.pc += [cw >= 1, ch >= 1, pr == 1]
    eng.classes.update({"BlockImage": ("TextImage",), "TextImage": ("BaseImage",), "KittyImage": ("GraphicsImage",),
                        "ITerm2Image": ("GraphicsImage",), "GraphicsImage": ("BaseImage",), "BaseImage": ()})
    eng.genv.update(UTIL_ERRS)
    eng.float_trunc_unstable = True     # int() of a float that is mathematically an integer: that integer or its neighbour towards zero
    eng.float_cmp_unstable = True       # an order comparison of floats that are mathematically equal: either outcome
    eng.genv["Size"] = ctx.ns("term_image.image.common").d["Size"]
    eng.classes["Size"] = ()
    eng.genv["get_terminal_size"] = Fn(lambda e, s, a, k: [(Rec("terminal_size", {"columns": tw, "lines": th}), s)])
    eng.genv["mul"] = Fn(lambda e, s, a, k: e.binop(ast.Mult(), a[0], a[1], s))
    eng.genv["gt"] = Fn(lambda e, s, a, k: [(e.cmp(ast.Gt(), a[0], a[1], s), s)])
    eng.genv["InvalidSizeError"] = ClassV("InvalidSizeError")
    eng.genv["TermImageError"] = ClassV("TermImageError")

    def px_cols(e, s, recv, a, k):
        if set(k) == {"pixels"}:
            return [(SZ.px_to_cols(fam, k["pixels"], cw), s)]
        if set(k) == {"cols"}:
            return [(SZ.cols_to_px(fam, k["cols"], cw), s)]
        raise Unsupported("_pixels_cols call shape")

    def px_lines(e, s, recv, a, k):
        if set(k) == {"pixels"}:
            return [(SZ.px_to_lines(fam, k["pixels"], ch), s)]
        if set(k) == {"lines"}:
            return [(SZ.lines_to_px(fam, k["lines"], ch), s)]
        raise Unsupported("_pixels_lines call shape")
    eng.methods[("BaseImage", "_pixels_cols")] = px_cols
    eng.methods[("BaseImage", "_pixels_lines")] = px_lines
    whp = inline(ctx.fn(COMMON, "BaseImage._width_height_px"), eng)
    eng.methods[("BaseImage", "_width_height_px")] = lambda e, s, recv, a, k: e.call(whp, (recv,) + tuple(a), k, s)
    if fam == "text":
        eng.attrs[("BaseImage", "_pixel_ratio")] = lambda e, s, v: [(pr, s)]
    else:
        c = ctx.class_const("GraphicsImage", "_pixel_ratio")
        eng.attrs[("BaseImage", "_pixel_ratio")] = lambda e, s, v: [(c, s)]
    return dict(ow=ow, oh=oh, tw=tw, th=th, cw=cw, ch=ch, pr=pr)


def new_image(st, fam, P, size=None):
    return st.new(FAMILY_CLASS[fam], {"_original_size": (P["ow"], P["oh"]), "_size": size})


MODES = {"FIT": ("FIT", None), "AUTO": ("AUTO", None), "ORIGINAL": ("ORIGINAL", None), "FIT_TO_WIDTH": ("FIT_TO_WIDTH", None),
         "WIDTH": ("int", None), "HEIGHT": (None, "int"),
         # the enum member may equally be passed as height (rendered_height does so)
         "FIT(as height)": (None, "FIT"), "AUTO(as height)": (None, "AUTO")}


def run_valid_size(ctx, fam, mode, tag=""):
    eng = ctx.engine(f"C04/_valid_size[{fam},{mode}]", "C04")
    st = State()
    P = world(ctx, eng, fam, st)
    f0, f1 = z3.Ints("f0 f1")
    size_ns = eng.genv["Size"].d
    given = z3.Int("given")
    st.pc.append(given >= 1)
    wv, hv = [given if x == "int" else size_ns[x] if x else None for x in MODES[mode]]
    self_ = new_image(st, fam, P)
    st.env.update(self=self_, width=wv, height=hv, frame_size=(f0, f1))
    outs = run_function(eng, ctx.fn(COMMON, "BaseImage._valid_size"), st)
    cols, lines = SZ.resolve_frame_dim(f0, P["tw"]), SZ.resolve_frame_dim(f1, P["th"])
    return eng, outs, P, cols, lines, given, (f0, f1)


def make_valid_size_unit(fam, mode):
    @unit("C04", f"common:BaseImage._valid_size[{fam},{mode}]")
    def u(ctx, fam=fam, mode=mode):
        eng, outs, P, cols, lines, given, _ = run_valid_size(ctx, fam, mode)
        label = mode.split("(")[0]
        for kind, val, s in outs:
            if kind != "return":
                eng.oblige(f"no-exception:{getattr(val, 'cls', kind)}", s, False, kind="raise", replay="C04.valid_size", fam=fam, mode=mode)
                continue
            if not (isinstance(val, tuple) and len(val) == 2):
                raise Unsupported("result is not a pair")
            W, H = to_z3(as_arith(val[0])), to_z3(as_arith(val[1]))
            if not (z3.is_int(W) and z3.is_int(H)):
                eng.oblige("result-is-integer-pair", s, False, kind="post", replay="C04.valid_size", fam=fam, mode=mode)
                continue
            cl = SZ.clauses(label, W, H, cols, lines, P["ow"], P["oh"], P["pr"], P["cw"], P["ch"], given)
            if label == "AUTO":
                cl["fits-frame"] = And(W <= cols, H <= lines)
            for name, goal in cl.items():
                eng.oblige(name, s, goal, kind="post", replay="C04.valid_size", fam=fam, mode=mode)
        return eng.obligations
    return u


for _fam in ("text", "gfx"):
    for _mode in MODES:
        make_valid_size_unit(_fam, _mode)


def make_auto_rule_unit(fam, auto="AUTO"):
    suffix = "" if auto == "AUTO" else "(as height)"

    @unit(("C04", "C01") if suffix else "C04", f"common:BaseImage._valid_size[{fam}]/AUTO-rule{suffix}")
    def u(ctx, fam=fam):
        """AUTO equals ORIGINAL when the source (scaled for the pixel ratio) fits the frame's pixel area, FIT otherwise - whichever of
        the two arguments carries it (rendered_height passes a dynamic size as the height, rendered_size / rendered_width and the
        renderer as the width: the advertised height and the rendered lines agree only if both resolve it alike, C01)."""
        runs = {m: run_valid_size(ctx, fam, m) for m in (auto, "ORIGINAL", "FIT")}
        runs["AUTO"] = runs[auto]
        eng, outs_a, P, cols, lines, _, _ = runs["AUTO"]
        eng.label = f"C04/_valid_size[{fam}]/AUTO-rule{suffix}"
        fw = SZ.cols_to_px(fam, cols, P["cw"])
        fh = SZ.lines_to_px(fam, lines, P["ch"])
        from pyvc.values import _ROUND
        scaled_h = _ROUND(z3.ToReal(P["oh"]) * P["pr"])
        fits = z3.And(P["ow"] <= fw, scaled_h <= fh)
        _x = z3.ToReal(P["oh"]) * P["pr"]
        rax = z3.And(z3.ToReal(scaled_h) - _x <= z3.RealVal("1/2"), _x - z3.ToReal(scaled_h) <= z3.RealVal("1/2"))
        for kind, va, sa in outs_a:
            if kind != "return":
                continue
            for other, when in (("ORIGINAL", fits), ("FIT", z3.Not(fits))):
                for k2, vo, so in runs[other][1]:
                    if k2 != "return":
                        continue
                    st = sa.fork()
                    st.pc += so.pc + [when, rax] + runs[other][0].round_axioms
                    eng.oblige(f"AUTO=={other}", st, Eq(va, vo), kind="post", replay="C04.valid_size", fam=fam, mode=auto)
                    if suffix:
                        eng.oblige(f"C01:advertised-height(AUTO-as-height)=height-rendered(AUTO-as-width):both=={other}", st, Eq(va, vo), prop="C01", kind="post",
                                   replay="C01.dynamic_size", fam=fam, mode=auto)
        return eng.obligations
    return u


for _fam in ("text", "gfx"):
    make_auto_rule_unit(_fam)
    make_auto_rule_unit(_fam, "AUTO(as height)")


# ------------------------------------------------------------------------------- conversions (callee contracts)
@unit("C04", "pixel-conversions")
def u_conversions(ctx):
    """the family conversion functions satisfy the contracts used at the call sites of _valid_size"""
    eng = ctx.engine("C04/conversions", "C04")
    p = z3.Int("p")
    cases = [("text", BLOCK, "BlockImage._pixels_cols", "pixels", SZ.px_to_cols), ("text", BLOCK, "BlockImage._pixels_cols", "cols", SZ.cols_to_px),
             ("text", BLOCK, "BlockImage._pixels_lines", "pixels", SZ.px_to_lines), ("text", BLOCK, "BlockImage._pixels_lines", "lines", SZ.lines_to_px),
             ("gfx", COMMON, "GraphicsImage._pixels_cols", "pixels", SZ.px_to_cols), ("gfx", COMMON, "GraphicsImage._pixels_cols", "cols", SZ.cols_to_px),
             ("gfx", COMMON, "GraphicsImage._pixels_lines", "pixels", SZ.px_to_lines), ("gfx", COMMON, "GraphicsImage._pixels_lines", "lines", SZ.lines_to_px)]
    for fam, rel, qual, arg, spec in cases:
        for cell_known in ((True, False) if fam == "gfx" else (True,)):
            eng.label = f"C04/{qual}({arg})" + ("" if cell_known else "[cell size unknown]")
            st = State()
            cw, ch = z3.Ints("cw ch")
            st.pc += [p >= 0, cw >= 1, ch >= 1]
            if fam == "gfx":
                if cell_known:
                    eng.genv["get_cell_size"] = Fn(lambda e, s, a, k: [(size_rec(cw, ch), s)])
                else:
                    eng.genv["get_cell_size"] = Fn(lambda e, s, a, k: [(None, s)])
                    st.pc += [cw == 1, ch == 2]    # documented fallback cell size
            names = [a.arg for a in ctx.fn(rel, qual).args.kwonlyargs]
            st.env.update({n: None for n in names})
            st.env[arg] = p
            outs = run_function(eng, ctx.fn(rel, qual), st)
            dim = cw if "cols" in qual else ch
            exits(eng, outs, ensure=lambda v, s, spec=spec, fam=fam, dim=dim: And(Eq(v, spec(fam, p, dim)), isinstance(v, int) or z3.is_int(v)),
                  replay="C04.conversion")
    return eng.obligations


@unit("C04", "common:TextImage._pixel_ratio")
def u_pixel_ratio(ctx):
    eng = ctx.engine("C04/TextImage._pixel_ratio", "C04")
    tree, _ = ctx.tree(COMMON)
    lam = None
    for n in ast.walk(tree):
        if isinstance(n, ast.ClassDef) and n.name == "TextImage":
            for x in n.body:
                if isinstance(x, ast.Assign) and isinstance(x.targets[0], ast.Name) and x.targets[0].id == "_pixel_ratio":
                    call = x.value
                    if isinstance(call, ast.Call) and getattr(call.func, "id", None) == "property" and isinstance(call.args[0], ast.Lambda):
                        lam = call.args[0]
    if lam is None:
        raise Unsupported("TextImage._pixel_ratio is no longer property(lambda ...)")
    ctx.fn(COMMON, "TextImage")
    st = State()
    cr = z3.Real("cell_ratio")
    st.pc.append(cr > 0)         # post-condition of get_cell_ratio (C15 unit)
    eng.genv["get_cell_ratio"] = Fn(lambda e, s, a, k: [(cr, s)])
    st.env[lam.args.args[0].arg] = st.new("BlockImage")
    for v, s in eng.ev(lam.body, st):
        eng.oblige("pixel-ratio=2*cell-ratio>0", s, And(v == 2 * cr, v > 0), kind="post")
    return eng.obligations


# ------------------------------------------------------------------------------- state: set_size / size / _renderer
def valid_size_contract(P):
    """call-site contract of _valid_size: a pair of positive ints, a function of its arguments and the environment"""
    VW = z3.Function("valid_w", z3.IntSort(), z3.IntSort(), z3.IntSort(), z3.IntSort(), z3.IntSort())
    VH = z3.Function("valid_h", z3.IntSort(), z3.IntSort(), z3.IntSort(), z3.IntSort(), z3.IntSort())

    def code(v):
        if v is None:
            return z3.IntVal(-1)
        if isinstance(v, EnumV):
            return z3.IntVal(-2 - ["FIT", "AUTO", "ORIGINAL", "FIT_TO_WIDTH"].index(v.name))
        return to_z3(v)

    def f(e, s, recv, a, k):
        a = list(a) + [None] * (3 - len(a))
        width, height, frame = a[0], a[1], a[2] if a[2] is not None else k.get("frame_size", (0, -2))
        width = k.get("width", width)
        height = k.get("height", height)
        args = (code(width), code(height), to_z3(frame[0]), to_z3(frame[1]))
        w, h = VW(*args), VH(*args)
        s.pc += [w >= 1, h >= 1]
        return [((w, h), s)]
    return f, VW, VH, code


@unit("C04", "common:BaseImage.set_size")
def u_set_size(ctx):
    obs = []
    for fam in ("text",):
        for wk, hk in (("int", "int"), ("int", None), (None, "int"), ("enum", None), (None, "enum"), (None, None), ("enum", "int"), ("enum", "enum")):
            eng = ctx.engine(f"C04/set_size[{wk},{hk}]", "C04")
            st = State()
            P = world(ctx, eng, fam, st)
            vs, VW, VH, code = valid_size_contract(P)
            eng.methods[("BaseImage", "_valid_size")] = vs
            wi, hi, f0, f1 = z3.Ints("w_arg h_arg f0 f1")
            size_ns = eng.genv["Size"].d
            mk = lambda kind, sym: sym if kind == "int" else size_ns["FIT_TO_WIDTH"] if kind == "enum" else None
            wv, hv = mk(wk, wi), mk(hk, hi)
            old_size = (z3.Int("old_w"), z3.Int("old_h"))
            self_ = new_image(st, fam, P, old_size)
            st.env.update(self=self_, width=wv, height=hv, frame_size=(f0, f1))
            outs = run_function(eng, ctx.fn(COMMON, "BaseImage.set_size"), st)
            bad_int = Or(wk == "int" and wi <= 0, hk == "int" and hi <= 0)

            def ensure(v, s, wv=wv, hv=hv, wk=wk, hk=hk):
                got = s.H(self_)["_size"]
                if wk == "int" and hk == "int":
                    return Eq(got, (wi, hi))                      # manual sizes are stored unchanged
                args = (code(wv), code(hv), f0, f1)
                return Eq(got, (VW(*args), VH(*args)))           # fixed size computed once, now
            def unchanged(s):
                return Eq(s.H(self_)["_size"], old_size)
            both = wk is not None and hk is not None
            raises = {"ValueError": lambda s: And(bad_int, unchanged(s))}
            if both and not (wk == "int" and hk == "int"):
                raises["TypeError"] = lambda s: And(Not(bad_int), unchanged(s))
            obs += exits(eng, outs, ensure=ensure, raises=raises, replay="C04.set_size")
    return obs


@unit("C04", "common:BaseImage.size(setter)")
def u_size_setter(ctx):
    obs = []
    setter = [n for n in ctx.fn_all(COMMON, "BaseImage.size")][-1]
    for kind in ("enum", "tuple"):
        eng = ctx.engine(f"C04/size.setter[{kind}]", "C04")
        st = State()
        P = world(ctx, eng, "text", st)
        wi, hi = z3.Ints("w_arg h_arg")
        st.pc += [wi >= 1, hi >= 1]
        calls = []
        eng.methods[("BaseImage", "set_size")] = lambda e, s, recv, a, k: (calls.append((a, k)), [(None, _store(e, s, recv, a))])[1]

        def _store(e, s, recv, a):
            s = e.fork(s)
            s.H(recv)["_size"] = tuple(a)
            return s
        member = eng.genv["Size"].d["AUTO"]
        val = member if kind == "enum" else (wi, hi)
        self_ = new_image(st, "text", P, (z3.Int("old_w"), z3.Int("old_h")))
        st.env.update(self=self_, size=val)
        outs = run_function(eng, setter, st)
        obs += exits(eng, outs, ensure=lambda v, s, val=val, kind=kind: (s.H(self_)["_size"] is member) if kind == "enum" else Eq(s.H(self_)["_size"], (wi, hi)))
    return obs


@unit("C04", "common:BaseImage.rendered_size")
def u_rendered(ctx):
    """dynamic sizes are re-evaluated at every read (they follow the terminal), fixed sizes are returned as stored"""
    obs = []
    tree, _ = ctx.tree(COMMON)
    lams = {}
    for n in ast.walk(tree):
        if isinstance(n, ast.ClassDef) and n.name == "BaseImage":
            for x in n.body:
                if isinstance(x, ast.Assign) and isinstance(x.targets[0], ast.Name) and x.targets[0].id in ("rendered_size", "rendered_width", "rendered_height"):
                    if isinstance(x.value, ast.Call) and isinstance(x.value.args[0], ast.Lambda):
                        lams[x.targets[0].id] = x.value.args[0]
    if set(lams) != {"rendered_size", "rendered_width", "rendered_height"}:
        raise Unsupported("rendered_* properties changed shape")
    ctx.fn(COMMON, "BaseImage")
    for name, lam in lams.items():
        for kind in ("dynamic", "fixed"):
            eng = ctx.engine(f"C04/{name}[{kind}]", "C04")
            st = State()
            P = world(ctx, eng, "text", st)
            # what any size computation for member M yields right now: FIT-family members may be given as width or height
            vs, VW, VH, code = valid_size_contract(P)
            eng.methods[("BaseImage", "_valid_size")] = vs
            member = eng.genv["Size"].d["FIT"]
            sw, sh = z3.Ints("size_w size_h")
            self_ = new_image(st, "text", P, member if kind == "dynamic" else (sw, sh))
            st.env[lam.args.args[0].arg] = self_
            for v, s in eng.ev(lam.body, st):
                if kind == "fixed":
                    exp = {"rendered_size": (sw, sh), "rendered_width": sw, "rendered_height": sh}[name]
                    eng.oblige("fixed-size-returned-as-stored", s, Eq(v, exp), kind="post")
                else:
                    # computed now, by _valid_size, with the member in either slot and the default frame
                    a1, a2 = (code(member), z3.IntVal(-1), z3.IntVal(0), z3.IntVal(-2)), (z3.IntVal(-1), code(member), z3.IntVal(0), z3.IntVal(-2))
                    if name == "rendered_size":
                        g = Or(Eq(v, (VW(*a1), VH(*a1))), Eq(v, (VW(*a2), VH(*a2))))
                    elif name == "rendered_width":
                        g = Or(Eq(v, VW(*a1)), Eq(v, VW(*a2)))
                    else:
                        g = Or(Eq(v, VH(*a1)), Eq(v, VH(*a2)))
                    eng.oblige("dynamic-size-recomputed", s, g, kind="post")
            obs += eng.obligations
    return obs


def renderer_world(ctx, eng, st, fam="text", dynamic=True, closed=False):
    """callee contracts for BaseImage._renderer (shared with C06/C07/C11)"""
    P = world(ctx, eng, fam, st)
    vs, VW, VH, code = valid_size_contract(P)
    member = eng.genv["Size"].d["FIT"]
    sw, sh = z3.Ints("size_w size_h")
    st.pc += [sw >= 1, sh >= 1]
    self_ = new_image(st, fam, P, member if dynamic else (sw, sh))

    def set_size(e, s, recv, a, k):
        # contract proved by unit common:BaseImage.set_size: stores the computed size, or raises leaving _size alone
        e.raise_(ExcVal("ValueError"), e.fork(s), fault=True)
        s = e.fork(s)
        (v, s), = vs(e, s, recv, a, k)
        s.H(recv)["_size"] = v
        return [(None, s)]
    eng.methods[("BaseImage", "set_size")] = set_size
    eng.methods[("BaseImage", "_valid_size")] = vs

    # the image may have been finalized (closed) before this render is attempted: _get_image then fails - and the size setting has
    # to come out as it went in all the same
    st.H(self_)["_closed"] = closed
    setter = ctx.fn(COMMON, "BaseImage.size")
    extra_decorators = [ast.unparse(d) for d in setter.decorator_list if ast.unparse(d) != "size.setter"]
    if any(d != "_close_validated" for d in extra_decorators):
        raise Unsupported(f"decorators of the size setter: {extra_decorators}")

    def size_setter(e, s, recv, a, k):
        """the real setter (with what its decorators add) for the one kind of value _renderer hands it: a Size member"""
        if "_close_validated" in extra_decorators:
            # contract of the decorator (utils-level helper of common.py): a finalized instance rejects the operation
            if s.H(recv)["_closed"]:
                e.raise_(ExcVal("TermImageError"), s)
                return []
        if isinstance(a[0], EnumV):
            if not any(isinstance(n_, ast.Assign) and ast.unparse(n_) == "self._size = size" for n_ in ast.walk(setter)):
                raise Unsupported("size setter no longer stores a Size member with `self._size = size`")
            s.H(recv)["_size"] = a[0]
            return [(None, s)]
        raise Unsupported("size setter with a tuple inside _renderer")
    eng.methods[("BaseImage", "set:size")] = size_setter

    def rendered_size(e, s, v):
        sz = s.H(v)["_size"]
        if isinstance(sz, EnumV):
            return [(r, s2) for (r, s2) in vs(e, s, v, (sz, None), {})]
        return [(sz, s)]
    eng.attrs[("BaseImage", "rendered_size")] = rendered_size
    eng.attrs[("BaseImage", "rendered_height")] = lambda e, s, v: [(r[1], s2) for r, s2 in rendered_size(e, s, v)]
    eng.attrs[("BaseImage", "rendered_width")] = lambda e, s, v: [(r[0], s2) for r, s2 in rendered_size(e, s, v)]

    def get_image(e, s, recv, a, k):
        e.raise_(ExcVal("TermImageError"), e.fork(s), fault=True)       # finalized image / unreadable file
        if closed:
            return []                                                   # a finalized image: always
        s = e.fork(s)
        img = s.new("PIL.Image", {"open": True})
        return [(img, s)]
    eng.methods[("BaseImage", "_get_image")] = get_image
    return P, self_, member, (sw, sh)


@unit(("C04", "C07", "C11"), "common:BaseImage._renderer/size-setting-restored")
def u_renderer_frame(ctx):
    obs = []
    for dynamic, closed in ((True, False), (False, False), (True, True), (False, True)):
        eng = ctx.engine(f"C04/_renderer[{'dynamic' if dynamic else 'fixed'}{',image-already-closed' if closed else ''}]", "C04")
        st = State()
        P, self_, member, fixed = renderer_world(ctx, eng, st, "text", dynamic, closed)
        seen_size = []

        def renderer(e, s, a, k):
            # during the render the size is a concrete pair (dynamic sizes are evaluated for this render)
            e.oblige("size-is-fixed-pair-during-render", s, isinstance(s.H(self_)["_size"], tuple), kind="post")
            for exc in ("KeyboardInterrupt", "Exception"):
                e.raise_(ExcVal(exc), e.fork(s), fault=True)
            return [(Opaque("render result"), s)]
        chk, anim, scr = z3.Bools("check_size animated scroll")
        st.env.update(self=self_, renderer=Fn(renderer), args=(), kwargs=st.new("dict", {"@items": {}}), scroll=scr, check_size=chk, animated=anim)
        outs = run_function(eng, ctx.fn(COMMON, "BaseImage._renderer"), st)
        before = member if dynamic else fixed
        for kind, val, s in outs:
            got = s.H(self_)["_size"]
            goal = (got is member) if dynamic else Eq(got, fixed)
            eng.oblige(f"size-setting-unchanged@{kind}", s, goal, kind="exit", replay="C04.renderer")
            eng.oblige(f"C07:size-setting-is-what-it-was@{kind}", s, goal, prop="C07", kind="exit", replay="C04.renderer")
            eng.oblige(f"C11:size-setting-never-altered-by-rendering@{kind}", s, goal, prop="C11", kind="exit", replay="C04.renderer")
        obs += eng.obligations
    return obs
