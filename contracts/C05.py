"""C05 - Padding and alignment place the render exactly, inside exactly the padded size.

Functions under contract (real source, re-read every run): padding.py: Padding.__init__, get_padded_size, pad,
to_exact; AlignedPadding.__init__, get_padded_size, resolve, _get_exact_dimensions_; ExactPadding.__init__,
_get_exact_dimensions_; geometry.Size.__new__; _ctlseqs.cursor_forward.
"""
import z3
from pyvc.runner import unit, run_function
from pyvc.values import *
from pyvc.engine import State
from pyvc import tstr
from pyvc.tstr import TS, Block, VT, vt_new
from spec import padding as SP
from .common import *
from .C19 import interp_unit  # noqa: F401  (format-spec padding sizes)
from .renderable import u_render_str  # noqa: F401  (registers the render() unit for C05)

PAD = "padding.py"
TRUSTED = ["dataclasses.astuple returns the fields in declaration order (field order is re-read from the class body)",
           "terminal model of DESIGN appendix A (pyvc/tstr.py VT) for the placement obligations"]
ASSUMPTIONS = ["render argument of Padding.pad obeys the render-output contract (h lines of w columns joined by newlines) - proved for the image styles by C01",
               "fill is '' or exactly one column wide (documented requirement on the caller)"]
NOT_DECIDED = []


# ---------------------------------------------------------------------------------------------- world
def world(ctx, eng):
    """names visible to the functions of padding.py"""
    ns = ctx.ns("term_image.padding")
    eng.genv.update(UTIL_ERRS)
    eng.genv["_ALIGN_RATIOS"] = ns.d["_ALIGN_RATIOS"]
    eng.genv["_Size"] = fn_size("Size")
    eng.genv["_RawSize"] = fn_size("RawSize")
    eng.genv["HAlign"] = ns.d["HAlign"]
    eng.genv["VAlign"] = ns.d["VAlign"]
    eng.classes.update({"AlignedPadding": ("Padding",), "ExactPadding": ("Padding",), "Padding": ()})
    for c in ("Padding", "AlignedPadding", "ExactPadding"):
        eng.genv[c] = ClassV(c)
    eng.exc_parents.setdefault("RelativePaddingDimensionError", "PaddingError")
    fields = {c: dataclass_fields(ctx, PAD, c) for c in ("AlignedPadding", "ExactPadding")}

    def astuple(e, s, args, kw):
        o = args[0]
        if not isinstance(o, Ref) or o.cls not in fields:
            raise Unsupported("astuple of non-dataclass")
        h = s.H(o)
        for f in fields[o.cls]:
            if f not in h:
                e.raise_("AttributeError", s)
                return []
        return [(tuple(h[f] for f in fields[o.cls]), s)]
    eng.genv["astuple"] = Fn(astuple)

    # read-only properties of the padding classes: their real bodies, evaluated on the object
    try:
        size_prop = inline(ctx.fn(PAD, "AlignedPadding.size"), eng)
        eng.attrs[("AlignedPadding", "size")] = lambda e, s, v: e.call(size_prop, (v,), {}, s)
    except Exception:  # noqa: BLE001  (no such property any more: code that reads it is then outside the model)
        pass

    def locals_(e, s, args, kw):
        return [(Namespace("locals", dict(s.frames[-1])), s)]
    eng.genv["locals"] = Fn(locals_)
    eng.genv["cursor_forward"] = inline(ctx.fn("_ctlseqs.py", "cursor_forward"), eng)
    cs = ctx.ns("term_image._ctlseqs")
    for k, v in cs.d.items():
        if isinstance(v, str) and k.isupper():
            eng.genv.setdefault(k, v)

    # object construction = the real __init__ bodies, inline
    def setattr_(e, s, args, kw):
        o, name, v = args
        s = e.fork(s)
        s.H(o)[name] = v
        return [(None, s)]
    eng.genv["Padding"] = ClassV("Padding", (), {"__setattr__": Fn(setattr_)})
    pad_init = inline(ctx.fn(PAD, "Padding.__init__"), eng)

    def super_(e, s, args, kw):
        return [(Rec("super", {"self": s.lookup("self")}), s)]
    eng.genv["super"] = Fn(super_)
    eng.attrs[("super", "__init__")] = lambda e, s, v: [(Fn(lambda e2, s2, a, k: e2.call(pad_init, (v.f["self"],) + a, k, s2)), s)]
    eng.attrs[("super", "__setattr__")] = lambda e, s, v: [(Fn(lambda e2, s2, a, k: setattr_(e2, s2, (v.f["self"],) + a, k)), s)]

    def ctor(cname):
        init = inline(ctx.fn(PAD, cname + ".__init__"), eng)

        def new(e, s, cls, args, kw):
            s = e.fork(s)
            o = s.new(cname)
            return [(o, s2) for _, s2 in e.call(init, (o,) + tuple(args), kw, s)]
        return new
    eng.methods["new:AlignedPadding"] = ctor("AlignedPadding")
    eng.methods["new:ExactPadding"] = ctor("ExactPadding")
    return fields


def sym_aligned(eng, s, tag="p", absolute=None):
    w, h, ha, va = z3.Int(tag + "_width"), z3.Int(tag + "_height"), z3.Int(tag + "_h_align"), z3.Int(tag + "_v_align")
    s.pc += [ha >= 0, ha <= 2, va >= 0, va <= 2]
    rel = z3.Not(z3.And(w > 0, h > 0))       # data invariant established by __init__ (unit C05/aligned-init)
    if absolute is True:
        s.pc.append(z3.Not(rel))
        rel = False
    o = s.new("AlignedPadding", {"width": w, "height": h, "h_align": ha, "v_align": va, "fill": "*", "relative": rel})      # a non-default fill: dropping it is visible
    return o, (w, h, ha, va)


def sym_size(s, tag="rs"):
    rw, rh = z3.Int(tag + "_w"), z3.Int(tag + "_h")
    s.pc += [rw >= 1, rh >= 1]
    return size_rec(rw, rh), rw, rh


# ---------------------------------------------------------------------------------------------- units
@unit("C05", "padding:AlignedPadding._get_exact_dimensions_")
def u_aligned_exact(ctx):
    eng = ctx.engine("C05/AlignedPadding._get_exact_dimensions_", "C05")
    world(ctx, eng)
    st = State()
    self_, (w, h, ha, va) = sym_aligned(eng, st)
    rs, rw, rh = sym_size(st)
    st.env.update(self=self_, render_size=rs)
    outs = run_function(eng, ctx.fn(PAD, "AlignedPadding._get_exact_dimensions_"), st)
    return exits(eng, outs,
                 ensure=lambda v, s: Eq(tuple(v) if not isinstance(v, tuple) else v, SP.spec_exact_dims(w, h, ha, va, rw, rh)),
                 raises={"RelativePaddingDimensionError": lambda s: SP.relative(w, h)}, replay="C05.aligned_exact")


@unit("C05", "padding:ExactPadding._get_exact_dimensions_")
def u_exact_exact(ctx):
    eng = ctx.engine("C05/ExactPadding._get_exact_dimensions_", "C05")
    world(ctx, eng)
    st = State()
    l, t, r, b = z3.Ints("left top right bottom")
    self_ = st.new("ExactPadding", {"left": l, "top": t, "right": r, "bottom": b, "fill": " "})
    rs, rw, rh = sym_size(st)
    st.env.update(self=self_, render_size=rs)
    outs = run_function(eng, ctx.fn(PAD, "ExactPadding._get_exact_dimensions_"), st)
    return exits(eng, outs, ensure=lambda v, s: Eq(v, (l, t, r, b)), replay="C05.exact_exact")


def dims_contract(kind, dims):
    """callee contract of `_get_exact_dimensions_` used at call sites (modular: the caller never sees the body)"""
    def m(eng, s, recv, args, kw):
        if kind == "aligned":
            h = s.H(recv)
            out = []
            for rel, s2 in eng.split(s, h["relative"] if is_sym(h["relative"]) else bool(h["relative"])):
                if rel:
                    eng.raise_(ExcVal("RelativePaddingDimensionError"), s2)
                else:
                    rs = args[0]
                    out.append((SP.spec_exact_dims(h["width"], h["height"], h["h_align"], h["v_align"], rs.f["width"], rs.f["height"]), s2))
            return out
        return [(dims, s)]
    return m


@unit("C05", "padding:Padding.get_padded_size")
def u_padded_size(ctx):
    obs = []
    for kind in ("aligned", "exact"):
        eng = ctx.engine(f"C05/Padding.get_padded_size[{kind}]", "C05")
        world(ctx, eng)
        st = State()
        rs, rw, rh = sym_size(st)
        if kind == "aligned":
            self_, (w, h, ha, va) = sym_aligned(eng, st)
            l, t, r, b = SP.spec_exact_dims(w, h, ha, va, rw, rh)
            raises = {"RelativePaddingDimensionError": lambda s: SP.relative(w, h)}
        else:
            l, t, r, b = z3.Ints("left top right bottom")
            st.pc += [l >= 0, t >= 0, r >= 0, b >= 0]
            self_ = st.new("ExactPadding", {"left": l, "top": t, "right": r, "bottom": b, "fill": " "})
            raises = {}
        eng.methods[(self_.cls, "_get_exact_dimensions_")] = dims_contract(kind, (l, t, r, b))
        st.env.update(self=self_, render_size=rs)
        outs = run_function(eng, ctx.fn(PAD, "Padding.get_padded_size"), st)

        def ensure(v, s, kind=kind):
            g = Eq(v, (l + rw + r, t + rh + b))
            if kind == "aligned":
                # "occupies exactly max(render, minimum) columns by lines"
                g = And(g, Eq(v, SP.spec_padded_size_aligned(w, h, rw, rh)))
            return g
        obs += exits(eng, outs, ensure=ensure, raises=raises, replay="C05.padded_size")
    return obs


@unit("C05", "padding:AlignedPadding.get_padded_size")
def u_aligned_padded_size(ctx):
    eng = ctx.engine("C05/AlignedPadding.get_padded_size", "C05")
    world(ctx, eng)
    st = State()
    self_, (w, h, ha, va) = sym_aligned(eng, st)
    rs, rw, rh = sym_size(st)
    st.env.update(self=self_, render_size=rs)
    outs = run_function(eng, ctx.fn(PAD, "AlignedPadding.get_padded_size"), st)
    l, t, r, b = SP.spec_exact_dims(w, h, ha, va, rw, rh)
    return exits(eng, outs,
                 ensure=lambda v, s: And(Eq(v, SP.spec_padded_size_aligned(w, h, rw, rh)),
                                         # agrees with what pad produces: margins + render
                                         Eq(v, (l + rw + r, t + rh + b))),
                 raises={"RelativePaddingDimensionError": lambda s: SP.relative(w, h)}, replay="C05.padded_size")


@unit("C05", "padding:AlignedPadding.__init__")
def u_aligned_init(ctx):
    eng = ctx.engine("C05/AlignedPadding.__init__", "C05")
    world(ctx, eng)
    st = State()
    w, h, ha, va = z3.Ints("width height h_align v_align")
    self_ = st.new("AlignedPadding")
    st.env.update(self=self_, width=w, height=h, h_align=ha, v_align=va, fill=" ")
    outs = run_function(eng, ctx.fn(PAD, "AlignedPadding.__init__"), st)

    def ensure(v, s):
        o = s.H(self_)
        need = ("width", "height", "h_align", "v_align", "fill", "relative")
        if any(k not in o for k in need):
            return False
        return And(Eq(o["width"], w), Eq(o["height"], h), Eq(o["h_align"], ha), Eq(o["v_align"], va), o["fill"] == " ",
                   to_z3(o["relative"]) == SP.relative(w, h))
    return exits(eng, outs, ensure=ensure, replay="C05.aligned_init")


@unit("C05", "padding:ExactPadding.__init__")
def u_exact_init(ctx):
    eng = ctx.engine("C05/ExactPadding.__init__", "C05")
    world(ctx, eng)
    st = State()
    l, t, r, b = z3.Ints("left top right bottom")
    self_ = st.new("ExactPadding")
    st.env.update(self=self_, left=l, top=t, right=r, bottom=b, fill=" ")

    outs = run_function(eng, ctx.fn(PAD, "ExactPadding.__init__"), st)

    def ensure(v, s):
        o = s.H(self_)
        if any(k not in o for k in ("left", "top", "right", "bottom", "fill")):
            return False
        return And(Eq(o["left"], l), Eq(o["top"], t), Eq(o["right"], r), Eq(o["bottom"], b))
    return exits(eng, outs, ensure=ensure,
                 raises={"ValueError": lambda s: Or(l < 0, t < 0, r < 0, b < 0)}, replay="C05.exact_init")


@unit("C05", "padding:AlignedPadding.resolve")
def u_resolve(ctx):
    eng = ctx.engine("C05/AlignedPadding.resolve", "C05")
    world(ctx, eng)
    st = State()
    self_, (w, h, ha, va) = sym_aligned(eng, st)
    tw, th = z3.Ints("term_w term_h")
    st.pc += [tw >= 1, th >= 1]
    st.env.update(self=self_, terminal_size=(tw, th))
    before = dict(st.H(self_))
    outs = run_function(eng, ctx.fn(PAD, "AlignedPadding.resolve"), st)

    def ensure(v, s):
        if not isinstance(v, Ref) or v.cls != "AlignedPadding":
            return False
        o = s.H(v)
        same = v is self_
        frame = And(*[Eq(s.H(self_)[k], before[k]) for k in before])   # resolve never alters the instance
        return And(frame,
                   Eq(o["width"], SP.resolve_dim(w, tw)), Eq(o["height"], SP.resolve_dim(h, th)),
                   Eq(o["h_align"], ha), Eq(o["v_align"], va), o["fill"] == before["fill"],
                   Not(to_z3(o["relative"])) if is_sym(o["relative"]) else (not o["relative"]),
                   # absolute paddings are returned as they are
                   Implies(Not(SP.relative(w, h)), same))
    return exits(eng, outs, ensure=ensure, replay="C05.resolve")


@unit("C05", "padding:Padding.to_exact")
def u_to_exact(ctx):
    obs = []
    for kind in ("aligned", "exact"):
        eng = ctx.engine(f"C05/Padding.to_exact[{kind}]", "C05")
        world(ctx, eng)
        st = State()
        rs, rw, rh = sym_size(st)
        if kind == "aligned":
            self_, (w, h, ha, va) = sym_aligned(eng, st)
            dims = SP.spec_exact_dims(w, h, ha, va, rw, rh)
            raises = {"RelativePaddingDimensionError": lambda s: SP.relative(w, h)}
        else:
            dims = tuple(z3.Ints("left top right bottom"))
            st.pc += [d >= 0 for d in dims]
            self_ = st.new("ExactPadding", dict(zip(("left", "top", "right", "bottom"), dims), fill=" "))
            raises = {}
        eng.methods[(self_.cls, "_get_exact_dimensions_")] = dims_contract(kind, dims)
        st.env.update(self=self_, render_size=rs)
        outs = run_function(eng, ctx.fn(PAD, "Padding.to_exact"), st)

        def ensure(v, s, kind=kind, dims=dims, self_=self_):
            if not isinstance(v, Ref) or v.cls != "ExactPadding":
                return False
            o = s.H(v)
            # to_exact(rs)._get_exact_dimensions_(.) = self._get_exact_dimensions_(rs); same fill
            g = And(*[Eq(o[k], d) for k, d in zip(("left", "top", "right", "bottom"), dims)], o["fill"] == s.H(self_)["fill"])
            if kind == "exact":
                g = And(g, v is self_)
            return g
        obs += exits(eng, outs, ensure=ensure, raises=raises, replay="C05.to_exact")
    return obs


# ---------------------------------------------------------------------------------------------- placement (terminal model)
def pad_unit(fill):
    @unit("C05", f"padding:Padding.pad[fill={fill!r}]")
    def u(ctx, fill=fill):
        eng = ctx.engine(f"C05/Padding.pad[fill={fill!r}]", "C05")
        eng.default_replay = "C05.pad"
        world(ctx, eng)
        st = State()
        l, t, r, b = z3.Ints("left top right bottom")
        w, h = z3.Ints("rs_w rs_h")
        r0, TW, TH, B0 = z3.Ints("r0 TW TH bottom0")
        PW, PH = l + w + r, t + h + b
        st.pc += [l >= 0, t >= 0, r >= 0, b >= 0, w >= 1, h >= 1, TW >= PW, TH >= 1, r0 >= 0, B0 >= r0, B0 - TH + 1 <= r0]
        self_ = st.new("ExactPadding", {"left": l, "top": t, "right": r, "bottom": b, "fill": fill})
        eng.methods[("ExactPadding", "_get_exact_dimensions_")] = dims_contract("exact", (l, t, r, b))
        blk = Block(z3.Int("blk"), w, h)
        render = TS([blk])
        st.env.update(self=self_, render=render, render_size=size_rec(w, h))
        outs = run_function(eng, ctx.fn(PAD, "Padding.pad"), st)

        def line_pred(a, final):
            i = a["line_idx"]
            is_blk = z3.And(i >= t, i < t + h)
            margin = z3.If(is_blk, l + r, PW)
            cells = [a["written"] == margin, a["skipped"] == 0] if fill else [a["skipped"] == margin, a["written"] == 0]
            return z3.And(z3.Not(a["irregular"]), a["line_w"] == PW, *cells,
                          z3.If(is_blk, z3.And(a["blk_col"] == l, a["blk_line"] == i - t, a["blk_id"] == z3.Int("blk")), a["blk_col"] == -1))
        for kind, val, s in outs:
            if kind != "return":
                eng.oblige(f"no-exception:{getattr(val, 'cls', kind)}", s, False, kind="raise")
                continue
            none = z3.And(l == 0, t == 0, r == 0, b == 0)
            if val is render:
                eng.oblige("render-returned-as-is-only-without-padding", s, none, kind="post", replay="C05.pad")
                continue
            eng.oblige("padded-output-is-new-only-with-padding", s, z3.Not(none), kind="post", replay="C05.pad")
            s2 = s.fork()
            s2.ghost["vt"] = vt_new(r0, z3.IntVal(0), B0, TW, TH)
            vt = VT(eng, s2, tag="placement", line_pred=line_pred)
            vt.feed(val).finish()
            g = vt.g
            eng.oblige("box:PH-lines,no-trailing-newline,cursor-after-last-cell", s2,
                       And(to_z3(g["nl"]) == PH - 1, Not(g["last_nl"]), to_z3(g["row"]) == r0 + PH - 1,
                           # just past the last column, or at the right margin when the box reaches it
                           Or(to_z3(g["col"]) == PW, And(PW == TW, to_z3(g["col"]) == TW - 1)),
                           to_z3(g["line_idx"]) == PH - 1, z3.BoolVal(g["parser"] == "ground")), kind="post", replay="C05.pad")
        return eng.obligations
    return u


for _f in (" ", "x", ""):
    pad_unit(_f)


# ---------------------------------------------------------------------------------------------- old API: BaseImage._format_render
def format_render_unit(h_align, v_align):
    @unit("C05", f"common:BaseImage._format_render[{h_align},{v_align}]")
    def u(ctx, h_align=h_align, v_align=v_align):
        eng = ctx.engine(f"C05/_format_render[{h_align},{v_align}]", "C05")
        eng.default_replay = "C05.format_render"
        st = State()
        cols, lines, width, height = z3.Ints("cols lines width height")
        r0, TW, TH, B0 = z3.Ints("r0 TW TH bottom0")
        PW, PH = SP.Max(width, cols), SP.Max(height, lines)
        st.pc += [cols >= 1, lines >= 1, width >= 1, height >= 1, TW >= PW, TH >= 1, r0 >= 0, B0 >= r0, B0 - TH + 1 <= r0]
        ha = {"<": SP.LEFT, ">": SP.RIGHT}.get(h_align, SP.CENTER)      # documented default: center / middle
        va = {"^": SP.LEFT, "_": SP.RIGHT}.get(v_align, SP.CENTER)
        l, t, r, b = SP.spec_exact_dims(width, height, ha, va, cols, lines)
        self_ = st.new("BlockImage", {})
        eng.attrs[("BlockImage", "rendered_size")] = lambda e, s, v: [((cols, lines), s)]
        render = TS([Block(z3.Int("blk"), cols, lines)])
        st.env.update(self=self_, render=render, h_align=h_align, width=width, v_align=v_align, height=height)
        outs = run_function(eng, ctx.fn("image/common.py", "BaseImage._format_render"), st)

        def line_pred(a, final):
            i = a["line_idx"]
            is_blk = z3.And(i >= t, i < t + lines)
            return z3.And(z3.Not(a["irregular"]), a["line_w"] == PW, a["written"] == z3.If(is_blk, l + r, PW), a["skipped"] == 0,
                          z3.If(is_blk, z3.And(a["blk_col"] == l, a["blk_line"] == i - t, a["blk_id"] == z3.Int("blk")), a["blk_col"] == -1))
        for kind, val, s in outs:
            if kind != "return":
                eng.oblige(f"no-exception:{getattr(val, 'cls', kind)}", s, False, kind="raise")
                continue
            none = z3.And(width <= cols, height <= lines)
            if val is render:
                eng.oblige("render-returned-as-is-only-when-padding-has-no-effect", s, none, kind="post")
                continue
            eng.oblige("padded-output-only-when-padding-has-an-effect", s, z3.Not(none), kind="post")
            s2 = s.fork()
            s2.ghost["vt"] = vt_new(r0, z3.IntVal(0), B0, TW, TH)
            vt = VT(eng, s2, tag="placement", line_pred=line_pred)
            vt.feed(val).finish()
            g = vt.g
            eng.oblige("box:max(render,minimum)-lines,no-trailing-newline,cursor-after-last-cell", s2,
                       And(to_z3(g["nl"]) == PH - 1, Not(g["last_nl"]), to_z3(g["row"]) == r0 + PH - 1, to_z3(g["col"]) == PW, z3.BoolVal(g["parser"] == "ground")), kind="post")
        return eng.obligations
    return u


for _h in ("<", ">", "|", None):
    for _v in ("^", "_", "-", None):
        format_render_unit(_h, _v)
