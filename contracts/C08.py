"""C08 - A render iterator yields exactly the frames its operation history dictates."""
from .iterator import *   # registers the units

TRUSTED = ["abstract machine of DESIGN appendix B, written from the RenderIterator documentation and the property",
           "Renderable._render_ is a function R(frame, size, duration, args) of the render data and arguments (API contract), may raise StopIteration or any exception",
           "the induction over operation histories (each operation and each generator step preserves the representation relation) is the standard ADT meta-argument"]
ASSUMPTIONS = ["Padding.get_padded_size / pad obey their C05 contracts (functions of padding and size)"]
NOT_DECIDED = []
