"""Old API: BaseImage.draw (with its nested render()) and BaseImage._display_animated under contract (C06 / C07 / C11).

Same symbolic terminal as the new-API units (contracts/renderable.py): logical rows, clamping cursor motion, the real control
sequence templates lexed by the VT machine; KeyboardInterrupt / an exception injected at every stream write, flush, sleep and
frame request outside the functions' own finally clauses (an interrupted write delivers an arbitrary prefix or everything).
print(...) is modelled as CPython implements it: one write() per argument, separator and `end`, then flush() if asked."""
import z3
from pyvc.runner import unit, run_function
from pyvc.values import *
from pyvc.engine import State, LoopSpec
from pyvc import tstr
from pyvc.tstr import TS, Block, PBlock, VT
from .common import *
from .renderable import Term, ctlseq_world

COMMON = "image/common.py"
REPLAYS = {"C06": "C06.old_draw", "C07": "C07.old_draw_faults", "C11": "C07.old_draw_faults"}


class OldTerm(Term):
    """an interrupted write can leave a string command open only if the data written holds one (a graphics render)"""

    def __init__(self, eng, st, graphics):
        super().__init__(eng, st)
        self.graphics, self._data = graphics, None
        eng.methods[("stream", "write")] = self.write

    def write(self, e, s, recv, a, k):
        self._data = a[0]
        try:
            return super().write(e, s, recv, a, k)
        finally:
            self._data = None

    def interrupted(self, e, s, cursor=True):
        before = s.ghost["vt"]["cmd_open"]
        s2 = super().interrupted(e, s, cursor)
        d = self._data
        holds_command = self.graphics and d is not None and any(isinstance(p, (Block, PBlock)) for p in (d.items if isinstance(d, TS) else []))
        if cursor and not holds_command:
            g = dict(s2.ghost["vt"])
            g["cmd_open"] = before
            s2.ghost["vt"] = g
        return s2


def install_print(eng, T):
    def py_print(e, s, a, k):
        extra = set(k) - {"sep", "end", "flush", "file"}
        if extra or k.get("file") not in (None, T.out):
            raise Unsupported("print() to another stream")
        sep, end = k.get("sep", " "), k.get("end", "\n")
        pieces = []
        for i, x in enumerate(a):
            if i:
                pieces.append(" " if sep is None else sep)
            pieces.append(x)
        pieces.append("\n" if end is None else end)
        states = [s]
        for p in pieces:
            nxt = []
            for st_ in states:
                if not isinstance(p, (str, TS)):
                    p = tstr.as_ts(p)
                nxt += [s2 for _, s2 in e.call_method(T.out, "write", (p,), {}, st_)]
            states = nxt
        if k.get("flush"):
            states = [s2 for st_ in states for _, s2 in e.call_method(T.out, "flush", (), {}, st_)]
        return [(None, st_) for st_ in states]
    eng.genv["print"] = Fn(py_print)


def frame_world(st):
    """a formatted frame: the render (w x h) inside max(width, w) x max(height, h) cells (contract of _format_render, C05)"""
    w, h, l, t, r, b, fw, fh = z3.Ints("w h pad_l pad_t pad_r pad_b fmt_width fmt_height")
    PW, PH = l + w + r, t + h + b
    st.pc += [w >= 1, h >= 1, l >= 0, t >= 0, r >= 0, b >= 0, fw >= 1, fh >= 1, PW == Max(fw, w), PH == Max(fh, h)]
    return w, h, l, t, r, b, fw, fh, PW, PH


# =====================================================================================================
# BaseImage._display_animated
# =====================================================================================================
def display_animated_unit(graphics):
    style = "graphics" if graphics else "text"

    @unit(("C06", "C07", "C11"), f"common:BaseImage._display_animated[{style}]")
    def u(ctx):
        eng = ctx.engine(f"C06/old._display_animated[{style}]", "C06")
        eng.default_replay = REPLAYS
        st = State()
        ctlseq_world(ctx, eng)
        w, h, l, t, r, b, fw, fh, PW, PH = frame_world(st)
        T = OldTerm(eng, st, graphics)
        install_print(eng, T)
        st.pc += [PW <= T.TW, PH <= T.TH]          # validated by draw() / _renderer(animated=True) before anything is written (unit below)
        seek0 = z3.Int("seek_position0")
        self_ = st.new("BlockImage", {"_seek_position": seek0, "_frame_duration": z3.Real("frame_duration")})
        eng.attrs[("BlockImage", "rendered_height")] = lambda e, s, v: [(h, s)]
        img = st.new("pilimg", {})
        fmt = ("<", fw, "^", fh)
        style_args = st.new("dict", {"@items": {}})
        imgit = st.new("ImageIterator", {"closed": False})
        gen = st.new("animator", {})
        st.ghost.update(close_image=[], made_iterator=False)

        def new_it(e, s, c, a, k):
            ok = len(a) == 4 and a[0] is self_ and a[2] == ""
            e.oblige("C11:iterator-built-for-this-image", s, ok, prop="C11", kind="pre")
            e.raise_(ExcVal("ValueError"), e.fork(s))        # repeat / cached are validated there
            s = e.fork(s)
            s.ghost["made_iterator"] = True
            return [(imgit, s)]
        eng.methods["new:ImageIterator"] = new_it
        eng.genv["ImageIterator"] = ClassV("ImageIterator")

        def m_animate(e, s, recv, a, k):
            e.oblige("C11:frames-rendered-from-the-image-handed-in,with-the-caller's-alpha,format-and-style", s,
                     len(a) == 4 and a[0] is img and a[2] is fmt and a[3] is style_args, prop="C11", kind="pre")
            return [(gen, s)]
        eng.methods[("ImageIterator", "_animate")] = m_animate

        def g_next(e, s, recv, a, k):
            # contract of ImageIterator._animate (its own units): a formatted frame and the image's current frame moved there;
            # or exhaustion; or an error / Ctrl-C while rendering
            s = e.fork(s)
            e.oblige("C11:no-frame-requested-after-the-iterator-is-closed", s, Not(s.H(imgit)["closed"]), prop="C11", kind="pre")
            e.raise_(ExcVal("StopIteration"), e.fork(s))
            for exc in ("KeyboardInterrupt", "Boom"):
                e.raise_(ExcVal(exc), T.interrupted(e, s, cursor=False), fault=True)
            s.H(self_)["_seek_position"] = e.sym_int("seek_now")
            return [(TS([PBlock(e.sym_int("blk"), w, h, l, t, r, b)]), s)]
        eng.methods[("animator", "__next__")] = g_next
        eng.isinstance_alias = {}

        def it_close(e, s, recv, a, k):
            s = e.fork(s)
            s.H(imgit)["closed"] = True
            return [(None, s)]
        eng.methods[("ImageIterator", "close")] = it_close

        def close_image(e, s, recv, a, k):
            s = e.fork(s)
            s.ghost["close_image"] = s.ghost["close_image"] + [a[0]]
            return [(None, s)]
        eng.methods[("BlockImage", "_close_image")] = close_image
        eng.methods[("BlockImage", "_clear_frame")] = lambda e, s, recv, a, k: [(False, s)]       # assumed: clearing does not move the cursor

        def handle_interrupted(e, s, recv, a, k):
            # graphics styles write ST twice (their own units check the text); the terminal stops swallowing output
            s = e.fork(s)
            g = dict(s.ghost["vt"])
            if graphics:
                g["cmd_open"] = False
            s.ghost["vt"] = g
            s.ghost["handled"] = s.ghost.get("handled", 0) + 1
            return [(None, s)]
        eng.methods[("BlockImage", "_handle_interrupted_draw")] = handle_interrupted

        def sleep(e, s, a, k):
            for exc in ("KeyboardInterrupt", "Boom"):
                e.raise_(ExcVal(exc), T.interrupted(e, s, cursor=False), fault=True)
            return [(None, s)]
        eng.genv["time"] = Namespace("time", {"time": Fn(lambda e, s, a, k: [(e.sym_real("now"), s)]), "sleep": Fn(sleep)})

        def on_pblock(vt, blk):
            g = vt.g
            ph = blk.t + blk.h + blk.b
            ar, ac = to_z3(g["row"] + blk.t), to_z3(If(ph == 1, g["col"], 0) + blk.l)
            anchor = vt.st.ghost.get("anchor")
            if anchor is None:
                vt.st.ghost["anchor"] = (ar, ac)
            else:
                vt.oblige("C06:frame-drawn-over-the-same-cells", z3.And(ar == anchor[0], ac == anchor[1]), prop="C06", kind="geometry")
        st.ghost["vt"]["on_pblock"] = on_pblock
        st.ghost["anchor"] = None

        def inv(s):
            g = s.ghost["vt"]
            anchor = s.ghost["anchor"]
            return z3.And(to_z3(g["row"]) == T.r0 + PH - 1, z3.BoolVal(anchor is not None), *([anchor[0] == T.r0 + t, anchor[1] == l] if anchor is not None else []),
                          to_z3(g["bottom"]) >= T.r0 + PH - 1, to_z3(g["bottom"]) - T.TH + 1 <= T.r0,
                          z3.BoolVal(g["parser"] == "ground"), z3.BoolVal(g["interrupted"] is False), z3.BoolVal(g["cmd_open"] is False),
                          Not(s.H(imgit)["closed"]), z3.BoolVal(s.ghost["close_image"] == []))

        def havoc(e, s, tag):
            s.env["start"] = z3.Real(f"start!{tag}")
            s.env["frame"] = Opaque("frame")
            s.H(self_)["_seek_position"] = z3.Int(f"seek!{tag}")
            g = dict(s.ghost["vt"])
            for nm in ("row", "col", "bottom", "arow", "acol", "nl", "line_idx", "line_w", "written", "skipped", "blk_col", "blk_line", "blk_id", "ech_to"):
                g[nm] = z3.Int(f"vt_{nm}!{tag}")
            for nm in ("sgr_default", "irregular", "last_nl"):
                g[nm] = z3.Bool(f"vt_{nm}!{tag}")
            g["log"] = []
            s.ghost["vt"] = g
            s.ghost["anchor"] = (T.r0 + t, to_z3(l))
        eng.invariants = {1: LoopSpec(inv, havoc, iterator=True)}
        st.env.update(self=self_, img=img, alpha=Opaque("alpha"), fmt=fmt, repeat=z3.Int("repeat"), cached=Opaque("cached"), style_args=style_args)
        outs = run_function(eng, ctx.fn(COMMON, "BaseImage._display_animated"), st)
        for kind, val, s in outs:
            g = s.ghost["vt"]
            if not s.ghost["made_iterator"]:
                eng.oblige("rejected-arguments:nothing-written,nothing-changed", s, And(kind == "raise", s.ghost["writes_n"] == 0, Eq(s.H(self_)["_seek_position"], seek0)), kind="raise")
                continue
            eng.oblige(f"C11:current-frame-restored@{kind}", s, Eq(s.H(self_)["_seek_position"], seek0), prop="C11", kind="exit", replay="C11.animated_draw_frame")
            eng.oblige(f"C07:current-frame-restored@{kind}", s, Eq(s.H(self_)["_seek_position"], seek0), prop="C07", kind="exit")
            eng.oblige(f"C11:iterator-closed,image-handed-in-closed-exactly-once@{kind}", s,
                       And(s.H(imgit)["closed"], len(s.ghost["close_image"]) == 1 and s.ghost["close_image"][0] is img), prop="C11", kind="exit")
            eng.oblige(f"C07:no-command-left-open@{kind}", s, g["cmd_open"] is False or (is_sym(g["cmd_open"]) and Not(g["cmd_open"])), prop="C07", kind="exit")
            if kind == "raise":
                eng.oblige(f"C07:animation-ends-silently-on-Ctrl-C({val.cls})", s, val.cls != "KeyboardInterrupt", prop="C07", kind="raise")
            if kind in ("normal", "return") and g["interrupted"] is False and not s.ghost.get("faulted"):
                eng.oblige("C06:cursor-on-last-line-of-padded-box-after-animation", s,
                           And(to_z3(g["row"]) == T.r0 + PH - 1, z3.BoolVal(g["parser"] == "ground")), prop="C06", kind="post")
        return eng.obligations
    return u


for _g in (False, True):
    display_animated_unit(_g)


# =====================================================================================================
# BaseImage.draw (with its nested render())
# =====================================================================================================
def old_draw_unit(case, graphics):
    """case: 'still' (a still image), 'animation' (an animated image drawn with animate=True), 'still-of-animated' (an animated image
    drawn with animate=False: the current frame only - a still draw in every respect)"""
    style = "graphics" if graphics else "text"
    label = f"draw[{case},{style}]"
    animated_case = case == "animation"
    is_animated = case != "still"

    @unit(("C06", "C07"), f"common:BaseImage.{label}")
    def u(ctx):
        eng = ctx.engine(f"C06/old.{label}", "C06")
        eng.default_replay = REPLAYS
        st = State()
        ctlseq_world(ctx, eng)
        eng.genv.update(UTIL_ERRS)
        w, h, l, t, r, b, fw, fh, PW, PH = frame_world(st)
        T = OldTerm(eng, st, graphics)
        install_print(eng, T)
        # C06 speaks about output that fits the terminal width: the padding width is ALWAYS validated (documented: check_size
        # does not affect it) - an obligation at the point where rendering starts - and check_size=False may waive only the
        # check of the render itself, which is then assumed to fit (m_renderer below)
        isatty = z3.Bool("isatty")
        st.ghost["isatty"] = isatty
        eng.genv["sys"] = Namespace("sys", {"stdout": T.out})
        animate, scroll, check_size = z3.Bools("animate scroll check_size")
        if animated_case:
            st.pc.append(animate)
        elif is_animated:
            st.pc.append(z3.Not(animate))
        animation = animated_case
        size0 = z3.Int("size_setting0")
        seek0 = z3.Int("seek_position0")
        self_ = st.new("BlockImage", {"_is_animated": is_animated, "_size": size0, "_seek_position": seek0})
        img = st.new("pilimg", {})
        pad_width, pad_height = z3.Ints("pad_width pad_height")
        fmt = ("<", fw, "^", fh)

        def check_formatting(e, s, recv, a, k):
            # contract of _check_formatting (C19/C05 units): validated alignment, absolute padding size
            for exc in ("ValueError", "TypeError"):
                s1 = e.fork(s)
                s1.ghost["formatting_rejected"] = True
                e.raise_(ExcVal(exc), s1)
            s = e.fork(s)
            s.pc += [fw == z3.If(pad_width > 0, pad_width, Max(T.TW + pad_width, 1)), fh == z3.If(pad_height > 0, pad_height, Max(T.TH + pad_height, 1))]
            return [(fmt, s)]
        eng.methods[("BlockImage", "_check_formatting")] = check_formatting
        eng.genv["get_terminal_size"] = Fn(lambda e, s, a, k: [((T.TW, T.TH), s)])
        eng.genv["_ALPHA_BG_FORMAT"] = st.new("re_alpha", {})
        eng.methods[("re_alpha", "fullmatch")] = lambda e, s, recv, a, k: [(True, s)]
        alpha = z3.Real("alpha")
        st.pc += [alpha >= 0, alpha < 1]
        st.ghost.update(rendered=0, handled=0, animated_calls=0)

        def m_renderer(e, s, recv, a, k):
            """contract of _renderer (C04 unit): validates the size per (check_size, scroll, animated) BEFORE calling the renderer,
            raising InvalidSizeError with nothing written; the size setting is restored on every exit"""
            e.oblige("C06:nothing-written-before-size-validation", s, s.ghost["writes_n"] == 0, prop="C06", kind="pre")
            e.oblige("C06:animations-always-validated,stills-per-check_size/scroll", s,
                     And(Eq(k.get("animated"), animation), Eq(k.get("check_size"), check_size), Eq(k.get("scroll"), scroll)), prop="C06", kind="pre")
            e.oblige("C06:padding-width-validated-whatever-check_size-says(wider-than-the-terminal-never-reaches-the-renderer)", s,
                     fw <= T.TW, prop="C06", kind="pre", replay="C06.old_validation")
            if animation:
                e.oblige("C06:padding-height-validated-for-animations", s, fh <= T.TH, prop="C06", kind="pre", replay="C06.old_validation")
            s = e.fork(s)
            s.pc.append(PW <= T.TW)
            s1 = e.fork(s)
            s1.ghost["validation_failed"] = True
            e.raise_(ExcVal("InvalidSizeError"), s1)
            s = e.fork(s)
            if animation:
                s.pc += [w <= T.TW, h <= T.TH]
            else:
                s.pc.append(z3.Implies(check_size, z3.And(w <= T.TW, z3.Or(scroll, h <= T.TH))))
            return e.call(a[0], (img,), {}, s)
        eng.methods[("BlockImage", "_renderer")] = m_renderer
        eng.exc_parents["InvalidSizeError"] = "TermImageError"
        style_kw = st.new("dict", {"@items": {}})
        eng.methods[("BlockImage", "_check_style_args")] = lambda e, s, recv, a, k: [(style_kw, s)] + (e.raise_(ExcVal("StyleError"), e.fork(s)) or [])
        eng.exc_parents["StyleError"] = "TermImageError"

        def m_render_image(e, s, recv, a, k):
            for exc in ("KeyboardInterrupt", "Boom"):
                e.raise_(ExcVal(exc), T.interrupted(e, s, cursor=False), fault=True)
            s = e.fork(s)
            s.ghost["rendered"] = s.ghost["rendered"] + 1
            return [(TS([Block(e.sym_int("blk"), w, h)]), s)]
        eng.methods[("BlockImage", "_render_image")] = m_render_image

        def m_format_render(e, s, recv, a, k):
            blk = a[0].items[0]
            ok = len(a) == 5 and all(x is y for x, y in zip(a[1:], fmt))
            e.oblige("C06:still-image-formatted-with-the-validated-padding", s, ok, prop="C06", kind="pre")
            return [(TS([PBlock(blk.id, w, h, l, t, r, b)]), s)]
        eng.methods[("BlockImage", "_format_render")] = m_format_render

        def m_display_animated(e, s, recv, a, k):
            """contract of _display_animated (unit above): never lets KeyboardInterrupt out, restores the current frame, closes what it
            opened, leaves no command open; an uninterrupted run ends on the last line of the padded box drawn from column 0"""
            g = s.ghost["vt"]
            e.oblige("C06:animation-starts-at-column-0", s, to_z3(g["col"]) == 0, prop="C06", kind="pre")
            e.oblige("C06:animation-gets-the-validated-format", s, a[0] is img and a[2] is fmt, prop="C06", kind="pre")
            outs = []
            s.ghost["animated_calls"] = s.ghost["animated_calls"] + 1
            s1 = e.fork(s)
            g1 = dict(g)
            g1["bottom"] = Max(g["bottom"], g["row"] + PH - 1)
            g1["row"] = g["row"] + PH - 1
            g1["col"] = e.sym_int("col_after_anim")
            s1.pc += [g1["col"] >= 0, g1["col"] <= T.TW]
            s1.ghost["vt"] = g1
            s1.ghost["writes_n"] = s1.ghost["writes_n"] + 1
            outs.append((None, s1))
            for exc in (None, "Boom", "ValueError"):
                s2 = T.interrupted(e, s)
                gg = dict(s2.ghost["vt"])
                gg["cmd_open"] = False
                s2.ghost["vt"] = gg
                s2.ghost["writes_n"] = s2.ghost["writes_n"] + 1
                s2.ghost["faulted"] = True
                if exc is None:
                    outs.append((None, s2))
                else:
                    e.raise_(ExcVal(exc), s2)
            return outs
        eng.methods[("BlockImage", "_display_animated")] = m_display_animated

        def handle_interrupted(e, s, recv, a, k):
            s = e.fork(s)
            g = dict(s.ghost["vt"])
            if graphics:
                g["cmd_open"] = False
            s.ghost["vt"] = g
            s.ghost["handled"] = s.ghost["handled"] + 1
            return [(None, s)]
        eng.methods[("BlockImage", "_handle_interrupted_draw")] = handle_interrupted
        eng.genv["locals"] = Fn(lambda e, s, a, k: [(Namespace("locals", dict(s.frames[-1])), s)])
        st.env.update(self=self_, h_align=None, pad_width=pad_width, v_align=None, pad_height=pad_height, alpha=alpha, animate=animate, repeat=z3.Int("repeat"),
                      cached=Opaque("cached"), scroll=scroll, check_size=check_size, style=st.new("dict", {"@items": {}}))
        outs = run_function(eng, ctx.fn(COMMON, "BaseImage.draw"), st)
        for kind, val, s in outs:
            g = s.ghost["vt"]
            rejected = s.ghost.get("validation_failed") is True or (kind == "raise" and val.cls in ("ValueError", "TypeError") and s.ghost["animated_calls"] == 0 and s.ghost["writes_n"] == 0)
            if rejected:
                eng.oblige("C06:rejected-before-anything-is-written", s, s.ghost["writes_n"] == 0, prop="C06", kind="raise")
                if kind == "raise" and val.cls == "ValueError" and not s.ghost.get("formatting_rejected") and not s.ghost.get("validation_failed"):
                    # the only ValueError of draw()'s own: a padding width wider than the terminal - exactly those
                    eng.oblige("C06:own-ValueError-only-for-a-padding-wider-than-the-terminal(or-taller,for-animations)", s, Or(fw > T.TW, And(animation, fh > T.TH)), prop="C06", kind="raise",
                               replay="C06.old_validation")
                continue
            tty_ = to_z3(isatty)
            eng.oblige(f"C07:cursor-visible@{kind}", s, z3.Implies(tty_, to_z3(g["vis"])), prop="C07", kind="exit")
            eng.oblige(f"C07:text-attributes-reset@{kind}", s, g["sgr_default"], prop="C07", kind="exit")
            eng.oblige(f"C07:no-command-left-open@{kind}", s, g["cmd_open"] is False or (is_sym(g["cmd_open"]) and Not(g["cmd_open"])), prop="C07", kind="exit")
            if kind == "raise":
                if animation:
                    eng.oblige(f"C07:animation-ends-silently-on-Ctrl-C({val.cls})", s, val.cls != "KeyboardInterrupt", prop="C07", kind="raise")
            elif not animation:
                eng.oblige("C07:still-image-interrupt-not-swallowed", s, g["interrupted"] is False and not s.ghost.get("faulted"), prop="C07", kind="post")
            if kind in ("normal", "return") and g["interrupted"] is False and not s.ghost.get("faulted"):
                eng.oblige("C06:cursor-at-start-of-line-below-padded-region", s,
                           And(to_z3(g["row"]) == T.r0 + PH, to_z3(g["col"]) == 0, z3.Implies(tty_, to_z3(g["vis"])), g["sgr_default"], z3.BoolVal(g["parser"] == "ground")), prop="C06", kind="post")
                if not animation:
                    eng.oblige("C06:picture-inside-its-padding-where-drawn", s, And(to_z3(g["arow"]) == T.r0 + t, to_z3(g["acol"]) == l), prop="C06", kind="post")
        return eng.obligations
    return u


for _a in ("still", "animation", "still-of-animated"):
    for _g in (False, True):
        old_draw_unit(_a, _g)


# =====================================================================================================
# ITerm2Image._display_animated (WezTerm: the cells are erased once before the first frame)
# =====================================================================================================
def iterm2_display_unit(term, mix):
    label = f"ITerm2Image._display_animated[{term},mix={mix}]"

    @unit(("C06", "C20"), f"iterm2:{label}")
    def u(ctx):
        eng = ctx.engine(f"C06/old.{label}", "C06")
        eng.default_replay = "C06.old_draw_wezterm"
        st = State()
        cs = ctlseq_world(ctx, eng)
        ns = ctx.ns("term_image.image.iterm2")
        for k_ in ("ERASE_CHARS", "CURSOR_FORWARD", "CURSOR_UP"):
            if k_ in ns.d:
                eng.genv[k_] = ns.d[k_]
        w, h, l, t, r, b, fw, fh, PW, PH = frame_world(st)
        T = OldTerm(eng, st, True)
        install_print(eng, T)
        st.pc += [PW <= T.TW, PH <= T.TH]
        # the image's own effective method is ANIM here (the most delicate case: frames of an animation cannot use it) while the
        # caller of draw() asked for a method of its own for this call
        self_ = st.new("ITerm2Image", {"_TERM": term, "_render_method": "anim"})
        for k_ in ("LINES", "WHOLE", "ANIM"):
            if k_ in ns.d:
                eng.genv[k_] = ns.d[k_]
        eng.attrs[("ITerm2Image", "rendered_height")] = lambda e, s, v: [(h, s)]
        eng.attrs[("ITerm2Image", "rendered_width")] = lambda e, s, v: [(w, s)]
        eng.attrs[("ITerm2Image", "rendered_size")] = lambda e, s, v: [((w, h), s)]
        fmt = ("<", fw, "^", fh)
        img = st.new("pilimg", {})

        def m_format_render(e, s, recv, a, k):
            """contract of _format_render (C05 unit): pads a render of THIS image at its rendered size (h lines of w columns) into
            max(width, w) x max(height, h) cells"""
            s2 = s.fork()
            s2.ghost["vt"] = tstr.vt_new(z3.IntVal(0), z3.IntVal(0), z3.IntVal(1000000), T.TW + 1, z3.IntVal(1000001))   # measured on a screen one column wider: `just past the last column` exists
            vt = VT(e, s2, tag="pre-erase-render")
            vt.feed(a[0])
            g = vt.g
            e.oblige("C06:text-handed-to-_format_render-is-a-render-of-this-image(h-lines-of-w-columns)", s2,
                     And(to_z3(g["nl"]) == h - 1, to_z3(g["col"]) == w, to_z3(g["row"]) == h - 1, z3.BoolVal(g["parser"] == "ground")), kind="pre")
            ok = len(a) == 5 and all(x is y for x, y in zip(a[1:], fmt))
            e.oblige("C06:pre-erase-formatted-like-the-frames", s, ok, kind="pre")
            return [(TS([PBlock(z3.IntVal(-7), w, h, l, t, r, b)]), s)]
        eng.methods[("ITerm2Image", "_format_render")] = m_format_render
        called = []

        def super_display(e, s, a, k):
            g = s.ghost["vt"]
            called.append(1)
            e.oblige("C06:animation-starts-where-the-pre-erase-started(column-0-of-the-first-line)", s,
                     And(to_z3(g["row"]) == T.r0, to_z3(g["col"]) == 0, z3.BoolVal(g["parser"] == "ground")), kind="pre")
            e.oblige("frames-are-drawn-with-mix-on(the-cells-were-erased-once)", s, And(k.get("mix") is True, a[0] is img, a[2] is fmt), kind="pre")
            passed = {k_: v_ for k_, v_ in k.items() if k_ != "mix"}
            e.oblige("C20:style-arguments-of-this-call(method-override-included)-reach-the-frames-unchanged", s,
                     passed == {"method": "lines", "compress": 7}, prop="C20", kind="pre", replay="C20.method_override")
            return [(None, s)]
        eng.genv["super"] = Fn(lambda e, s, a, k: [(Rec("super", {}), s)])
        eng.attrs[("super", "_display_animated")] = lambda e, s, v: [(Fn(super_display), s)]
        st.env.update(self=self_, img=img, alpha=Opaque("alpha"), fmt=fmt, args=(z3.Int("repeat"), Opaque("cached")), mix=mix, kwargs=st.new("dict", {"@items": {"method": "lines", "compress": 7}}))
        outs = run_function(eng, ctx.fn("image/iterm2.py", "ITerm2Image._display_animated"), st)
        for kind, val, s in outs:
            if kind == "raise":
                if s.ghost.get("faulted"):
                    continue        # an interrupted pre-erase: handled by draw()'s clean-up (unit above)
                eng.oblige(f"no-exception:{val.cls}", s, False, kind="raise")
                continue
            eng.oblige("the-base-animation-runs", s, z3.BoolVal(bool(called)), kind="post")
            if not (term == "wezterm" and not mix):
                eng.oblige("nothing-written-before-the-frames-on-other-terminals", s, s.ghost["writes_n"] == 0, kind="post")
        return eng.obligations
    return u


for _t in ("wezterm", "iterm2"):
    for _m in (False, True):
        iterm2_display_unit(_t, _m)


# =====================================================================================================
# _handle_interrupted_draw of the graphics styles: what the draw units above assume of it
# =====================================================================================================
def handler_unit(rel, cls):
    @unit("C07", f"{rel.split('/')[-1][:-3]}:{cls}._handle_interrupted_draw")
    def u(ctx):
        """Called when a draw is cut short inside a graphics command: whatever the terminal was in the middle of (an APC / OSC string,
        a chunked transmission), after the handler it is back on the ground state - on the stream the draw was writing to, which is
        `sys.stdout` AS IT IS NOW (a stream bound when the module was imported is another object once stdout has been re-bound)."""
        obs = []
        for inside in ("apc", "osc", "ground"):
            eng = ctx.engine(f"C07/{cls}._handle_interrupted_draw[terminal-inside={inside}]", "C07")
            eng.default_replay = "C07.old_draw_faults"
            st = State()
            cs = ctlseq_world(ctx, eng)
            eng.genv["ctlseqs"] = cs
            T = OldTerm(eng, st, True)
            install_print(eng, T)
            eng.genv["sys"] = Namespace("sys", {"stdout": T.out})
            stale = st.new("stale_stream", {})
            eng.methods[("stale_stream", "write")] = lambda e, s, recv, a, k: [(None, s)]       # goes elsewhere: no effect on this terminal
            eng.methods[("stale_stream", "flush")] = lambda e, s, recv, a, k: [(None, s)]
            for nm in ("_stdout_write", "_stdout", "stdout_write", "_write"):
                eng.genv.setdefault(nm, Fn(lambda e, s, a, k: [(None, s)]))
            g = dict(st.ghost["vt"])
            if inside != "ground":
                g["parser"], g["cmd_open"] = ("str", inside, [], []), True
            st.ghost["vt"] = g
            st.ghost["isatty"] = z3.Bool("isatty")      # a stdout that is not a tty may still end up on one (tee, a wrapper stream)
            T.faults = ()                       # (a fault inside the handler itself is the draw's clean-up: excluded by the property)
            outs = run_function(eng, ctx.fn(rel, f"{cls}._handle_interrupted_draw"), st)
            for kind, val, s in outs:
                if kind == "raise":
                    eng.oblige(f"no-exception:{val.cls}", s, False, kind="raise")
                    continue
                g2 = s.ghost["vt"]
                eng.oblige("terminal-back-on-the-ground-state(no-command-left-open)-on-the-current-stdout", s,
                           And(g2["parser"] == "ground", g2["cmd_open"] is False or (is_sym(g2["cmd_open"]) and Not(g2["cmd_open"]))), kind="post")
            obs += eng.obligations
        return obs
    return u


handler_unit("image/kitty.py", "KittyImage")
handler_unit("image/iterm2.py", "ITerm2Image")


# =====================================================================================================
# KittyImage._display_animated / _clear_frame: every frame of an animation replaces the previous one
# =====================================================================================================
@unit("C06", "kitty:KittyImage._display_animated+_clear_frame")
def u_kitty_display(ctx):
    """On kitty, a frame drawn over the previous one stacks on it unless the previous one is removed: either the frame is sent with
    blend=False (newer versions), or the per-frame clear deletes the z-index the frames are drawn at.  Whatever z-index / blend the
    caller asked for, the animation uses the reserved z-index that the clear deletes."""
    obs = []
    RESERVED = -(1 << 31)
    for caller_kwargs in ({}, {"z_index": 5}, {"blend": True}, {"z_index": -3, "mix": True}):
        eng = ctx.engine(f"C06/kitty._display_animated[caller={sorted(caller_kwargs)}]", "C06")
        eng.default_replay = "C06.kitty_animation"
        st = State()
        v = tuple(z3.Int(f"kitty_version_{i}") for i in range(3))
        st.pc += [x >= 0 for x in v]
        self_ = st.new("KittyImage", {"_KITTY_VERSION": v})
        kw = st.new("dict", {"@items": dict(caller_kwargs)})
        args = (Opaque("img"), Opaque("alpha"), Opaque("fmt"), Opaque("repeat"), Opaque("cached"))
        seen = {}

        def super_display(e, s, a, k):
            s = e.fork(s)
            s.ghost["seen"] = {"args": a, "kw": dict(k)}
            return [(None, s)]
        eng.genv["super"] = Fn(lambda e, s, a, k: [(Rec("super", {}), s)])
        eng.attrs[("super", "_display_animated")] = lambda e, s, vv: [(Fn(super_display), s)]
        st.env.update(self=self_, args=args, kwargs=kw)
        newer = z3.Or(v[0] > 0, z3.And(v[0] == 0, z3.Or(v[1] > 25, z3.And(v[1] == 25, v[2] > 0))))
        for kind, val, s in run_function(eng, ctx.fn("image/kitty.py", "KittyImage._display_animated"), st):
            if kind == "raise":
                eng.oblige(f"no-exception:{val.cls}", s, False, kind="raise")
                continue
            seen = s.ghost.get("seen", {})
            k = seen.get("kw", {})
            eng.oblige("frames-drawn-at-the-reserved-z-index-whatever-the-caller-asked", s, And(seen.get("args") == args, Eq(k.get("z_index"), RESERVED)), kind="post")
            eng.oblige("newer-kitty:frames-replace-what-is-under-them(blend=False);older:left-to-the-per-frame-clear", s,
                       z3.If(newer, z3.BoolVal(k.get("blend") is False), z3.BoolVal(k.get("blend", caller_kwargs.get("blend")) == caller_kwargs.get("blend"))), kind="post")
            eng.oblige("other-arguments-passed-on-unchanged", s, {kk: vv for kk, vv in k.items() if kk not in ("z_index", "blend")} == {kk: vv for kk, vv in caller_kwargs.items() if kk not in ("z_index", "blend")}, kind="post")
        obs += eng.obligations
    # the per-frame clear: deletes exactly the reserved z-index on the versions where blend=False is not used, nothing otherwise
    eng = ctx.engine("C06/kitty._clear_frame", "C06")
    eng.default_replay = "C06.kitty_animation"
    st = State()
    v = tuple(z3.Int(f"kitty_version_{i}") for i in range(3))
    st.pc += [x >= 0 for x in v]
    known = z3.Bool("version_known")
    cleared = []

    def m_clear(e, s, recv, a, k):
        s = e.fork(s)
        s.ghost["cleared"] = s.ghost.get("cleared", []) + [(tuple(a), dict(k))]
        return [(None, s)]
    for has_version in (True, False):
        cls = st.new("KittyImageCls", {"_KITTY_VERSION": v if has_version else ()})
        eng.methods[("KittyImageCls", "clear")] = m_clear
        s0 = st.fork()
        s0.frames = [dict(cls=cls)]
        newer = z3.Or(v[0] > 0, z3.And(v[0] == 0, z3.Or(v[1] > 25, z3.And(v[1] == 25, v[2] > 0))))
        for kind, val, s in run_function(eng, ctx.fn("image/kitty.py", "KittyImage._clear_frame"), s0):
            cleared = s.ghost.get("cleared", [])
            if kind == "raise":
                eng.oblige(f"no-exception:{val.cls}", s, False, kind="raise")
                continue
            did = val is True
            eng.oblige(f"clears-exactly-the-reserved-z-index-on-older-versions[version-known={has_version}]", s,
                       And(Implies(did, And(bool(cleared) and cleared[-1] == ((), {"z_index": RESERVED}), has_version, Not(newer))),
                           Implies(Not(did), Or(not has_version, newer))), kind="post")
    return obs + eng.obligations
