"""C12 - Terminal queries report what the terminal said (value / decision part; the timing part is not decidable here)."""
import ast
import z3
from pyvc.runner import unit, run_function
from pyvc.values import *
from pyvc.engine import State
from .common import *
from .C15 import u_get_cell_size  # noqa: F401  (cell-size derivation, shared with C15)
from .C13 import u_query_terminal  # noqa: F401  (what was queued before a query is discarded before the request is written)

CTL, UTILS, KITTY, ITERM, IMGINIT = "_ctlseqs.py", "utils.py", "image/kitty.py", "image/iterm2.py", "image/__init__.py"
TRUSTED = ["the clock: monotonic() never goes back, and a select() with a finite wait that returns nothing ready has waited for all of it",
           "the reply regexes (RGB_SPEC_re, XTVERSION_re, KITTY_RESPONSE_re) extract the documented fields from a well-formed reply (assumed; group extraction is modelled, not the regex engine)",
           "a terminal answers each supported query with one well-formed reply; query_terminal returns None when queries are disabled"]
ASSUMPTIONS = []
NOT_DECIDED = ["wall-clock behaviour: whether replies arriving after arbitrary delays land before the time-out (select / monotonic clock)",
               "'no reply bytes remain unread afterwards' is decided up to the property's own premise: proved on the real loops: the timed read never consumes past the first point where its predicate is satisfied, the drain consumes everything that has arrived, the drain is called after every enabled query; that the rest of a reply HAS arrived once its beginning was read is the unit-write premise"]


def pow16(l):
    return z3.If(l == 1, 16, z3.If(l == 2, 256, z3.If(l == 3, 4096, 65536)))


@unit("C12", "_ctlseqs:x_parse_color")
def u_x_parse_color(ctx):
    eng = ctx.engine("C12/x_parse_color", "C12")
    eng.default_replay = "C12.x_parse_color"
    st = State()
    comps = []
    for c in "rgb":
        l, v = z3.Int(f"len_{c}"), z3.Int(f"val_{c}")
        st.pc += [l >= 1, l <= 4, v >= 0, v < pow16(l)]
        comps.append((l, v))
    body = Rec("xbody", {"comps": tuple(Rec("hexstr", {"len": l, "val": v}) for l, v in comps)})
    spec = Rec("xspec", {})
    eng.attrs[("xspec", "partition")] = lambda e, s, v: [(Fn(lambda e2, s2, a, k: [(("rgb", ":", body), s2)] if a == (":",) else _unsupported("partition separator")), s)]

    def split(e, s, v):
        def f(e2, s2, a, k):
            if a != ("/",):
                raise Unsupported("split separator")
            s2 = e2.fork(s2)
            return [(s2.new_list(list(v.f["comps"])), s2)]
        return [(Fn(f), s)]
    eng.attrs[("xbody", "split")] = split
    st.env["spec"] = spec
    outs = run_function(eng, ctx.fn(CTL, "x_parse_color"), st)

    def scaled(l, v):
        # every component scaled into 0-255 according to ITS OWN number of hex digits (XParseColor)
        return (v * 255) / (pow16(l) - 1)
    for kind, val, s in outs:
        if kind != "return":
            eng.oblige(f"no-exception:{getattr(val, 'cls', kind)}", s, False, kind="raise")
            continue
        goal = And(*[And(to_z3(x) == scaled(l, v), to_z3(x) >= 0, to_z3(x) <= 255) for x, (l, v) in zip(val, comps)])
        eng.oblige("each-component-scaled-into-0..255-by-its-own-digit-count", s, goal, kind="post")
    return eng.obligations


def _unsupported(msg):
    raise Unsupported(msg)


# ------------------------------------------------------------------------------------------------ support decision tables
def version_value(kind, tag="ver"):
    """the version slot of get_terminal_name_version(): None, '', unparsable, or dotted numbers"""
    a, b, c = z3.Ints(f"{tag}_major {tag}_minor {tag}_patch")
    if kind is None:
        return None, None
    if kind == "empty":
        parts = [Rec("junkstr", {})]          # "".split(".") == [""] ; int("") raises ValueError
    elif kind == "junk":
        parts = [Rec("digits", {"v": a}), Rec("junkstr", {})]
    elif kind == "2":
        parts = [Rec("digits", {"v": a}), Rec("digits", {"v": b})]
    else:
        parts = [Rec("digits", {"v": a}), Rec("digits", {"v": b}), Rec("digits", {"v": c})]
    v = Rec("verstr", {"kind": kind, "parts": tuple(parts)}, valid=(kind != "empty"))
    nums = {"2": (a, b), "3": (a, b, c)}.get(kind)
    return v, nums


def ge(nums, ref):
    """documented version comparison (dotted numbers, lexicographic)"""
    if nums is None:
        return False
    res = len(nums) >= len(ref)
    for x, y in reversed(list(zip(nums, ref))):
        res = Or(x > y, And(x == y, res))
    return res


def support_world(ctx, eng, st, name, vkind):
    ver, nums = version_value(vkind)
    st.pc += [n >= 0 for n in (nums or ())]
    eng.attrs[("verstr", "split")] = lambda e, s, v: [(Fn(lambda e2, s2, a, k: [(v.f["parts"], s2)]), s)]
    st.ghost["name_version_calls"] = 0

    def gtnv(e, s, a, k):
        s = e.fork(s)
        s.ghost["name_version_calls"] += 1
        return [((name, ver), s)]
    eng.genv["get_terminal_name_version"] = Fn(gtnv)
    return ver, nums


@unit("C12", "_ctlseqs:reply-patterns")
def u_reply_patterns(ctx):
    """The patterns the query functions cut their answers out of, against the reply formats of the protocols they speak (xterm
    ctlseqs OSC 10/11 and XTVERSION / XTWINOPS reports, kitty graphics responses): each compiled pattern denotes exactly the replies of
    that format - in particular a reply is recognised whichever of the two string terminators (ST, BEL) ends it - and its groups
    are the fields the callers read.  Languages are compared as regular languages (no bound on the length)."""
    from pyvc import rx as _rx
    from pyvc.engine import Obligation
    ESC, BEL = "\x1b", "\x07"
    R, cat, U, rng, plus, opt = z3.Re, z3.Concat, z3.Union, z3.Range, z3.Plus, z3.Option
    digits = plus(rng("0", "9"))
    hexslash = plus(U(rng("0", "9"), rng("a", "f"), rng("A", "F"), R("/")))
    st = U(R(ESC + "\\"), R(BEL))
    word = plus(U(rng("a", "z"), rng("A", "Z"), rng("0", "9"), R("_")))
    anychar = z3.AllChar(z3.ReSort(z3.StringSort()))
    not_paren_esc = plus(z3.Diff(anychar, U(R(")"), R(ESC))))
    no_newline = plus(z3.Diff(anychar, R("\n")))
    spec = {
        "RGB_SPEC_re": (cat(R(ESC + "]"), digits, R(";"), cat(R("rgb:"), hexslash), st), {1: digits, 2: cat(R("rgb:"), hexslash)}),
        "XTVERSION_re": (cat(R(ESC + "P>|"), word, U(R("("), R(" ")), not_paren_esc, opt(R(")")), st), {1: word, 2: not_paren_esc}),
        "TEXT_AREA_SIZE_PX_re": (cat(R(ESC + "[4;"), digits, R(";"), digits, R("t")), {1: digits, 2: digits}),
        "CELL_SIZE_PX_re": (cat(R(ESC + "[6;"), digits, R(";"), digits, R("t")), {1: digits, 2: digits}),
        "KITTY_RESPONSE_re": (cat(R(ESC + "_Gi="), digits, opt(cat(R(",I="), digits)), R(";"), no_newline, R(ESC + "\\")), {1: digits, 2: digits, 3: no_newline}),
    }
    obs = []
    s_ = z3.String("reply")
    for name, (want, want_groups) in spec.items():
        kind, pat, flags, isbytes = ctx.const("term_image._ctlseqs", name)
        groups = {}
        got = _rx.to_z3re(pat, flags, groups=groups)
        obs.append(Obligation(f"C12/reply-patterns/{name}:every-reply-of-the-format-is-recognised(either-terminator)", [z3.InRe(s_, want)], z3.InRe(s_, got), "C12",
                              {"kind": "post", "replay": "C12.colors"}))
        obs.append(Obligation(f"C12/reply-patterns/{name}:nothing-else-is-taken-for-a-reply", [z3.InRe(s_, got)], z3.InRe(s_, want), "C12",
                              {"kind": "post", "replay": "C12.colors"}))
        for gi, gw in want_groups.items():
            gg = groups.get(gi)
            obs.append(Obligation(f"C12/reply-patterns/{name}:group{gi}-is-the-field-the-callers-read", [],
                                  z3.BoolVal(gg is not None) if gg is None else z3.And(z3.Implies(z3.InRe(s_, gg), z3.InRe(s_, gw)), z3.Implies(z3.InRe(s_, gw), z3.InRe(s_, gg))),
                                  "C12", {"kind": "post", "replay": "C12.colors"}))
    return obs


@unit("C12", "kitty:KittyImage.is_supported")
def u_kitty_supported(ctx):
    obs = []
    cs = ctx.ns("term_image._ctlseqs")
    for name in ("kitty", "konsole", "iterm2", "wezterm", "xterm", None):
        for vkind in (None, "empty", "junk", "2", "3"):
            for resp in ("none", "empty", "ok", "not-ok", "no-match"):
                eng = ctx.engine(f"C12/KittyImage.is_supported[{name},version={vkind},reply={resp}]", "C12")
                eng.default_replay = "C12.support"
                st = State()
                ver, nums = support_world(ctx, eng, st, name, vkind)
                st.ghost["queried"] = 0

                def query_terminal(e, s, a, k, resp=resp):
                    s = e.fork(s)
                    s.ghost["queried"] += 1
                    if resp == "none":
                        return [(None, s)]
                    return [(s.new("response", {"kind": resp}), s)]
                eng.genv["query_terminal"] = Fn(query_terminal)
                eng.methods[("response", "__bool__")] = lambda e, s, recv, a, k: [(s.H(recv)["kind"] != "empty", s)]
                eng.methods[("response", "decode")] = lambda e, s, recv, a, k: [(recv, s)]
                eng.methods[("response", "endswith")] = lambda e, s, recv, a, k: [(e.sym_bool("endswith"), s)]

                def rmatch(e, s, recv, a, k):
                    kind = s.H(a[0])["kind"]
                    if kind == "ok":
                        return [(Rec("kmatch", {"_g": {"id": "31", "message": "OK"}}), s)]
                    if kind == "not-ok":
                        return [(Rec("kmatch", {"_g": {"id": "31", "message": "ENOENT"}}), s)]
                    return [(None, s)]
                eng.methods[("re_kitty", "match")] = rmatch
                eng.methods[("kmatch_", "x")] = None
                d = dict(cs.d)
                d["KITTY_RESPONSE_re"] = st.new("re_kitty")
                eng.genv["ctlseqs"] = Namespace("ctlseqs", d)
                orig_getitem = eng.getitem

                def getitem(v, i, s):
                    if isinstance(v, Rec) and v.name == "kmatch":
                        return [(v.f["_g"][i], s)]
                    return orig_getitem(v, i, s)
                eng.getitem = getitem
                cls = st.new("KittyCls", {"_supported": None})
                st.env["cls"] = cls
                outs = run_function(eng, ctx.fn(KITTY, "KittyImage.is_supported"), st)
                # documented rules: needs a positive reply to the graphics query; kitty >= 0.20.0 or konsole; never on iterm2 (not queried)
                replied = resp == "ok"
                expected = And(name != "iterm2", replied, Or(And(name == "kitty", ge(nums, (0, 20, 0))), name == "konsole"))
                for kind, val, s in outs:
                    if kind != "return":
                        eng.oblige(f"no-exception:{getattr(val, 'cls', kind)}", s, False, kind="raise")
                        continue
                    h = s.H(cls)
                    eng.oblige("supported-iff-documented-rule;decision-cached", s, And(Eq(val, expected), Eq(h["_supported"], expected),
                                                                                      (s.ghost["queried"] == 0) if name == "iterm2" else True), kind="post")
                obs += eng.obligations
    # a cached decision is returned without querying again
    eng = ctx.engine("C12/KittyImage.is_supported[cached]", "C12")
    st = State()
    cached = z3.Bool("cached_decision")
    cls = st.new("KittyCls", {"_supported": cached})
    st.env["cls"] = cls
    for kind, val, s in run_function(eng, ctx.fn(KITTY, "KittyImage.is_supported"), st):
        eng.oblige("cached-decision-returned-without-a-query", s, And(kind == "return", Eq(val, cached)), kind="post")
    return obs + eng.obligations


@unit(("C12", "C01"), "iterm2:ITerm2Image.is_supported")
def u_iterm2_supported(ctx):
    obs = []
    for name in ("kitty", "konsole", "iterm2", "wezterm", "xterm", None):
        for vkind in (None, "empty", "junk", "2", "3"):
            eng = ctx.engine(f"C12/ITerm2Image.is_supported[{name},version={vkind}]", "C12")
            eng.default_replay = "C12.support"
            st = State()
            ver, nums = support_world(ctx, eng, st, name, vkind)
            cls = st.new("ITerm2Cls", {"_supported": None})
            st.env["cls"] = cls
            # the class asked may be a SUBCLASS of the class that defines the method (`__class__`): the decision and the terminal
            # identity that goes with it (`_TERM`, which selects the quirk mode of the renders, C01) belong to the class asked
            base = st.new("ITerm2Cls", {"_supported": None})
            eng.genv["__class__"] = base
            before_base = dict(st.H(base))
            outs = run_function(eng, ctx.fn(ITERM, "ITerm2Image.is_supported"), st)
            expected = Or(name in ("iterm2", "wezterm"), And(name == "konsole", ge(nums, (22, 4, 0))))
            for kind, val, s in outs:
                if kind != "return":
                    eng.oblige(f"no-exception:{getattr(val, 'cls', kind)}", s, False, kind="raise")
                    continue
                eng.oblige("supported-iff-documented-rule;decision-cached", s, And(Eq(val, expected), Eq(s.H(cls)["_supported"], expected)), kind="post")
                h = s.H(cls)
                for pr_ in ("C12", "C01"):
                    eng.oblige(f"{pr_}:decision-and-terminal-identity-recorded-together-on-the-class-asked(not-on-the-defining-class)", s,
                               And(s.H(base) == before_base, Implies(expected, And("_TERM" in h, h.get("_TERM") == name))), prop=pr_, kind="post",
                               replay="C12.support" if pr_ == "C12" else "C01.forced_support_quirks")
            obs += eng.obligations
    return obs


@unit("C12", "image:auto_image_class")
def u_auto_image_class(ctx):
    eng = ctx.engine("C12/auto_image_class", "C12")
    st = State()
    sup = {n: z3.Bool(f"{n}_supported") for n in ("kitty", "iterm2", "block")}
    tree, _ = ctx.tree(IMGINIT)
    order = None
    for n in ast.walk(tree):
        if isinstance(n, ast.Assign) and getattr(n.targets[0], "id", None) == "_styles":
            order = [getattr(e_, "id", None) for e_ in n.value.elts]
    names = {"KittyImage": "kitty", "ITerm2Image": "iterm2", "BlockImage": "block"}
    if order is None or any(o not in names for o in order):
        raise Unsupported("_styles changed shape")
    objs = {}
    for o in order:
        objs[names[o]] = st.new("stylecls", {"style": names[o]})
    eng.methods[("stylecls", "is_supported")] = lambda e, s, recv, a, k: [(sup[s.H(recv)["style"]], s)]
    eng.genv["_styles"] = tuple(objs[names[o]] for o in order)
    outs = run_function(eng, ctx.fn(IMGINIT, "auto_image_class"), st)
    for kind, val, s in outs:
        if kind != "return" or not isinstance(val, Ref):
            eng.oblige("returns-a-style-class", s, False, kind="post")
            continue
        got = s.H(val)["style"]
        # the most capable supported style: kitty, then iterm2, then block (block also when nothing is supported)
        want_k, want_i = sup["kitty"], z3.And(z3.Not(sup["kitty"]), sup["iterm2"])
        goal = z3.If(want_k, z3.BoolVal(got == "kitty"), z3.If(want_i, z3.BoolVal(got == "iterm2"), z3.BoolVal(got == "block")))
        eng.oblige("most-capable-supported-style(kitty,iterm2,block)", s, goal, kind="post")
    return eng.obligations


# ------------------------------------------------------------------------------------------------ colours / name + version
def _fn_body(ctx, rel, name):
    """the undecorated function (the @cached wrapper is verified in C15)"""
    return ctx.fn(rel, name)


def stop_predicate_obligation(eng, s, more, csi_b):
    """the predicate handed to query_terminal decides where reading stops.  The replies are answered in order and DA1 is asked last,
    so everything is consumed (by the drain that follows) only if reading goes on until the DA1 reply has begun: for EVERY text read
    so far, `more` may say stop only if that text ends with CSI"""
    read = z3.String("read_so_far")
    for v2, s2 in eng.call(more, (read,), {}, s.fork()):
        stop = Not(to_z3(v2)) if is_sym(v2) else (not v2)
        eng.oblige("reading-stops-only-once-the-DA1-reply-has-begun(what-was-read-ends-with-CSI)", s2,
                   Implies(stop, z3.SuffixOf(z3.StringVal(csi_b.decode("latin1")), read)), kind="post", replay="C12.unread")
        eng.oblige("reading-stops-as-soon-as-the-DA1-reply-begins", s2, Implies(z3.SuffixOf(z3.StringVal(csi_b.decode("latin1")), read), stop), kind="post")


@unit("C12", "utils:get_fg_bg_colors")
def u_fg_bg(ctx):
    obs = []
    cs = ctx.ns("term_image._ctlseqs")
    XP = z3.Function("x_parse_color_of", z3.IntSort(), z3.IntSort())       # contract of x_parse_color (unit above): a function of the reply's colour spec
    for replies in ((), ("10",), ("11",), ("10", "11"), ("11", "10"), ("12", "10")):
        for resp_kind in (("none", "empty", "reply") if not replies else ("reply",)):
            for hex_ in (False, True):
                eng = ctx.engine(f"C12/get_fg_bg_colors[replies={','.join(replies) or '-'},{resp_kind},hex={hex_}]", "C12")
                eng.default_replay = "C12.colors"
                st = State()
                q = z3.Bool("queries_enabled")
                g = st.new("module", {"_queries_enabled": q, "_tty_lock": Opaque("lock")})
                eng.globals_obj = g
                st.ghost.update(reads=0, queries=0)

                def query_terminal(e, s, a, k, resp_kind=resp_kind):
                    out = []
                    for en, s2 in e.split(s, s.H(g)["_queries_enabled"]):
                        s2 = e.fork(s2)
                        if not en:
                            out.append((None, s2))      # contract of query_terminal: None and no terminal access when queries are disabled
                            continue
                        s2.ghost["queries"] += 1
                        s2.ghost["more"] = a[1] if len(a) > 1 else k.get("more")
                        out.append((None if resp_kind == "none" else s2.new("response", {"kind": resp_kind}), s2))
                    return out

                def read_tty(e, s, a, k):
                    s = e.fork(s)
                    s.ghost["reads"] += 1
                    return [(Opaque("rest of DA1"), s)]
                eng.genv.update(query_terminal=Fn(query_terminal), read_tty=Fn(read_tty))
                eng.methods[("response", "__bool__")] = lambda e, s, recv, a, k: [(s.H(recv)["kind"] != "empty", s)]
                eng.methods[("response", "decode")] = lambda e, s, recv, a, k: [(recv, s)]
                eng.methods[("response", "endswith")] = lambda e, s, recv, a, k: [(e.sym_bool("endswith"), s)]
                specs = {c: Rec("colorspec", {"id": i}) for i, c in enumerate(replies)}
                eng.methods[("re_rgb", "findall")] = lambda e, s, recv, a, k: [(tuple((c, specs[c]) for c in replies), s)]
                d = dict(cs.d)
                d["RGB_SPEC_re"] = st.new("re_rgb")
                d["x_parse_color"] = Fn(lambda e, s, a, k: [((XP(a[0].f["id"] * 3), XP(a[0].f["id"] * 3 + 1), XP(a[0].f["id"] * 3 + 2)), s)])
                eng.genv["ctlseqs"] = Namespace("ctlseqs", d)
                eng.genv["HEX_RGB_FMT"] = ctx.const("term_image.utils", "HEX_RGB_FMT") if "HEX_RGB_FMT" in ctx.ns("term_image.utils").d else "#%02x%02x%02x"
                st.env["hex"] = hex_
                outs = run_function(eng, _fn_body(ctx, UTILS, "get_fg_bg_colors"), st)
                for kind, val, s in outs:
                    if kind != "return":
                        eng.oblige(f"no-exception:{getattr(val, 'cls', kind)}", s, False, kind="raise")
                        continue
                    fg, bg = val
                    def want(code):
                        if resp_kind != "reply" or code not in replies:
                            return None
                        i = specs[code].f["id"]
                        return (XP(i * 3), XP(i * 3 + 1), XP(i * 3 + 2))
                    def same(got, exp):
                        if exp is None:
                            return got is None
                        if hex_:
                            return got is not None and not isinstance(got, tuple)      # formatted with HEX_RGB_FMT from the parsed triple
                        return isinstance(got, tuple) and Eq(got, exp)
                    enabled = s.H(g)["_queries_enabled"]
                    # with queries disabled: the documented default (None, None) and the terminal is not read
                    eng.oblige("reports-exactly-the-replied-colours(10=fg,11=bg);defaults-when-disabled-or-no-reply", s,
                               z3.If(enabled, z3.BoolVal(bool(same(fg, want("10")) is not False and same(bg, want("11")) is not False)) if not any(is_sym(x) for x in (same(fg, want("10")), same(bg, want("11")))) else And(same(fg, want("10")), same(bg, want("11"))),
                                     z3.BoolVal(fg is None and bg is None)), kind="post")
                    eng.oblige("rest-of-the-reply-drained-iff-queries-enabled", s, s.ghost["reads"] == z3.If(enabled, 1, 0), kind="post")
                    if s.ghost.get("more") is not None and replies == ("10", "11") and not hex_:
                        stop_predicate_obligation(eng, s, s.ghost["more"], cs.d["CSI_b"])
                obs += eng.obligations
    return obs


@unit("C12", "utils:get_terminal_name_version")
def u_name_version(ctx):
    """the undecorated body (the @cached wrapper is C15's): reports exactly the replied name (lower-cased) and version; falls back to
    TERM_PROGRAM / TERM_PROGRAM_VERSION when there is no XTVERSION reply or queries are disabled; asks for XTVERSION + DA1, reads up to
    the start of the DA1 reply, then drains the rest of it"""
    from pyvc.engine import PY_CASE
    obs = []
    cs = ctx.ns("term_image._ctlseqs")
    for resp_kind in ("none", "empty", "xtversion", "other"):
        for env_name in (False, True):
            eng = ctx.engine(f"C12/get_terminal_name_version[{resp_kind},TERM_PROGRAM={'set' if env_name else 'unset'}]", "C12")
            eng.default_replay = "C12.name_version"
            st = State()
            q = z3.Bool("queries_enabled")
            if resp_kind != "none":
                st.pc.append(q)        # a response object exists only when the query was sent
            g = st.new("module", {"_queries_enabled": q, "_tty_lock": Opaque("lock")})
            eng.globals_obj = g
            st.ghost.update(reads=0, queries=[])
            NAME, VER, ENAME, EVER = z3.String("replied_name"), z3.String("replied_version"), z3.String("TERM_PROGRAM"), z3.String("TERM_PROGRAM_VERSION")
            st.pc += [z3.Length(NAME) >= 1, z3.Length(VER) >= 1, z3.Length(ENAME) >= 1]

            def query_terminal(e, s, a, k, resp_kind=resp_kind):
                out = []
                for en, s2 in e.split(s, s.H(g)["_queries_enabled"]):
                    s2 = e.fork(s2)
                    if not en:
                        out.append((None, s2))
                        continue
                    s2.ghost["queries"] = s2.ghost["queries"] + [tuple(a) + tuple(k.items())]
                    out.append((None if resp_kind == "none" else s2.new("response", {"kind": resp_kind}), s2))
                return out

            def read_tty(e, s, a, k):
                s = e.fork(s)
                s.ghost["reads"] += 1
                e.oblige("drain:read_tty()-without-arguments(all-available-input,no-blocking)", s, not a and not k, kind="pre")
                return [(Opaque("rest of DA1"), s)]
            eng.genv.update(query_terminal=Fn(query_terminal), read_tty=Fn(read_tty))
            eng.methods[("response", "__bool__")] = lambda e, s, recv, a, k: [(s.H(recv)["kind"] != "empty", s)]
            eng.methods[("response", "decode")] = lambda e, s, recv, a, k: [(recv, s)]
            match = Rec("match", {"_groups": (NAME, VER)})
            eng.attrs[("match", "groups")] = lambda e, s, v: [(Fn(lambda e2, s2, a, k: [(v.f["_groups"], s2)]), s)]
            d = dict(cs.d)
            d["XTVERSION_re"] = st.new("re_xtversion")
            eng.methods[("re_xtversion", "match")] = lambda e, s, recv, a, k: [((match if isinstance(a[0], Ref) and s.H(a[0]).get("kind") == "xtversion" else None), s)]
            eng.genv["ctlseqs"] = Namespace("ctlseqs", d)
            environ = st.new("environ", {})
            eng.methods[("environ", "get")] = lambda e, s, recv, a, k: [({"TERM_PROGRAM": ENAME if env_name else None, "TERM_PROGRAM_VERSION": EVER if env_name else None}.get(a[0], None), s)]
            eng.genv["os"] = Namespace("os", {"environ": environ})
            outs = run_function(eng, _fn_body(ctx, UTILS, "get_terminal_name_version"), st)
            for kind, val, s in outs:
                if kind != "return":
                    eng.oblige(f"no-exception:{getattr(val, 'cls', kind)}", s, False, kind="raise")
                    continue
                enabled = s.H(g)["_queries_enabled"]
                if resp_kind == "xtversion":
                    exp = (PY_CASE["lower"](NAME), VER)
                elif env_name:
                    exp = (PY_CASE["lower"](ENAME), EVER)
                else:
                    exp = (None, None)
                ok = isinstance(val, tuple) and len(val) == 2 and all((x is None) == (y is None) for x, y in zip(val, exp)) and And(*[x == y for x, y in zip(val, exp) if y is not None])
                eng.oblige("reports-exactly-the-replied-name(lower-cased)-and-version;environment-fallback-otherwise", s, ok, kind="post")
                eng.oblige("rest-of-the-DA1-reply-drained-iff-queries-enabled", s, s.ghost["reads"] == z3.If(enabled, 1, 0), kind="post")
                qs = s.ghost["queries"]
                if qs:
                    req, more = qs[0][0], qs[0][1]
                    sent_ok = len(qs) == 1 and req == cs.d["XTVERSION_b"] + cs.d["DA1_b"] and len(qs[0]) == 2
                    eng.oblige("asks-for-XTVERSION-then-DA1-in-one-request,default-timeout", s, sent_ok, kind="post")
                    # the stop predicate: reading goes on exactly until what was read ends with CSI (the start of the DA1 reply)
                    probe = s.new("probe", {})
                    B = z3.Bool("read_so_far_ends_with_CSI")
                    asked = []

                    def endswith(e, s_, recv, a, k):
                        asked.append(a[0])
                        return [(B, s_)]
                    eng.methods[("probe", "endswith")] = endswith
                    for v2, s2 in eng.call(more, (probe,), {}, s.fork()):
                        eng.oblige("reading-stops-exactly-at-the-start-of-the-DA1-reply(CSI)", s2,
                                   And(asked == [cs.d["CSI_b"]], to_z3(v2) == z3.Not(B)) if asked == [cs.d["CSI_b"]] else False, kind="post")
            obs += eng.obligations
    return obs


# ------------------------------------------------------------------------------------------------ the read loops on a reply stream
# Stream model: the terminal's replies form one byte stream; `pos` bytes of it have been consumed, `avail` have arrived (monotone).
# The caller's predicate is a function of what was read so far, i.e. of the number of bytes read from a given stream: MOREF(k).
# KSTAR is the least k >= base with not MOREF(k) (axioms instantiated where used).  No faults here (C13 covers them).
MOREF = z3.Function("more_after_k_bytes", z3.IntSort(), z3.BoolSort())


def read_stream_unit(mode):
    @unit("C12", f"utils:read_tty/stream[{mode}]")
    def u(ctx, mode=mode):
        from pyvc.engine import LoopSpec
        from . import tty
        eng = ctx.engine(f"C12/read_tty.stream[{mode}]", "C12")
        eng.default_replay = "C12.read_loops"
        st = State()
        tty.install(eng, faults=())
        tty.tty_init(st)
        g = st.new("module", {"_tty_fd": z3.Int("tty_fd")})
        eng.globals_obj = g
        base, avail0, KSTAR = z3.Ints("consumed_before arrived_before first_stop")
        st.pc += [base >= 0, avail0 >= base, KSTAR >= base, z3.Not(MOREF(KSTAR))]
        st.ghost.update(pos=base, avail=avail0, reads=[])
        timeout = None if mode == "drain" else z3.Real("timeout")
        if mode != "drain":
            st.pc.append(timeout != 0)

        def more(e, s, a, k):
            ba = a[0]
            return [(MOREF(base + s.H(ba)["len"]), s)]

        def select(e, s, a, k):
            # bytes may arrive at any time (avail grows); with a zero timeout select reports exactly whether bytes are queued;
            # with a positive / infinite one it may also have waited for them
            s = e.fork(s)
            prev = s.ghost["avail"]
            s.ghost["avail"] = e.sym_int("arrived")
            s.pc.append(s.ghost["avail"] >= prev)
            s.pc.append(s.ghost["avail"] >= st_prev(s))
            ready = s.ghost["avail"] > s.ghost["pos"]
            # the clock: select comes back empty-handed only after the whole wait it was given has passed
            wait = a[3] if len(a) > 3 else None
            now2 = e.sym_real("now")
            s.pc.append(now2 >= s.ghost["now"] + (z3.If(ready, z3.RealVal(0), to_z3(as_arith(wait))) if wait is not None else z3.RealVal(0)))
            s.ghost["now"] = now2
            s.ghost["idle_last"] = z3.Not(ready)
            return [((Rec("ready", {"r": 0}, valid=ready), (), ()), s)]

        def monotonic(e, s, a, k):
            s = e.fork(s)
            t = e.sym_real("t")
            s.pc.append(t >= s.ghost["now"])
            s.ghost["now"] = t
            return [(t, s)]

        def st_prev(s):
            return s.ghost.get("avail_floor", avail0)

        def os_read(e, s, a, k):
            n = to_z3(a[1])
            s = e.fork(s)
            pos, av = s.ghost["pos"], s.ghost["avail"]
            e.oblige("read-only-after-select-said-ready(never-blocks-on-an-empty-queue)", s, av > pos, kind="pre")
            got = Min(n, av - pos)
            s.ghost["pos"] = pos + got
            s.ghost["avail_floor"] = av
            s.ghost["reads"] = s.ghost["reads"] + [got]
            return [(Rec("bytes", {"len": got}), s)]
        eng.genv.update(select=Fn(select), monotonic=Fn(monotonic), os=Namespace("os", {"read": Fn(os_read)}))
        st.ghost.update(now=z3.Real("now0"), idle_last=z3.BoolVal(False))

        def new_ba(e, s, a, k):
            s = e.fork(s)
            return [(s.new("bytearray", {"len": z3.IntVal(0)}), s)]
        eng.genv["bytearray"] = Fn(new_ba)
        eng.genv["bytes"] = Fn(lambda e, s, a, k: [(Rec("bytes", {"len": s.H(a[0])["len"]}), s)])

        def extend(e, s, recv, a, k):
            s = e.fork(s)
            s.H(recv)["len"] = s.H(recv)["len"] + a[0].f["len"]
            return [(None, s)]
        eng.methods[("bytearray", "extend")] = extend
        eng.methods[("bytearray", "__bool__")] = lambda e, s, recv, a, k: [(s.H(recv)["len"] > 0, s)]
        eng.methods[("bytearray", "__len__")] = lambda e, s, recv, a, k: [(s.H(recv)["len"], s)]

        def inv(s):
            n = s.H(s.lookup("input"))["len"]
            pos = s.ghost["pos"]
            parts = [pos == base + n, n >= 0, s.ghost["avail"] >= pos, s.ghost.get("avail_floor", avail0) <= s.ghost["avail"]]
            if mode != "drain":
                parts.append(pos <= KSTAR)
                # the time-out: the elapsed time the loop decides by is never ahead of the clock, and a turn in which select came
                # back empty-handed (it waited for all that was left of the time-out) is the last one - "falls back within the
                # timeout instead of blocking" on a terminal that stays silent
                dur, start = to_z3(as_arith(s.lookup("duration"))), to_z3(as_arith(s.lookup("start")))
                parts.append(dur <= s.ghost["now"] - start)
                parts.append(z3.Implies(z3.And(s.ghost["idle_last"], timeout >= 0), dur >= timeout))
            return z3.And(*[to_z3(p) for p in parts])

        def havoc(e, s, tag):
            s.H(s.lookup("input"))["len"] = z3.Int(f"len!{tag}")
            s.ghost["pos"] = z3.Int(f"pos!{tag}")
            s.ghost["avail"] = z3.Int(f"avail!{tag}")
            s.ghost["avail_floor"] = z3.Int(f"avail_floor!{tag}")
            if "duration" in s.env:
                s.env["duration"] = z3.Real(f"duration!{tag}")
            s.ghost["now"] = z3.Real(f"now!{tag}")
            s.ghost["idle_last"] = z3.Bool(f"idle_last!{tag}")
        for lid in (1, 2):
            eng.invariants[lid] = LoopSpec(inv, havoc)
        st.env.update(more=Fn(more), timeout=timeout, min=0, echo=False)
        outs = run_function(eng, ctx.fn(UTILS, "read_tty"), st)
        for kind, val, s in outs:
            if kind != "return":
                eng.oblige(f"no-exception:{getattr(val, 'cls', kind)}", s, False, kind="raise")
                continue
            pos = s.ghost["pos"]
            # the reader runs after the request was written: what is queued when it starts (a fast terminal's reply) or arrives while it
            # runs IS the reply - changing the terminal mode must not throw queued input away (tcsetattr(TCSAFLUSH) / tcflush do)
            eng.oblige("queued-input-is-never-discarded-by-the-reader(mode-changes-with-TCSANOW/TCSADRAIN)", s, s.ghost.get("input_discards", 0) == 0,
                       kind="post", replay="C12.queued_reply")
            eng.oblige("returns-exactly-the-bytes-it-consumed,in-order", s, And(isinstance(val, Rec) and val.name == "bytes", val.f["len"] == pos - base) if isinstance(val, Rec) else False, kind="post")
            if mode == "drain":
                eng.oblige("drain:everything-that-had-arrived-is-consumed,without-waiting", s, pos == s.ghost["avail"], kind="post")
            else:
                # instance of the definition of KSTAR at pos: below it the predicate still asks for more
                s2 = s.fork()
                s2.pc.append(z3.Implies(z3.And(pos >= base, pos < KSTAR), MOREF(pos)))
                eng.oblige("timed:never-reads-past-the-first-point-where-the-predicate-is-satisfied", s2, pos <= KSTAR, kind="post")
                dur = s.lookup("duration")
                eng.oblige("timed:stops-because-the-predicate-is-satisfied-or-the-time-is-up", s2,
                           z3.Or(pos == KSTAR, z3.And(timeout >= 0, to_z3(dur) >= timeout)), kind="post")
        return eng.obligations
    return u


for _m in ("drain", "timed"):
    read_stream_unit(_m)
