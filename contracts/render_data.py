"""BaseImage._get_render_data under contract: the pixel pipeline as a spec term over uninterpreted PIL operations (C02),
and the open/close typestate of the images it touches (C11)."""
import ast
import z3
from pyvc.runner import unit, run_function
from pyvc.values import *
from pyvc.engine import State
from .common import *

COMMON = "image/common.py"
OPAQUE_MODES = {"1", "L", "RGB", "HSV", "CMYK"}


def T(*x):
    return tuple(x)


def pil_world(eng, st):
    """PIL images as heap objects carrying a ghost value term; operations build terms (what they compute is assumed)."""
    st.ghost["images"] = []

    def mk(e, s, val, mode, size, origin):
        s = e.fork(s)
        im = s.new("PIL.Image", {"val": val, "mode": mode, "size": size, "open": True, "origin": origin})
        s.ghost["images"] = s.ghost["images"] + [im]
        return im, s

    def convert(e, s, recv, a, k):
        h = s.H(recv)
        if h["mode"] not in ("RGB", "RGBA"):
            e.raise_(ExcVal("ValueError"), e.fork(s), fault=True)       # possible for some exotic modes (e.g. "La")
        return [mk(e, s, T("convert", h["val"], a[0]), a[0], h["size"], "derived")]

    def resize(e, s, recv, a, k):
        h = s.H(recv)
        e.raise_(ExcVal("ValueError"), e.fork(s), fault=True)
        return [mk(e, s, T("resize", h["val"], a[0], a[1] if len(a) > 1 else None), h["mode"], a[0], "derived")]

    def getdata(e, s, recv, a, k):
        h = s.H(recv)
        return [(Rec("pixeldata", {"val": T("getdata", h["val"], a[0] if a else None)}), s)]

    def new(e, s, a, k):
        return [mk(e, s, T("new", a[0], a[1], a[2] if len(a) > 2 else None), a[0], a[1], "derived")]

    def alpha_composite(e, s, recv, a, k):
        s = e.fork(s)
        h = s.H(recv)
        h["val"] = T("over", h["val"], s.H(a[0])["val"])
        return [(None, s)]

    def putalpha(e, s, recv, a, k):
        s = e.fork(s)
        h = s.H(recv)
        h["val"] = T("putalpha", h["val"], a[0].f["val"] if isinstance(a[0], Rec) else s.H(a[0])["val"])
        return [(None, s)]

    def getchannel(e, s, recv, a, k):
        return [(Rec("channel", {"val": T("channel", s.H(recv)["val"], a[0])}), s)]

    def close(e, s, recv, a, k):
        s = e.fork(s)
        s.H(recv)["open"] = False
        return [(None, s)]

    def seek(e, s, recv, a, k):
        s = e.fork(s)
        s.H(recv)["val"] = T("frame", s.H(recv)["val"], a[0])
        s.H(recv)["seeked"] = a[0]
        return [(None, s)]
    BANDS = {"1": ("1",), "L": ("L",), "LA": ("L", "A"), "La": ("L", "a"), "P": ("P",), "PA": ("P", "A"), "RGB": ("R", "G", "B"), "RGBA": ("R", "G", "B", "A"),
             "RGBa": ("R", "G", "B", "a"), "RGBX": ("R", "G", "B", "X"), "CMYK": ("C", "M", "Y", "K"), "HSV": ("H", "S", "V"), "YCbCr": ("Y", "Cb", "Cr"),
             "I": ("I",), "F": ("F",), "LAB": ("L", "A", "B")}

    def getbands(e, s, recv, a, k):
        m_ = s.H(recv)["mode"]
        if not isinstance(m_, str) or m_ not in BANDS:
            raise Unsupported(f"getbands() of mode {m_!r}")
        return [(BANDS[m_], s)]          # (a paletted image has no alpha BAND: its transparency lives in the palette / info)
    for n_, f_ in (("convert", convert), ("resize", resize), ("getdata", getdata), ("alpha_composite", alpha_composite), ("putalpha", putalpha),
                   ("getchannel", getchannel), ("close", close), ("seek", seek), ("getbands", getbands)):
        eng.methods[("PIL.Image", n_)] = f_
    eng.genv["Image"] = Namespace("Image", {"new": Fn(new), "Resampling": Namespace("Resampling", {"BOX": "BOX"})})
    # img.info: the transparency entry of a paletted image is absent, a palette index (0 is a valid index) or a table of alpha values
    info = st.new("PIL.info", {})

    def info_get(e, s, recv, a, k):
        if a[0] != "transparency":
            raise Unsupported(f"img.info[{a[0]!r}]")
        dflt = a[1] if len(a) > 1 else None
        idx = e.sym_int("transparent_palette_index")
        s2 = e.fork(s, idx >= 0)
        return [(dflt, s), (idx, s2), (Rec("bytes", {"what": "tRNS table"}), s)]
    eng.methods[("PIL.info", "get")] = info_get

    def info_write(name):
        def f(e, s, recv, a, k):
            # img.info is part of the image: writing to it alters the image the caller handed in (what a later conversion of a
            # paletted image makes of its transparent entry depends on it)
            s = e.fork(s)
            s.ghost["info_writes"] = s.ghost.get("info_writes", []) + [(name,) + tuple(x for x in a if isinstance(x, str))]
            return [(Opaque("info." + name), s)]
        return f
    for n_ in ("pop", "__setitem__", "__delitem__", "clear", "update", "setdefault", "popitem"):
        eng.methods[("PIL.info", n_)] = info_write(n_)
    # `x in <pixel data>`: depends on the pixels - may hold or not
    eng.methods[("rec:pixeldata", "__contains__")] = lambda e, s, recv, a, k: [(e.sym_bool("value_occurs_in_pixel_data"), s)]
    eng.attrs[("PIL.Image", "info")] = lambda e, s, v: [(info, s)]
    eng.closed_classes.add("PIL.Image")
    eng.closed_only["PIL.Image"] = {"filename", "fp", "format"}
    # list(pixeldata) keeps the data term; [255] * n is an all-opaque alpha list
    eng.genv["list"] = Fn(lambda e, s, a, k: [(a[0], s)] if isinstance(a[0], Rec) else __import__("pyvc.engine", fromlist=["BUILTINS"]).BUILTINS["list"](e, s, a, k))
    eng.list_repeat_hook = lambda e, s, items, n: [(Rec("pixeldata", {"val": T("const", items[0], n)}), s)]
    return mk


def render_data_unit(src_mode, alpha_kind, pil_source=False):
    tag = f"src={src_mode},alpha={alpha_kind}" + (",caller's-PIL-image" if pil_source else "")

    @unit(("C02", "C11", "C03"), f"common:BaseImage._get_render_data[{tag}]")
    def u(ctx, src_mode=src_mode, alpha_kind=alpha_kind):
        eng = ctx.engine(f"C02/_get_render_data[{tag}]", "C02")
        eng.default_replay = {"C02": "C02.render", "C11": "C11.fds"}
        st = State()
        mk = pil_world(eng, st)
        eng.genv.update(UTIL_ERRS)
        eng.genv["RenderError"] = ClassV("RenderError")
        eng.genv["mul"] = Fn(lambda e, s, a, k: e.binop(ast.Mult(), a[0], a[1], s))
        tw, th, sw, sh = z3.Ints("target_w target_h src_w src_h")
        st.pc += [tw >= 1, th >= 1, sw >= 1, sh >= 1]
        bg_known = z3.Bool("terminal_bg_known")
        TERMBG = "TERMINAL_BG_HEX"

        def fgbg(e, s, a, k):
            if k.get("hex") is not True:
                raise Unsupported("get_fg_bg_colors without hex=True")
            return [((None, (TERMBG if side else None)), s2) for side, s2 in e.split(s, bg_known)]
        eng.genv["get_fg_bg_colors"] = Fn(fgbg)
        animated = z3.Bool("is_animated")
        seekpos = z3.Int("seek_position")
        SRC = ("source",)
        img0, st = mk(eng, st, SRC, src_mode, (sw, sh), "file")
        is_source = z3.Bool("img_is_the_caller_supplied_source") if False else False
        IS = ctx.ns("term_image.image.common").d["ImageSource"]
        eng.genv["ImageSource"] = IS
        self_ = st.new("BlockImage", {"_is_animated": animated, "_seek_position": seekpos, "_source": img0 if pil_source else "/path/of/the/source/file",
                                      "_source_type": IS.d["PIL_IMAGE"] if pil_source else IS.d["FILE_PATH"]})
        eng.methods[("BlockImage", "_get_render_size")] = lambda e, s, recv, a, k: [((tw, th), s)]
        # the mode of an animated image is the mode of the frame it stands on (frames of one file may differ: a TIFF with an RGB and an
        # RGBA page): whatever is decided from `img.mode` has to be decided after the image was positioned on the current frame
        def mode_read(e, s, v):
            if v is img0 and s.H(v).get("seeked") is None:
                e.oblige("C02:mode-looked-at-only-after-an-animated-image-is-positioned-on-its-current-frame", s, Not(animated), prop="C02", kind="pre", replay="C11.current_frame")
        eng.read_hooks = {("PIL.Image", "mode"): mode_read}
        close_image = inline(ctx.fn(COMMON, "BaseImage._close_image"), eng)
        eng.methods[("BlockImage", "_close_image")] = lambda e, s, recv, a, k: e.call(close_image, (recv,) + tuple(a), k, s)
        alpha = {"none": None, "float": z3.Real("alpha_threshold"), "hex": "#a1b2c3", "#": "#"}[alpha_kind]
        if alpha_kind == "float":
            st.pc += [alpha >= 0, alpha < 1]
        round_alpha, frame, pixel_data = z3.Bool("round_alpha"), z3.Bool("frame"), z3.Bool("pixel_data")
        st.env.update(self=self_, img=img0, alpha=alpha, size=(tw, th), pixel_data=pixel_data, round_alpha=round_alpha, frame=frame)
        # `[0 if val < alpha else 255 for val in a]` over the alpha band: evaluated on a generic element
        orig_listcomp = eng.ev_ListComp

        def ev_ListComp(e_, st_):
            res = []
            for src, s in eng.ev(e_.generators[0].iter, st_):
                if not (isinstance(src, Rec) and src.name == "pixeldata"):
                    return orig_listcomp(e_, st_)
                v = eng.sym_int("alpha_value")
                s2 = eng.fork(s)
                s2.frames.append({})
                eng.assign(e_.generators[0].target, v, s2)
                s2.pc += [v >= 0, v <= 255]
                out, s3 = eng.ev1(e_.elt, s2)
                thr = s.lookup("alpha")
                eng.oblige("C02:alpha-rounded-to-bi-level:0-below-the-threshold,255-otherwise", s3, to_z3(out) == z3.If(v < to_z3(thr), 0, 255), kind="post")
                s3.frames.pop()
                res.append((Rec("pixeldata", {"val": T("threshold", src.f["val"], thr)}), s))
            return res
        eng.ev_ListComp = ev_ListComp
        outs = run_function(eng, ctx.fn(COMMON, "BaseImage._get_render_data"), st)
        size = (tw, th)

        # ---------------- specification (from the property's wording; skips of no-op conversions are part of it:
        # "an image whose pixel size equals the render resolution is reproduced pixel-for-pixel")
        def seeked(v):
            return If(animated, ("A", seekpos), ("S",))  # placeholder, compared structurally below

        def spec(s):
            src = SRC
            same_size = And(Eq(sw, tw), Eq(sh, th))
            def cv(v, mode_now, mode):
                return v if mode_now == mode else T("convert", v, mode)
            return same_size, cv
        for kind, val, s in outs:
            # ---------- C11: the image handed in (opened from a file by the caller's _get_image) is closed or returned;
            #            a frame image used by ImageIterator is never closed; nothing else file-backed exists here
            h0 = s.H(img0)
            returned = val[0] if kind == "return" and isinstance(val, tuple) else None
            if pil_source:
                # a PIL image supplied by the caller is never closed by the library
                eng.oblige(f"C11:caller-supplied-PIL-image-never-closed@{kind}", s, h0["open"] is True, prop="C11", kind="exit")
                # ... nor altered: the same image is the source of every later render, under whatever transparency setting
                eng.oblige(f"C02:caller-supplied-PIL-image-not-altered(info-untouched)@{kind}", s, not s.ghost.get("info_writes"), prop="C02", kind="exit",
                           replay="C02.source_untouched")
                if kind != "return":
                    continue
            elif kind == "return":
                eng.oblige("C11:file-image-closed-unless-returned-or-iterator-frame", s,
                           Or(returned is img0, frame, h0["open"] is False) if returned is not img0 else True, prop="C11", kind="exit")
                eng.oblige("C11:iterator-frame-image-never-closed", s, Implies(frame, h0["open"] is True), prop="C11", kind="exit")
                eng.oblige("C11:returned-image-is-open", s, isinstance(returned, Ref) and s.H(returned)["open"] is True, prop="C11", kind="exit")
            elif not pil_source:
                eng.oblige(f"C11:file-image-closed-on-failure-unless-iterator-frame@{getattr(val, 'cls', kind)}", s, Or(frame, h0["open"] is False), prop="C11", kind="exit")
                eng.oblige(f"C02:only-RenderError-escapes({getattr(val, 'cls', kind)})", s, kind == "raise" and val.cls == "RenderError", kind="raise")
                continue
            # ---------- C02: the pipeline
            img_r, rgb, a = val
            v = s.H(img_r)["val"]
            src = SRC
            same_size = And(Eq(sw, tw), Eq(sh, th))
            src_v = src          # (frame selection: img.seek(position) for animated images is checked separately below)
            opaque = alpha is None or src_mode in OPAQUE_MODES
            target_mode = "RGB" if opaque else "RGBA"
            conv = src_v if src_mode == target_mode else T("convert", src_v, target_mode)
            resized = T("resize", conv, size, "BOX")
            # which of the two the code produced tells whether it resized
            def strip_frame(t):
                if isinstance(t, tuple) and t and isinstance(t[0], str) and t[0] == "frame":
                    return strip_frame(t[1])
                if isinstance(t, tuple):
                    return tuple(strip_frame(x) for x in t)
                return t
            v_ = strip_frame(v)
            def eqt(x, y):
                if isinstance(x, tuple) and isinstance(y, tuple):
                    return len(x) == len(y) and And(*[eqt(p, q) for p, q in zip(x, y)])
                if isinstance(x, tuple) or isinstance(y, tuple):
                    return False
                return Eq(x, y) if (is_sym(x) or is_sym(y) or isinstance(x, (int, float)) and isinstance(y, (int, float))) else x == y
            base = If(same_size, True, False)
            if opaque:
                exp_img = lambda rs: (resized if rs else conv)
                for rs, cond in ((False, same_size), (True, Not(same_size))):
                    s2 = s.fork()
                    s2.pc.append(to_z3(cond))
                    if not eng.feasible(s2.pc):
                        continue
                    ok = eqt(v_, exp_img(rs))
                    eng.oblige("C02:opaque:convert-to-RGB,BOX-resize-only-if-sizes-differ(pixel-for-pixel-otherwise)", s2, ok, kind="post")
                    if rgb is not None:
                        eng.oblige("C02:opaque:rgb=data(image),alpha-all-255", s2,
                                   And(eqt(strip_frame(rgb.f["val"]), T("getdata", exp_img(rs), None)), a.f["val"][0] == "const" and a.f["val"][1] == 255), kind="post")
            else:
                for rs, cond in ((False, same_size), (True, Not(same_size))):
                    s2 = s.fork()
                    s2.pc.append(to_z3(cond))
                    if not eng.feasible(s2.pc):
                        continue
                    x = resized if rs else conv
                    if isinstance(alpha, str):
                        colour = alpha if alpha != "#" else None
                        for bgk in ((True, False) if alpha == "#" else (None,)):
                            s3 = s2.fork()
                            if bgk is not None:
                                s3.pc.append(bg_known if bgk else z3.Not(bg_known))
                                if not eng.feasible(s3.pc):
                                    continue
                                colour = TERMBG if bgk else "#000000"
                            exp = T("convert", T("over", T("new", "RGBA", size, colour), x), "RGB")
                            eng.oblige("C02:bgcolor:composited-over-the-requested-background(or-terminal-bg/black-for-#)", s3, eqt(v_, exp), kind="post")
                            if rgb is not None:
                                eng.oblige("C02:bgcolor:rgb=data(image),alpha-all-255", s3,
                                           And(eqt(strip_frame(rgb.f["val"]), T("getdata", exp, None)), a.f["val"][0] == "const" and a.f["val"][1] == 255), kind="post")
                    else:
                        for bgk in (True, False):
                            s3 = s2.fork()
                            s3.pc.append(bg_known if bgk else z3.Not(bg_known))
                            if not eng.feasible(s3.pc):
                                continue
                            colour = TERMBG if bgk else "#000000"
                            blended = T("putalpha", T("over", T("new", "RGBA", size, colour), x), T("channel", x, "A"))
                            # threshold transparency: colours composited over the terminal background whenever alpha is rounded
                            exp = If(round_alpha, 1, 0)
                            ok = z3.If(round_alpha, to_z3(eqt(v_, blended)), to_z3(eqt(v_, x)))
                            eng.oblige("C02:threshold:blended-over-the-terminal-background-iff-alpha-is-rounded", s3, ok, kind="post")
                            if rgb is not None:
                                exp_rgb_r = T("getdata", T("convert", blended, "RGB"), None)
                                exp_rgb_n = T("getdata", T("convert", x, "RGB"), None)
                                okr = z3.If(round_alpha, to_z3(eqt(strip_frame(rgb.f["val"]), exp_rgb_r)), to_z3(eqt(strip_frame(rgb.f["val"]), exp_rgb_n)))
                                eng.oblige("C02:threshold:rgb=data(convert(image,RGB))", s3, okr, kind="post")
                                from pyvc.values import _ROUND
                                band = T("getdata", x, 3)
                                av = strip_frame(a.f["val"])
                                is_thr = isinstance(av, tuple) and isinstance(av[0], str) and av[0] == "threshold"
                                # rounded: threshold(alpha band, round(alpha * 255)); otherwise the alpha band as it is
                                if is_thr:
                                    oka = And(round_alpha, eqt(av[1], band), to_z3(av[2]) == _ROUND(alpha * 255))
                                else:
                                    oka = And(Not(round_alpha), eqt(av, band))
                                eng.oblige("C02:threshold:alpha=band-3(rounded-at-round(alpha*255)-iff-requested)", s3, oka, kind="post")
            # frame selection for animated images
            eng.oblige("C11:animated-image-positioned-on-the-current-frame", s, Implies(animated, h0.get("seeked") is not None and Eq(h0.get("seeked"), seekpos)), prop="C11", kind="post", replay="C11.current_frame")
        # the graphics styles transmit exactly this image (C03 "the payload is the image's pixel data"): the same obligations under C03
        from pyvc.engine import Obligation as _Ob
        for ob in list(eng.obligations):
            if ob.prop == "C02" and ob.meta.get("kind") != "cover":
                eng.obligations.append(_Ob(ob.name.replace("C02", "C03"), ob.pc, ob.goal, "C03", dict(ob.meta, replay="C03.render" if ob.meta.get("replay") in (None, "C02.render") else ob.meta["replay"])))
        return eng.obligations
    return u


for _m in ("RGB", "L", "RGBA", "P"):
    for _a in ("none", "float", "hex", "#"):
        render_data_unit(_m, _a)
render_data_unit("L", "none", pil_source=True)
render_data_unit("P", "none", pil_source=True)
render_data_unit("P", "float", pil_source=True)
render_data_unit("RGBA", "hex", pil_source=True)
