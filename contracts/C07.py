"""C07 - An interrupted draw() still restores the terminal and the image."""
from .renderable import *
from .C06 import TRUSTED
ASSUMPTIONS = ["faults are injected at every external call outside the function's own clean-up (finally) code; an interrupted write has delivered an arbitrary prefix"]
NOT_DECIDED = ["signals arriving inside the finally clause itself"]

from .C04 import u_renderer_frame  # noqa: F401,E402  (size setting restored by _renderer on every exit)
from .old_draw import *   # noqa: F401,E402  old-API draw / _display_animated
