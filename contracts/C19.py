"""C19 - Format specifiers are accepted and interpreted exactly as documented."""
import itertools
import re
import z3
from pyvc.runner import unit, run_function
from pyvc.values import *
from pyvc.engine import State, Obligation
from pyvc import rx
from .common import *

COMMON = "image/common.py"
TRUSTED = ["for fullmatch, a backtracking regex without look-around/back-references accepts exactly its regular language",
           "the sre_parse -> z3 translation (validated against CPython's re on all short strings at every run: bounded, not counted as proof)"]
ASSUMPTIONS = []
NOT_DECIDED = []


def grammar():
    """the documented grammar, transcribed from docs/source/guide/formatting.rst (section `format-spec`):
       [h_align] [width] [ . [v_align] [height] ] [ # [threshold | bgcolor] ] [ + style ]
       with: if the `.` is present at least one of v_align / height is present; threshold = '.' digits;
       bgcolor = '#' | 6 hex digits; style = non-empty"""
    d = z3.Range("0", "9")
    hx = z3.Union(z3.Range("0", "9"), z3.Range("a", "f"), z3.Range("A", "F"))
    anyc = z3.Diff(z3.AllChar(z3.ReSort(z3.StringSort())), z3.Re("\n"))
    O = z3.Option
    h_align = z3.Union(z3.Re("<"), z3.Re("|"), z3.Re(">"))
    v_align = z3.Union(z3.Re("^"), z3.Re("-"), z3.Re("_"))
    vertical = z3.Concat(z3.Re("."), z3.Union(z3.Concat(v_align, O(z3.Plus(d))), z3.Plus(d)))
    alpha = z3.Concat(z3.Re("#"), O(z3.Union(z3.Concat(z3.Re("."), z3.Plus(d)), z3.Loop(hx, 6, 6), z3.Re("#"))))
    style = z3.Concat(z3.Re("+"), z3.Plus(anyc))
    return z3.Concat(O(h_align), O(z3.Plus(d)), O(vertical), O(alpha), O(style))


def patterns(ctx):
    out = {}
    for n in ("_FORMAT_SPEC", "_NO_VERTICAL_SPEC", "_ALPHA_BG_FORMAT"):
        kind, pat, flags, isbytes = ctx.const("term_image.image.common", n)
        out[n] = (pat, flags)
    return out


@unit("C19", "common:accepted-language=documented-grammar")
def u_language(ctx):
    """`_check_format_spec` accepts spec iff _FORMAT_SPEC.fullmatch(spec) and not _NO_VERTICAL_SPEC.fullmatch(spec)
    (that this is the acceptance test is established by executing the first statement of the real function below)."""
    pats = patterns(ctx)
    R = {n: rx.to_z3re(p, f) for n, (p, f) in pats.items()}
    # the acceptance test itself, from the real source: `if not match_ or _NO_VERTICAL_SPEC.fullmatch(spec): raise`
    fn = ctx.fn(COMMON, "BaseImage._check_format_spec")
    import ast
    try:
        src = ast.unparse(fn.body[1]) + ast.unparse(fn.body[2].test) if len(fn.body) > 2 else ""
    except AttributeError:
        src = ""
    want = "match_ = _FORMAT_SPEC.fullmatch(spec)" + "not match_ or _NO_VERTICAL_SPEC.fullmatch(spec)"
    if src != want:
        raise Unsupported("acceptance test of _check_format_spec changed shape: " + src[:120])
    s = z3.String("spec")
    accepted = z3.And(z3.InRe(s, R["_FORMAT_SPEC"]), z3.Not(z3.InRe(s, R["_NO_VERTICAL_SPEC"])))
    G = grammar()
    return [Obligation("C19/language/accepted-implies-grammar", [accepted], z3.InRe(s, G), "C19", {"kind": "post", "replay": "C19.language"}),
            Obligation("C19/language/grammar-implies-accepted", [z3.InRe(s, G)], accepted, "C19", {"kind": "post", "replay": "C19.language"})]


def extra_checks(tier, seed):
    """translation validation of the regex front end against CPython's re (bounded; labelled as such)"""
    from pyvc.runner import Ctx
    ctx = Ctx()
    pats = patterns(ctx)
    R = {n: rx.to_z3re(p, f) for n, (p, f) in pats.items()}
    alpha = "<5.^#f+L\n"
    maxlen = 4 if tier != "thorough" else 5
    n = bad = 0
    for L in range(0, maxlen + 1):
        for tup in itertools.product(alpha, repeat=L):
            w = "".join(tup)
            for nm, (p, fl) in pats.items():
                n += 1
                py = re.compile(p, fl).fullmatch(w) is not None
                zz = z3.is_true(z3.simplify(z3.InRe(z3.StringVal(w), R[nm])))
                bad += py != zz
    out = {"bounded": [{"what": "regex front end (sre_parse->z3) vs CPython re.fullmatch", "bound": f"all strings of length <= {maxlen} over {alpha!r}",
                        "checks": n, "disagreements": bad}], "report": {"regex_translation_validation": {"checks": n, "disagreements": bad}}}
    if bad:
        out["undecided"] = [f"regex translation disagrees with CPython re on {bad} strings (checker problem, not a verdict)"]
    return out


# ------------------------------------------------------------------------------------------------------------------
# interpretation of an accepted specifier (the real _check_format_spec + _check_formatting on symbolic group strings)
# ------------------------------------------------------------------------------------------------------------------
DIG = z3.Plus(z3.Range("0", "9"))
HEX6 = z3.Loop(z3.Union(z3.Range("0", "9"), z3.Range("a", "f"), z3.Range("A", "F")), 6, 6)


def interp_unit(alpha_kind):
    @unit(("C19", "C05") if alpha_kind == "absent" else "C19", f"common:BaseImage._check_format_spec/interpretation[alpha={alpha_kind}]")
    def u(ctx, alpha_kind=alpha_kind):
        obs = []
        pats = patterns(ctx)
        R_alpha = rx.to_z3re(*pats["_ALPHA_BG_FORMAT"])
        R_nv = rx.to_z3re(*pats["_NO_VERTICAL_SPEC"])
        default_alpha = ctx.const("term_image.image.common", "_ALPHA_THRESHOLD")
        for h_align in (None, "<", "|", ">"):
            for v_kind in ("absent", "align", "height", "both"):
                for has_w in (False, True):
                    for has_style in (False, True):
                        v_align = "^" if v_kind in ("align", "both") else None
                        eng = ctx.engine(f"C19/interpretation[alpha={alpha_kind},h={h_align},w={has_w},v={v_kind},style={has_style}]", "C19")
                        eng.default_replay = "C19.interpretation"
                        st = State()
                        eng.genv.update(UTIL_ERRS)
                        tw, th = z3.Ints("term_w term_h")
                        st.pc += [tw >= 1, th >= 1]
                        eng.genv["get_terminal_size"] = Fn(lambda e, s, a, k: [(Rec("terminal_size", {"columns": tw, "lines": th}), s)])
                        eng.genv["_ALPHA_THRESHOLD"] = default_alpha
                        Wd, Hd, Thr, Hex, Sty = z3.String("width_digits"), z3.String("height_digits"), z3.String("threshold_digits"), z3.String("hex6"), z3.String("style")
                        st.pc += [z3.InRe(Wd, DIG), z3.InRe(Hd, DIG), z3.InRe(Thr, z3.Concat(z3.Re("."), DIG)), z3.InRe(Hex, HEX6), z3.Length(Sty) >= 1,
                                  z3.Length(Wd) <= 6, z3.Length(Hd) <= 6]
                        width = Wd if has_w else None
                        height = Hd if v_kind in ("height", "both") else None
                        tob = {"absent": None, "#": None, "threshold": Thr, "hex": Hex, "##": "#"}[alpha_kind]
                        alpha_grp = None if alpha_kind == "absent" else "#"       # group 7 is the text of the `#...` part: only its truthiness is used
                        style = Sty if has_style else None
                        groups = ("_g1", h_align, width, (None if v_kind == "absent" else "."), v_align, height, alpha_grp, tob, ("+" if has_style else None), style)
                        match = Rec("match", {"_groups": groups})
                        eng.attrs[("match", "groups")] = lambda e, s, v: [(Fn(lambda e2, s2, a, k: [(v.f["_groups"], s2)]), s)]
                        fmt = st.new("re_format")
                        eng.methods[("re_format", "fullmatch")] = lambda e, s, recv, a, k: [(match, s)]     # the driver enumerates accepted shapes
                        nv = st.new("re_novert")
                        eng.methods[("re_novert", "fullmatch")] = lambda e, s, recv, a, k: [(None, s)]       # a `.` is followed by v_align / height here
                        ab = st.new("re_alpha_bg")

                        def alpha_fullmatch(e, s, recv, a, k):
                            x = a[0]
                            if isinstance(x, str):
                                import re as _re
                                return [(_re.compile(pats["_ALPHA_BG_FORMAT"][0], pats["_ALPHA_BG_FORMAT"][1]).fullmatch(x) is not None or None, s)]
                            return [((True if side else None), s2) for side, s2 in e.split(s, z3.InRe(x, R_alpha))]
                        eng.methods[("re_alpha_bg", "fullmatch")] = alpha_fullmatch
                        eng.genv.update(_FORMAT_SPEC=fmt, _NO_VERTICAL_SPEC=nv, _ALPHA_BG_FORMAT=ab)
                        cls = st.new("imgcls", {})
                        chk = inline(ctx.fn(COMMON, "BaseImage._check_formatting"), eng)
                        eng.methods[("imgcls", "_check_formatting")] = lambda e, s, recv, a, k: e.call(chk, tuple(a), k, s)
                        STYLE_ARGS = st.new("dict", {"@items": {"parsed": "style-args"}})

                        def check_style(e, s, recv, a, k):
                            e.oblige("style-part-passed-on-unchanged", s, a[0] is Sty and a[1] is Sty, kind="pre")
                            e.raise_(ExcVal("StyleError"), e.fork(s))
                            return [(STYLE_ARGS, s)]
                        eng.methods[("imgcls", "_check_style_format_spec")] = check_style
                        eng.exc_parents["StyleError"] = "TermImageError"
                        st.env.update(cls=cls, spec=Opaque("spec"))
                        outs = run_function(eng, ctx.fn(COMMON, "BaseImage._check_format_spec"), st)
                        from pyvc.engine import PY_FLOAT
                        for kind, val, s in outs:
                            if kind == "raise":
                                eng.oblige(f"only-an-invalid-style-part-is-rejected({val.cls})", s, has_style and val.cls == "StyleError", kind="raise")
                                continue
                            if not (isinstance(val, tuple) and len(val) == 6):
                                eng.oblige("returns(h_align,width,v_align,height,alpha,style_args)", s, False, kind="post")
                                continue
                            ha, w_, va, h_, al, sa = val
                            wn = z3.StrToInt(Wd) if has_w else 0
                            hn = z3.StrToInt(Hd) if height is not None else None
                            exp_w = z3.If(wn > 0, wn, z3.If(tw + wn > 1, tw + wn, 1)) if has_w else tw           # absent or zero: terminal width
                            exp_h = (z3.If(hn > 0, hn, z3.If(th + hn > 1, th + hn, 1)) if hn is not None else z3.If(th - 2 > 1, th - 2, 1))   # absent: terminal height - 2
                            eng.oblige("alignment-as-written(absent=default)", s, ha == h_align and va == v_align, kind="post")
                            eng.oblige("padding-size:given-number,zero=terminal-relative-0,absent=documented-default", s, And(Eq(w_, exp_w), Eq(h_, exp_h)), kind="post")
                            eng.oblige("C05:format-spec-padding-size=equivalent-draw()-parameters", s, And(Eq(w_, exp_w), Eq(h_, exp_h)), prop="C05", kind="post")
                            if alpha_kind == "absent":
                                oka = al == default_alpha
                            elif alpha_kind == "#":
                                oka = al is None                                  # transparency disabled
                            elif alpha_kind == "##":
                                oka = al == "#"                                   # terminal background
                            elif alpha_kind == "hex":
                                oka = is_sym(al) and z3.is_string(al) and (al == z3.Concat(z3.StringVal("#"), Hex))
                            else:
                                oka = is_sym(al) and z3.is_real(al) and (al == PY_FLOAT(Thr))
                            eng.oblige("transparency-setting-as-documented", s, oka, kind="post")
                            if has_style:
                                eng.oblige("style-arguments-from-the-style-part", s, sa is STYLE_ARGS, kind="post")
                            else:
                                eng.oblige("no-style-part:empty-style-arguments", s, isinstance(sa, Ref) and s.H(sa).get("@items") == {}, kind="post")
                        obs += eng.obligations
        return obs
    return u


for _ak in ("absent", "#", "threshold", "hex", "##"):
    interp_unit(_ak)


# ------------------------------------------------------------------------------------------------ the style part (`+style`)
# documented sub-grammars (docs/source/guide/formatting.rst, the style-specific sections):
#   kitty   [method][z-index][mix][compress]   method L|W,   z-index z<integer>,  mix m0|m1,  compress c0..c9
#   iterm2  [method][mix][compress]            method L|W|A, mix m0|m1,  compress c0..c9
STYLE_GRAMMARS = {
    "KittyImage": ("image/kitty.py", [("method", "[LW]"), ("z_index", r"z-?\d+"), ("mix", "m[01]"), ("compress", "c[0-9]")]),
    "ITerm2Image": ("image/iterm2.py", [("method", "[LWA]"), ("mix", "m[01]"), ("compress", "c[0-9]")]),
}


def style_unit(cname):
    @unit("C19", f"style:{cname}._check_style_format_spec+_get_style_format_spec")
    def u(ctx, cname=cname):
        from pyvc import rxops
        rel, doc = STYLE_GRAMMARS[cname]
        eng = ctx.engine(f"C19/style[{cname}]", "C19")
        eng.default_replay = "C19.style"
        rxops.install(eng)
        nd = eng.unicode_nd
        st = State()
        spec = z3.String("style_spec")
        real = ctx.class_const(cname, "_FORMAT_SPEC")
        if not isinstance(real, tuple):
            raise Unsupported("_FORMAT_SPEC is not a tuple of patterns")
        pats = tuple(rxops.make_pattern(st, p[1], p[2], nd) for p in real)
        # the documented grammar: optional fields in the documented order; `<integer>` = an optional minus sign and decimal digits
        G = z3.Concat(*[z3.Option(rx.to_z3re(src, 0, nd=nd)) for _, src in doc]) if len(doc) > 1 else z3.Option(rx.to_z3re(doc[0][1], 0, nd=nd))
        mod = ctx.ns({"KittyImage": "term_image.image.kitty", "ITerm2Image": "term_image.image.iterm2"}[cname])
        for k_ in ("LINES", "WHOLE", "ANIM"):
            if k_ in mod.d:
                eng.genv[k_] = mod.d[k_]
        eng.exc_parents["StyleError"] = "TermImageError"
        eng.genv["StyleError"] = ClassV("StyleError")
        # class-wide settings a specifier's meaning must NOT depend on (the format specifier denotes its own fields, whatever is set on
        # the class): any values
        cls = st.new("imgcls", {"_FORMAT_SPEC": pats, "__name__": cname, "jpeg_quality": z3.Int("class_jpeg_quality"),
                                "read_from_file": z3.Bool("class_read_from_file"), "_render_method": "lines"})
        get_spec = inline(ctx.fn(COMMON, "BaseImage._get_style_format_spec"), eng)
        base_check = inline(ctx.fn(COMMON, "BaseImage._check_style_format_spec"), eng)

        def m_get(e, s, recv, a, k):
            outs = []
            for v, s2 in e.call(get_spec, (recv,) + tuple(a), k, s):
                # contract of _get_style_format_spec, checked here on its real body: nothing of the text is skipped or reordered
                ok = isinstance(v, tuple) and len(v) == 2 and isinstance(v[1], Ref) and isinstance(s2.H(v[1]), list) and len(s2.H(v[1])) == len(pats)
                if not ok:
                    e.oblige("_get_style_format_spec:returns(parent,[one-entry-per-field])", s2, False, kind="post")
                    continue
                parent, fields = v[0], list(s2.H(v[1]))
                txt = [(z3.StringVal("") if f is None else f) for f in fields]
                if not all(is_sym(t) and z3.is_string(t) for t in txt) or not (isinstance(parent, str) or (is_sym(parent) and z3.is_string(parent))):
                    raise Unsupported("field values of another shape")
                par = z3.StringVal(parent) if isinstance(parent, str) else parent
                whole = z3.Concat(par, *txt)
                e.oblige("_get_style_format_spec:parent+fields-in-order=the-whole-text(nothing-skipped)", s2, a[0] == whole, kind="post")
                e.oblige("_get_style_format_spec:each-field-is-a-match-of-its-own-pattern-or-absent", s2,
                         z3.And(*[z3.InRe(f, s2.H(p)["@re"]) for f, p in zip(fields, pats) if f is not None]) if any(f is not None for f in fields) else z3.BoolVal(True), kind="post")
                s2 = e.fork(s2)
                s2.ghost["fields"] = fields
                outs.append((v, s2))
            return outs
        eng.methods[("imgcls", "_get_style_format_spec")] = m_get
        eng.genv["super"] = Fn(lambda e, s, a, k: [(Rec("super", {}), s)])
        eng.attrs[("super", "_check_style_format_spec")] = lambda e, s, v: [(Fn(lambda e2, s2, a, k: e2.call(base_check, (cls,) + tuple(a), k, s2)), s)]

        def m_args(e, s, recv, a, k):
            s = e.fork(s)
            s.ghost["args"] = dict(s.H(a[0])["@items"])
            return [(Rec("checked-style-args", {}), s)]        # validation of the values (_check_style_args) is a separate contract
        eng.methods[("imgcls", "_check_style_args")] = m_args
        st.env.update(cls=cls, spec=spec, original=z3.String("original_spec"))
        outs = run_function(eng, ctx.fn(rel, f"{cname}._check_style_format_spec"), st)
        names = [n for n, _ in doc]
        for kind, val, s in outs:
            if kind == "raise":
                eng.oblige(f"rejected({val.cls})-only-if-not-a-sentence-of-the-style-grammar", s, And(val.cls == "StyleError", z3.Not(z3.InRe(spec, G))), kind="raise")
                continue
            eng.oblige("accepted-only-if-a-sentence-of-the-style-grammar", s, z3.InRe(spec, G), kind="post")
            fields, args = s.ghost.get("fields"), s.ghost.get("args")
            if fields is None or args is None or len(fields) != len(names):
                eng.oblige("style-arguments-built-from-the-recognised-fields", s, False, kind="post")
                continue
            for nm, f in zip(names, fields):
                if f is None:
                    eng.oblige(f"absent-{nm}-gives-no-argument", s, nm not in args, kind="post")
                    continue
                if nm not in args:
                    eng.oblige(f"{nm}-denotes-its-argument", s, False, kind="post")
                    continue
                got = args[nm]
                if nm == "method":
                    exp = {"L": eng.genv.get("LINES"), "W": eng.genv.get("WHOLE"), "A": eng.genv.get("ANIM")}
                    goal = And(*[Implies(f == z3.StringVal(ch), z3.BoolVal(got == v_)) for ch, v_ in exp.items() if v_ is not None])
                elif nm == "z_index":
                    ps = [p_ for p_, _ in (rxops.pieces_of(s, f) or [])]
                    if len(ps) < 2:
                        raise Unsupported("z-index field without its pieces")
                    cat = lambda xs: z3.Concat(*xs) if len(xs) > 1 else xs[0] if xs else z3.StringVal("")
                    body = cat(ps[1:])
                    neg = z3.PrefixOf(z3.StringVal("-"), body)
                    digits = z3.If(neg, cat(ps[2:]), body)
                    ascii_ = z3.InRe(digits, z3.Plus(z3.Range("0", "9")))
                    goal = And(z3.is_int(got), Implies(ascii_, got == z3.If(neg, -z3.StrToInt(digits), z3.StrToInt(digits)))) if is_sym(got) else False
                elif nm == "mix":
                    last = (rxops.pieces_of(s, f) or [(z3.SubString(f, z3.Length(f) - 1, 1), 1)])[-1][0]
                    goal = Eq(got, last == z3.StringVal("1")) if is_sym(got) else False
                else:
                    last = (rxops.pieces_of(s, f) or [(z3.SubString(f, z3.Length(f) - 1, 1), 1)])[-1][0]
                    goal = Eq(got, z3.StrToInt(last)) if is_sym(got) else False
                eng.oblige(f"{nm}-denotes-its-argument", s, goal, kind="post")
        return eng.obligations
    return u


for _c in STYLE_GRAMMARS:
    style_unit(_c)


# ------------------------------------------------------------------------------------------------ __format__: what is done with the interpretation
@unit(("C19", "C05"), "common:BaseImage.__format__")
def u_format(ctx):
    """"formatting with a specifier equals drawing with the equivalent explicit parameters": the result of format() is the render of
    the image under the interpreted transparency / style arguments, padded by `_format_render` with exactly the interpreted
    alignment and padding size.  `_format_render` is known by its C05 contract only: a function of its arguments that returns
    the render unchanged when the padding is no larger than the render on BOTH axes - so a short-cut that is right is accepted,
    one that skips the padding in other cases is not."""
    eng = ctx.engine("C19/BaseImage.__format__", "C19")
    eng.default_replay = "C19.format_vs_draw"
    st = State()
    I_ = z3.IntSort()
    ha, va, width, height, alpha, rw, rh = z3.Ints("h_align pad_width v_align pad_height alpha r_width r_height")
    st.pc += [width >= 1, height >= 1, rw >= 1, rh >= 1]
    FR = z3.Function("format_render", I_, I_, I_, I_, I_, I_)
    RENDER = z3.Function("render_under", I_, I_, I_)
    style = st.new("dict", {"@items": {"some_style_argument": z3.Int("style_argument_value")}})
    self_ = st.new("BlockImage", {})
    eng.methods[("BlockImage", "_check_format_spec")] = lambda e, s, recv, a, k: [((ha, width, va, height, alpha, style), s)] + (e.raise_(ExcVal("ValueError"), e.fork(s)) or [])
    eng.attrs[("BlockImage", "_render_image")] = lambda e, s, v: [(Opaque("bound _render_image"), s)]
    eng.attrs[("BlockImage", "rendered_size")] = lambda e, s, v: [((rw, rh), s)]
    eng.attrs[("BlockImage", "rendered_width")] = lambda e, s, v: [(rw, s)]
    eng.attrs[("BlockImage", "rendered_height")] = lambda e, s, v: [(rh, s)]
    st.ghost["renders"] = []

    def renderer(e, s, recv, a, k):
        s = e.fork(s)
        ok = len(a) >= 2 and isinstance(a[0], Opaque) and "some_style_argument" in k and len(k) == 1
        e.oblige("rendered-with-the-interpreted-transparency-and-style-arguments", s, And(ok, Eq(a[1], alpha) if len(a) >= 2 else False,
                                                                                      Eq(k.get("some_style_argument"), z3.Int("style_argument_value"))), kind="pre")
        s.ghost["renders"] = s.ghost["renders"] + [1]
        return [(RENDER(to_z3(a[1]) if len(a) >= 2 and is_sym(a[1]) else z3.IntVal(-1), z3.Int("style_argument_value")), s)]
    eng.methods[("BlockImage", "_renderer")] = renderer

    def format_render(e, s, recv, a, k):
        if len(a) != 5 or k:
            raise Unsupported("_format_render call shape")
        r = FR(*[to_z3(x) for x in a])
        s = e.fork(s)
        # C05: padding no larger than the render on an axis has no effect on that axis
        s.pc.append(z3.Implies(z3.And(to_z3(a[2]) <= rw, to_z3(a[4]) <= rh), r == to_z3(a[0])))
        return [(r, s)]
    eng.methods[("BlockImage", "_format_render")] = format_render
    st.env.update(self=self_, spec=Opaque("spec"))
    outs = run_function(eng, ctx.fn(COMMON, "BaseImage.__format__"), st)
    the_render = RENDER(alpha, z3.Int("style_argument_value"))
    for kind, val, s in outs:
        if kind == "raise":
            eng.oblige("only-the-specifier-check's-error-escapes,before-anything-is-rendered", s, And(val.cls == "ValueError", s.ghost["renders"] == []), kind="raise")
            continue
        s2 = s.fork()
        want = FR(the_render, ha, width, va, height)
        s2.pc.append(z3.Implies(z3.And(width <= rw, height <= rh), want == the_render))
        for pr_ in ("C19", "C05"):
            eng.oblige("result=the-render-padded-with-exactly-the-interpreted-alignment-and-padding-size" + ("" if pr_ == "C19" else "(C05:each-axis-on-its-own)"), s2,
                       And(is_sym(val) and z3.is_int(val), val == want if is_sym(val) and z3.is_int(val) else False, len(s.ghost["renders"]) == 1), prop=pr_, kind="post")
    return eng.obligations


# ------------------------------------------------------------------------------------------------ _check_style_args: the values against the class tables
DOC_STYLE_ARGS = {
    # documented parameters of the two graphics styles (docs of KittyImage / ITerm2Image, "style-specific render parameters"):
    # name -> (type, documented default, documented range as a predicate over the symbolic value, lower-cased for method)
    "KittyImage": {"method": ("str", None), "z_index": ("int", 0), "mix": ("bool", False), "compress": ("int", 4)},
    "ITerm2Image": {"method": ("str", None), "mix": ("bool", False), "compress": ("int", 9 - 5)},
}


def _style_table_node(ctx, rel, cname):
    import ast as _ast
    tree, _ = ctx.tree(rel)
    for n in tree.body:
        if isinstance(n, _ast.ClassDef) and n.name == cname:
            for b in n.body:
                if isinstance(b, _ast.Assign) and len(b.targets) == 1 and getattr(b.targets[0], "id", None) == "_style_args":
                    return b.value
    raise Unsupported(f"{cname}._style_args not found as a class-body assignment")


def style_args_unit(cname, rel):
    @unit("C19", f"common:BaseImage._check_style_args[{cname}]")
    def u(ctx):
        """The real body of `BaseImage._check_style_args` over the real `_style_args` table of the class (the table's lambdas are
        evaluated from the class body): a mapping holding every documented parameter with a value of any type is accepted iff every
        value has the documented type and lies in the documented range; the result is the SAME mapping with exactly the entries
        equal to their documented default removed and every other value untouched; a wrong type raises TypeError, a value out of
        range ValueError, a name that is not a parameter of the style StyleError - and nothing else is raised."""
        import ast as _ast
        doc = DOC_STYLE_ARGS[cname]
        methods = ctx.class_const(cname, "_render_methods")
        obs = []
        kinds = {"str": lambda n: z3.String(f"{n}_text"), "int": lambda n: z3.Int(f"{n}_number"), "bool": lambda n: z3.Bool(f"{n}_flag"), "none": lambda n: None}
        # one world per (parameter given a value of a foreign kind | all of the documented kind) x (an unknown name present or not)
        worlds = [({}, False), ({}, True)]
        for nm, (ty, _) in doc.items():
            for other in kinds:
                if other != ty:
                    worlds.append(({nm: other}, False))
        for foreign, unknown in worlds:
            tag = ",".join(f"{k}:{v}" for k, v in foreign.items()) or "documented-types"
            eng = ctx.engine(f"C19/_check_style_args[{cname},{tag}{',unknown-name' if unknown else ''}]", "C19")
            eng.default_replay = "C19.style_args"
            st = State()
            eng.exc_parents["StyleError"] = "TermImageError"
            eng.genv["StyleError"] = ClassV("StyleError")
            here = Rec("classcell", {"_render_methods": methods})          # `__class__` inside the table's lambdas: the class being defined
            # the engine resolves a closure's free names in the frame it is called from, where `__class__` is BaseImage (the function
            # under contract): the table's own `__class__` cell is renamed mechanically before evaluation (nothing else is rewritten)
            import copy as _copy
            node = _copy.deepcopy(_style_table_node(ctx, rel, cname))
            for n_ in _ast.walk(node):
                if isinstance(n_, _ast.Name) and n_.id == "__class__":
                    n_.id = "__defining_class__"
            st.env["__defining_class__"] = here
            (table, st), = eng.ev(node, st)
            if set(st.H(table)["@items"]) != set(doc):
                eng.oblige("the-class-table-lists-exactly-the-documented-parameters", st, False, kind="post")
                obs += eng.obligations
                continue
            base = st.new("imgcls", {"__name__": "BaseImage", "_style_args": st.new("dict", {"@items": {}})})
            mid = st.new("imgcls", {"__name__": "GraphicsImage"})
            cls = st.new("imgcls", {"__name__": cname, "_style_args": table})
            st.H(cls)["__mro__"] = (cls, mid, base, Opaque("object"))
            own = {cls.id: True, mid.id: False, base.id: True}
            eng.genv["issubclass"] = Fn(lambda e, s, a, k: [(isinstance(a[0], Ref) and a[0].cls == "imgcls", s)])
            eng.genv["vars"] = Fn(lambda e, s, a, k: [((("_style_args",) if own.get(a[0].id) else ()), s)])

            def super_(e, s, a, k):
                after = {cls.id: base, mid.id: base}.get(a[0].id)
                if after is None:
                    raise Unsupported("super() past the base class")
                return [(after, s)]
            eng.genv["super"] = Fn(super_)
            vals, items = {}, {}
            for nm, (ty, _) in doc.items():
                vals[nm] = kinds[foreign.get(nm, ty)](nm)
                items[nm] = vals[nm]
            if unknown:
                items["no_such_parameter"] = z3.Int("unknown_value")
            args = st.new("dict", {"@items": dict(items)})
            st.env.update(cls=cls, style_args=args)
            st.env["__class__"] = base
            outs = run_function(eng, ctx.fn(COMMON, "BaseImage._check_style_args"), st)

            def valid(nm):
                v = vals[nm]
                if nm == "method":
                    return z3.Or(*[PY_CASE_LOWER(v) == z3.StringVal(m) for m in sorted(methods)])
                if nm == "z_index":
                    return z3.And(v > -(2 ** 31), v < 2 ** 31)
                if nm == "compress":
                    return z3.And(v >= 0, v <= 9)
                return z3.BoolVal(True)
            typed = [nm for nm in doc if nm not in foreign or (doc[nm][0] == "int" and foreign[nm] == "bool")]      # bool IS an int
            for nm in doc:
                if nm in foreign and nm in typed:      # a bool where an int is documented: accepted as the number it is
                    b = vals[nm]
                    vals[nm] = z3.If(b, 1, 0)
            all_valid = z3.And(*[valid(nm) for nm in typed]) if typed else z3.BoolVal(True)
            wrong_type = [nm for nm in doc if nm not in typed]
            for kind, val, s in outs:
                if kind == "raise":
                    if val.cls == "TypeError":
                        goal = bool(wrong_type)
                    elif val.cls == "ValueError":
                        goal = z3.Not(all_valid)
                    elif val.cls == "StyleError":
                        goal = unknown
                    else:
                        goal = False
                    eng.oblige(f"{val.cls}-only-for-its-documented-reason", s, goal, kind="raise")
                    eng.oblige("rejected-only-if-something-is-wrong", s, Or(bool(wrong_type), unknown, z3.Not(all_valid)), kind="raise")
                    continue
                eng.oblige("accepted-only-if-every-name-is-a-parameter-with-a-value-of-the-documented-type-and-range", s,
                           And(not wrong_type, not unknown, all_valid), kind="post")
                if wrong_type or unknown:
                    continue
                eng.oblige("returns-the-mapping-it-was-given", s, val is args or (isinstance(val, Ref) and val.id == args.id), kind="post")
                left = s.H(args)["@items"]
                for nm, (ty, dflt) in doc.items():
                    v = items[nm]
                    if dflt is None:
                        eng.oblige(f"{nm}:kept-unchanged(no-default-value-to-drop)", s, nm in left and left.get(nm) is v, kind="post")
                        continue
                    is_default = (vals[nm] == dflt) if ty != "bool" else (v == dflt if not z3.is_int(vals[nm]) else vals[nm] == int(dflt))
                    if nm in left:
                        eng.oblige(f"{nm}:kept-only-if-not-the-documented-default,unchanged", s, And(z3.Not(is_default), left[nm] is v), kind="post")
                    else:
                        eng.oblige(f"{nm}:dropped-only-if-equal-to-the-documented-default", s, is_default, kind="post")
                eng.oblige("nothing-added", s, set(left) <= set(items), kind="post")
            obs += eng.obligations
        return obs
    return u


from pyvc.engine import PY_CASE as _PY_CASE
PY_CASE_LOWER = _PY_CASE["lower"]
style_args_unit("KittyImage", "image/kitty.py")
style_args_unit("ITerm2Image", "image/iterm2.py")
