"""C19 - Format specifiers are accepted and interpreted exactly as documented."""
import itertools
import re
import z3
from pyvc.runner import unit, run_function
from pyvc.values import *
from pyvc.engine import State, Obligation
from pyvc import rx
from .common import *

COMMON = "image/common.py"
TRUSTED = ["for fullmatch, a backtracking regex without look-around/back-references accepts exactly its regular language",
           "the sre_parse -> z3 translation (validated against CPython's re on all short strings at every run: bounded, not counted as proof)"]
ASSUMPTIONS = []
NOT_DECIDED = []


def grammar():
    """the documented grammar, transcribed from docs/source/guide/formatting.rst (section `format-spec`):
       [h_align] [width] [ . [v_align] [height] ] [ # [threshold | bgcolor] ] [ + style ]
       with: if the `.` is present at least one of v_align / height is present; threshold = '.' digits;
       bgcolor = '#' | 6 hex digits; style = non-empty"""
    d = z3.Range("0", "9")
    hx = z3.Union(z3.Range("0", "9"), z3.Range("a", "f"), z3.Range("A", "F"))
    anyc = z3.Diff(z3.AllChar(z3.ReSort(z3.StringSort())), z3.Re("\n"))
    O = z3.Option
    h_align = z3.Union(z3.Re("<"), z3.Re("|"), z3.Re(">"))
    v_align = z3.Union(z3.Re("^"), z3.Re("-"), z3.Re("_"))
    vertical = z3.Concat(z3.Re("."), z3.Union(z3.Concat(v_align, O(z3.Plus(d))), z3.Plus(d)))
    alpha = z3.Concat(z3.Re("#"), O(z3.Union(z3.Concat(z3.Re("."), z3.Plus(d)), z3.Loop(hx, 6, 6), z3.Re("#"))))
    style = z3.Concat(z3.Re("+"), z3.Plus(anyc))
    return z3.Concat(O(h_align), O(z3.Plus(d)), O(vertical), O(alpha), O(style))


def patterns(ctx):
    out = {}
    for n in ("_FORMAT_SPEC", "_NO_VERTICAL_SPEC", "_ALPHA_BG_FORMAT"):
        kind, pat, flags, isbytes = ctx.const("term_image.image.common", n)
        out[n] = (pat, flags)
    return out


@unit("C19", "common:accepted-language=documented-grammar")
def u_language(ctx):
    """`_check_format_spec` accepts spec iff _FORMAT_SPEC.fullmatch(spec) and not _NO_VERTICAL_SPEC.fullmatch(spec)
    (that this is the acceptance test is established by executing the first statement of the real function below)."""
    pats = patterns(ctx)
    R = {n: rx.to_z3re(p, f) for n, (p, f) in pats.items()}
    # the acceptance test itself, from the real source: `if not match_ or _NO_VERTICAL_SPEC.fullmatch(spec): raise`
    fn = ctx.fn(COMMON, "BaseImage._check_format_spec")
    import ast
    src = ast.unparse(fn.body[1]) + ast.unparse(fn.body[2].test) if len(fn.body) > 2 else ""
    want = "match_ = _FORMAT_SPEC.fullmatch(spec)" + "not match_ or _NO_VERTICAL_SPEC.fullmatch(spec)"
    if src != want:
        raise Unsupported("acceptance test of _check_format_spec changed shape: " + src[:120])
    s = z3.String("spec")
    accepted = z3.And(z3.InRe(s, R["_FORMAT_SPEC"]), z3.Not(z3.InRe(s, R["_NO_VERTICAL_SPEC"])))
    G = grammar()
    return [Obligation("C19/language/accepted-implies-grammar", [accepted], z3.InRe(s, G), "C19", {"kind": "post", "replay": "C19.language"}),
            Obligation("C19/language/grammar-implies-accepted", [z3.InRe(s, G)], accepted, "C19", {"kind": "post", "replay": "C19.language"})]


def extra_checks(tier, seed):
    """translation validation of the regex front end against CPython's re (bounded; labelled as such)"""
    from pyvc.runner import Ctx
    ctx = Ctx()
    pats = patterns(ctx)
    R = {n: rx.to_z3re(p, f) for n, (p, f) in pats.items()}
    alpha = "<5.^#f+L\n"
    maxlen = 4 if tier != "thorough" else 5
    n = bad = 0
    for L in range(0, maxlen + 1):
        for tup in itertools.product(alpha, repeat=L):
            w = "".join(tup)
            for nm, (p, fl) in pats.items():
                n += 1
                py = re.compile(p, fl).fullmatch(w) is not None
                zz = z3.is_true(z3.simplify(z3.InRe(z3.StringVal(w), R[nm])))
                bad += py != zz
    out = {"bounded": [{"what": "regex front end (sre_parse->z3) vs CPython re.fullmatch", "bound": f"all strings of length <= {maxlen} over {alpha!r}",
                        "checks": n, "disagreements": bad}], "report": {"regex_translation_validation": {"checks": n, "disagreements": bad}}}
    if bad:
        out["undecided"] = [f"regex translation disagrees with CPython re on {bad} strings (checker problem, not a verdict)"]
    return out
