"""C02 - Block renders show exactly the image's pixels (colour and transparency)."""
from .render_data import *
from .render_block import *

TRUSTED = ["direct-colour terminal: SGR 38;2 / 48;2 set foreground / background, SGR 0 resets; U+2580 shows fg over bg, U+2584 bg over fg, space shows bg",
           "_get_render_data returns flattened row-major (r, g, b) and alpha lists for the render resolution (its own contract is a separate unit)",
           "PIL convert / BOX resize / alpha_composite are uninterpreted: what they compute is assumed"]
ASSUMPTIONS = ["the documented kitty work-around (a background colour equal to the terminal's own background is emitted with r +- 1 on kitty) is the one permitted deviation"]
NOT_DECIDED = ["'a uniformly coloured image stays uniform at any size' (a property of PIL's BOX resampling, outside the library)"]
