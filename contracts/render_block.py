"""BlockImage._render_image under contract (C01 geometry, C02 pixels)."""
import z3
from pyvc.runner import unit, run_function
from pyvc.values import *
from pyvc.engine import State, LoopSpec
from pyvc import tstr
from pyvc.tstr import TS, VT, vt_new
from .common import *

BLOCK = "image/block.py"
I = z3.IntSort()
# pixel data returned by _get_render_data: flattened row-major lists (assumed contract, see TRUSTED)
PR, PG, PB, PA = (z3.Function(n, I, I) for n in ("px_r", "px_g", "px_b", "px_a"))


def px_range_axioms():
    k = z3.Int("k!px")
    return [z3.ForAll([k], z3.And(*[z3.And(f(k) >= 0, f(k) <= 255) for f in (PR, PG, PB)], z3.Or(PA(k) == 0, PA(k) == 255)))]


VT_NUM = ("row", "col", "bottom", "nl", "line_idx", "line_w", "written", "skipped", "blk_col", "blk_line", "blk_id", "ech_to")
VT_BOOL = ("sgr_default", "irregular", "last_nl", "vis", "sync")


def havoc_vt(s, tag, key="vt"):
    g = dict(s.ghost[key])
    for nm in VT_NUM:
        g[nm] = z3.Int(f"vt_{nm}!{tag}")
    for nm in VT_BOOL:
        g[nm] = z3.Bool(f"vt_{nm}!{tag}")
    g["log"] = []
    s.ghost[key] = g
    return g


def stringio_world(eng):
    """io.StringIO as an accumulator of terminal effects: what is written is interpreted at once by the VT machine"""
    def new(e, s, a, k):
        s = e.fork(s)
        return [(s.new("StringIO", {"n": 0}), s)]

    def write(e, s, recv, a, k):
        s = e.fork(s)
        n = s.H(recv)["n"] = s.H(recv)["n"] + 1
        vt = VT(e, s, tag=f"buf.write")
        vt.feed(a[0])
        vt.commit()
        return [(None, s)]
    eng.genv["io"] = Namespace("io", {"StringIO": Fn(new)})
    eng.methods[("StringIO", "write")] = write
    eng.methods[("StringIO", "getvalue")] = lambda e, s, recv, a, k: [(Rec("rendered", {"vt": dict(s.ghost["vt"])}), s)]
    eng.methods[("StringIO", "__enter__")] = lambda e, s, recv, a, k: [(recv, s)]
    eng.methods[("StringIO", "__exit__")] = lambda e, s, recv, a, k: [(None, s)]


def block_world(ctx, eng, st, mode, bg_known, W, H):
    cs = ctx.ns("term_image._ctlseqs")
    bl = ctx.ns("term_image.image.block")
    for k_ in ("SGR_BG_DIRECT", "SGR_DEFAULT", "SGR_FG_DIRECT"):
        eng.genv[k_] = bl.d[k_]          # the names as imported into block.py
    eng.genv["LOWER_PIXEL"], eng.genv["UPPER_PIXEL"] = bl.d["LOWER_PIXEL"], bl.d["UPPER_PIXEL"]
    stringio_world(eng)
    bgr, bgg, bgb = z3.Ints("bg_r bg_g bg_b")
    st.pc += [z3.And(c >= 0, c <= 255) for c in (bgr, bgg, bgb)]
    bg = (bgr, bgg, bgb) if bg_known else None
    eng.genv["get_fg_bg_colors"] = Fn(lambda e, s, a, k: [((None, bg), s)])
    on_kitty = z3.Bool("on_kitty")
    self_ = st.new("BlockImage", {})
    eng.methods[("BlockImage", "_is_on_kitty")] = lambda e, s, recv, a, k: [(on_kitty, s)]
    eng.methods[("BlockImage", "_get_render_size")] = lambda e, s, recv, a, k: [((W, 2 * H), s)]
    st.ghost["closed"] = []

    def get_render_data(e, s, recv, a, k):
        s = e.fork(s)
        im = s.new("PIL.Image", {"mode": mode, "from": a[0].id})
        n = W * (2 * H)
        rgb = SeqV(n, lambda i, st_: (PR(to_z3(i)), PG(to_z3(i)), PB(to_z3(i))), "list")
        al = SeqV(n, lambda i, st_: (PA(to_z3(i)) if mode == "RGBA" else 255), "list")
        return [((im, rgb, al), s)]
    eng.methods[("BlockImage", "_get_render_data")] = get_render_data

    def close_image(e, s, recv, a, k):
        s = e.fork(s)
        s.ghost["closed"] = s.ghost["closed"] + [a[0].id]
        return [(None, s)]
    eng.methods[("BlockImage", "_close_image")] = close_image
    return self_, on_kitty, bg


def in_range(v):
    return z3.And(*[z3.And(to_z3(c) >= 0, to_z3(c) <= 255) for c in v])


def block_unit(mode, bg_known):
    @unit("C01", f"block:BlockImage._render_image[{mode},bg={'known' if bg_known else 'unknown'}]")
    def u(ctx, mode=mode, bg_known=bg_known):
        eng = ctx.engine(f"C01/block._render_image[{mode},bg={'known' if bg_known else 'unknown'}]", "C01")
        eng.default_replay = "C01.render"
        st = State()
        W, H, r0, TW, TH, B0 = z3.Ints("W H r0 TW TH bottom0")
        st.pc += [W >= 1, H >= 1, TW >= W, TH >= H, r0 >= 0, B0 >= r0 + H - 1, B0 - TH + 1 <= r0] + px_range_axioms()
        self_, on_kitty, bg = block_world(ctx, eng, st, mode, bg_known, W, H)

        def line_pred(a, final):
            # each line of the render covers exactly W cells with printed glyphs, nothing skipped, nothing moved backwards
            return z3.And(a["line_w"] == W, a["written"] == W, a["skipped"] == 0, z3.Not(a["irregular"]))
        st.ghost["vt"] = vt_new(r0, z3.IntVal(0), B0, TW, TH, line_pred=line_pred)
        img0 = st.new("PIL.Image", {"mode": "src"})

        def outer_inv(s, i, N):
            g = s.ghost["vt"]
            return z3.And(N == H, to_z3(s.lookup("row_no")) == 2 * i, z3.BoolVal(g["parser"] == "ground"),
                          to_z3(g["nl"]) == z3.If(i < H, i, H - 1), to_z3(g["line_idx"]) == to_z3(g["nl"]),
                          to_z3(g["row"]) == r0 + to_z3(g["nl"]), to_z3(g["bottom"]) == B0,
                          z3.Implies(i < H, z3.And(to_z3(g["line_w"]) == 0, to_z3(g["col"]) == 0, to_z3(g["written"]) == 0)),
                          z3.Implies(i == H, z3.And(to_z3(g["line_w"]) == W, to_z3(g["written"]) == W, z3.Not(g["last_nl"]), to_z3(g["col"]) == W)),
                          to_z3(g["skipped"]) == 0, z3.Not(g["irregular"]))

        def inner_inv(s, j, N):
            g = s.ghost["vt"]
            n = to_z3(s.lookup("n"))
            parts = [N == W, to_z3(g["line_w"]) + n == j, n >= 0, to_z3(g["col"]) == to_z3(g["line_w"]), to_z3(g["written"]) == to_z3(g["line_w"]),
                     to_z3(g["skipped"]) == 0, z3.Not(g["irregular"]), z3.BoolVal(g["parser"] == "ground"),
                     to_z3(g["nl"]) == s.ghost["cur_line"], to_z3(g["line_idx"]) == s.ghost["cur_line"], to_z3(g["row"]) == r0 + s.ghost["cur_line"],
                     to_z3(g["bottom"]) == B0, to_z3(s.lookup("row_no")) == 2 * s.ghost["cur_line"] + 2, s.ghost["cur_line"] >= 0, s.ghost["cur_line"] < H,
                     in_range(s.lookup("cluster1")), in_range(s.lookup("cluster2"))]
            return z3.And(*parts)

        def T3(nm):
            return tuple(z3.Int(f"{nm}.{c}") for c in "rgb")

        def havoc_inner(e, s, tag):
            for nm in ("n", "a_cluster1", "a_cluster2", "a1", "a2"):
                if nm in s.env:
                    s.env[nm] = z3.Int(f"{nm}!{tag}")
            for nm in ("cluster1", "cluster2", "px1", "px2"):
                if nm in s.env:
                    s.env[nm] = T3(f"{nm}!{tag}")
            havoc_vt(s, tag)

        def havoc_outer(e, s, tag):
            havoc_inner(e, s, tag)
            for nm in ("n", "a_cluster1", "a_cluster2", "a1", "a2"):
                s.env[nm] = z3.Int(f"{nm}!{tag}")
            for nm in ("cluster1", "cluster2", "px1", "px2"):
                s.env[nm] = T3(f"{nm}!{tag}")
            s.env["row_no"] = z3.Int(f"row_no!{tag}")
            s.env["rgb_pair"] = s.env["a_pair"] = Opaque("pair")

        class Outer(LoopSpec):
            pass
        outer = LoopSpec(outer_inv, havoc_outer)
        inner = LoopSpec(inner_inv, havoc_inner)
        eng.invariants = {1: outer, 2: inner}
        # the inner invariant refers to the line being built: captured when the outer loop body starts
        orig_for_symbolic = eng.for_symbolic

        def for_symbolic(n, seq, s0, lid, spec):
            if lid == 2:
                s0.ghost["cur_line"] = to_z3(s0.ghost["vt"]["nl"])
            return orig_for_symbolic(n, seq, s0, lid, spec)
        eng.for_symbolic = for_symbolic
        st.env.update(self=self_, img=img0, alpha=Opaque("alpha"), frame=z3.Bool("frame"), split_cells=False)
        outs = run_function(eng, ctx.fn(BLOCK, "BlockImage._render_image"), st)
        for kind, val, s in outs:
            if kind != "return":
                eng.oblige(f"no-exception:{getattr(val, 'cls', kind)}", s, False, kind="raise")
                continue
            g = val.f["vt"]
            vt = VT(eng, s, line_pred=line_pred)
            vt.g = dict(g)
            vt.finish()       # the last line is complete at the end of the string
            eng.oblige("H-1-newlines,no-trailing-newline,attributes-reset,cursor-after-last-cell-of-last-line", s,
                       z3.And(to_z3(g["nl"]) == H - 1, z3.Not(g["last_nl"]), g["sgr_default"], to_z3(g["row"]) == r0 + H - 1, to_z3(g["col"]) == W,
                              to_z3(g["bottom"]) == B0, z3.BoolVal(g["parser"] == "ground")), kind="post")
        return eng.obligations
    return u


for _mode in ("RGB", "RGBA"):
    for _bg in (True, False):
        block_unit(_mode, _bg)
