"""BlockImage._render_image under contract (C01 geometry, C02 pixels)."""
import z3
from pyvc.runner import unit, run_function
from pyvc.values import *
from pyvc.engine import State, LoopSpec
from pyvc import tstr
from pyvc.tstr import TS, VT, vt_new
from .common import *

BLOCK = "image/block.py"
I = z3.IntSort()
# pixel data returned by _get_render_data: flattened row-major lists (assumed contract, see TRUSTED)
PR, PG, PB, PA = (z3.Function(n, I, I) for n in ("px_r", "px_g", "px_b", "px_a"))


def px_range_axioms():
    return []


def px_facts(i):
    """assumed contract of the pixel lists, instantiated where an element is read: components in [0, 255], alpha bi-level"""
    return [z3.And(f(i) >= 0, f(i) <= 255) for f in (PR, PG, PB)] + [z3.Or(PA(i) == 0, PA(i) == 255)]


VT_NUM = ("row", "col", "bottom", "nl", "line_idx", "line_w", "written", "skipped", "blk_col", "blk_line", "blk_id", "ech_to")
VT_BOOL = ("sgr_default", "irregular", "last_nl", "vis", "sync")


def havoc_vt(s, tag, key="vt"):
    g = dict(s.ghost[key])
    for nm in VT_NUM:
        g[nm] = z3.Int(f"vt_{nm}!{tag}")
    for nm in VT_BOOL:
        g[nm] = z3.Bool(f"vt_{nm}!{tag}")
    g["log"] = []
    s.ghost[key] = g
    return g


def stringio_world(eng):
    """io.StringIO as an accumulator of terminal effects: what is written is interpreted at once by the VT machine"""
    def new(e, s, a, k):
        s = e.fork(s)
        return [(s.new("StringIO", {}), s)]

    def write(e, s, recv, a, k):
        s = e.fork(s)
        vt = VT(e, s, tag=f"buf.write")
        vt.feed(a[0])
        vt.commit()
        return [(None, s)]
    eng.genv["io"] = Namespace("io", {"StringIO": Fn(new)})
    eng.methods[("StringIO", "write")] = write
    eng.methods[("StringIO", "getvalue")] = lambda e, s, recv, a, k: [(Rec("rendered", {"vt": dict(s.ghost["vt"])}), s)]
    eng.methods[("StringIO", "__enter__")] = lambda e, s, recv, a, k: [(recv, s)]
    eng.methods[("StringIO", "__exit__")] = lambda e, s, recv, a, k: [(None, s)]


def block_world(ctx, eng, st, mode, bg_known, W, H):
    cs = ctx.ns("term_image._ctlseqs")
    bl = ctx.ns("term_image.image.block")
    for k_ in ("SGR_BG_DIRECT", "SGR_DEFAULT", "SGR_FG_DIRECT"):
        eng.genv[k_] = bl.d[k_]          # the names as imported into block.py
    eng.genv["LOWER_PIXEL"], eng.genv["UPPER_PIXEL"] = bl.d["LOWER_PIXEL"], bl.d["UPPER_PIXEL"]
    stringio_world(eng)
    bgr, bgg, bgb = z3.Ints("bg_r bg_g bg_b")
    st.pc += [z3.And(c >= 0, c <= 255) for c in (bgr, bgg, bgb)]
    bg = (bgr, bgg, bgb) if bg_known else None
    eng.genv["get_fg_bg_colors"] = Fn(lambda e, s, a, k: [((None, bg), s)])
    on_kitty = z3.Bool("on_kitty")
    self_ = st.new("BlockImage", {})
    eng.methods[("BlockImage", "_is_on_kitty")] = lambda e, s, recv, a, k: [(on_kitty, s)]
    eng.methods[("BlockImage", "_get_render_size")] = lambda e, s, recv, a, k: [((W, 2 * H), s)]
    st.ghost["closed"] = []

    def get_render_data(e, s, recv, a, k):
        s = e.fork(s)
        im = s.new("PIL.Image", {"mode": mode, "from": a[0].id})
        n = W * (2 * H)
        def rgb_elem(i, st_):
            i = to_z3(i)
            st_.pc += px_facts(i)
            return (PR(i), PG(i), PB(i))

        def a_elem(i, st_):
            i = to_z3(i)
            st_.pc += px_facts(i)
            return PA(i) if mode == "RGBA" else 255
        rgb = SeqV(n, rgb_elem, "list")
        al = SeqV(n, a_elem, "list")
        return [((im, rgb, al), s)]
    eng.methods[("BlockImage", "_get_render_data")] = get_render_data

    def getextrema(e, s, recv, a, k):
        # per band (min, max) of the IMAGE handed back - whose alpha band is the un-rounded one: with round_alpha only the list `a` is
        # thresholded to 0 / 255, so the band's minimum says nothing about whether `a` holds a zero
        n = e.sym_int("band_extrema")
        bands = []
        for i in range(4 if s.H(recv).get("mode") == "RGBA" else 3):
            lo, hi = z3.Int(f"{n}_lo{i}"), z3.Int(f"{n}_hi{i}")
            s.pc += [lo >= 0, lo <= hi, hi <= 255]
            bands.append((lo, hi))
        return [(tuple(bands), s)]
    eng.methods[("PIL.Image", "getextrema")] = getextrema

    def close_image(e, s, recv, a, k):
        s = e.fork(s)
        s.ghost["closed"] = s.ghost["closed"] + [a[0].id]
        return [(None, s)]
    eng.methods[("BlockImage", "_close_image")] = close_image
    return self_, on_kitty, bg


def in_range(v):
    return z3.And(*[z3.And(to_z3(c) >= 0, to_z3(c) <= 255) for c in v])


CELL_KEYS = [h + c for h in ("up", "lo") for c in "drgb"]


def fresh_cells(tag):
    return {k: z3.Array(f"cell_{k}!{tag}", I, z3.BoolSort() if k.endswith("d") else I) for k in CELL_KEYS}


def block_unit(mode, bg_known, pixels=False):
    prop = "C02" if pixels else "C01"

    c11 = mode == "RGB" and bg_known and not pixels       # the frame-image bookkeeping is checked on one variant (it does not depend on the others)

    @unit((prop, "C11") if c11 else prop, f"block:BlockImage._render_image[{mode},bg={'known' if bg_known else 'unknown'}]" + ("/pixels" if pixels else ""))
    def u(ctx, mode=mode, bg_known=bg_known):
        eng = ctx.engine(f"{prop}/block._render_image[{mode},bg={'known' if bg_known else 'unknown'}]", prop)
        eng.default_replay = "C02.render" if pixels else "C01.render_block"
        st = State()
        W, H, r0, TW, TH, B0 = z3.Ints("W H r0 TW TH bottom0")
        st.pc += [W >= 1, H >= 1, TW >= W, TH >= H, r0 >= 0, B0 >= r0 + H - 1, B0 - TH + 1 <= r0] + px_range_axioms()
        self_, on_kitty, bg = block_world(ctx, eng, st, mode, bg_known, W, H)

        def line_pred(a, final):
            # each line of the render covers exactly W cells with printed glyphs, nothing skipped, nothing moved backwards
            return z3.And(a["line_w"] == W, a["written"] == W, a["skipped"] == 0, z3.Not(a["irregular"]))
        alpha_mode = mode == "RGBA"
        bgc = bg

        def adj(r):
            return z3.If(r < 255, r + 1, r - 1)

        def half_ok(cells, half, col, k, kitty_case):
            """the half-cell at column `col` shows pixel k: terminal background if transparent, else its RGB value;
            on kitty a background colour equal to the terminal's own background may be emitted with r +- 1"""
            d, r_, g_, b_ = (cells[half + c][col] for c in "drgb")
            transparent = PA(k) == 0 if alpha_mode else z3.BoolVal(False)
            exact = z3.And(z3.Not(d), r_ == PR(k), g_ == PG(k), b_ == PB(k))
            alt = z3.And(z3.Not(d), r_ == adj(PR(k)), g_ == PG(k), b_ == PB(k))
            # kitty leaves a cell background that equals its own default background unpainted (it is then whatever shows through the
            # window): there the colour has to be nudged by one step of red - required, not merely tolerated
            return z3.If(transparent, d, z3.If(kitty_case, alt, exact))

        def cell_ok(cells, col, k1, k2):
            if bgc is not None:
                eq_bg = lambda k: z3.And(PR(k) == bgc[0], PG(k) == bgc[1], PB(k) == bgc[2])
                opaque = lambda k: (PA(k) != 0) if alpha_mode else z3.BoolVal(True)
                case_lo = z3.And(on_kitty, eq_bg(k2), opaque(k1), opaque(k2))
                case_up = z3.And(case_lo, PR(k1) == PR(k2), PG(k1) == PG(k2), PB(k1) == PB(k2))
            else:
                case_lo = case_up = z3.BoolVal(False)
            return z3.And(half_ok(cells, "up", col, k1, case_up), half_ok(cells, "lo", col, k2, case_lo))

        def same_cluster(s, k1, k2):
            """pixel pair (k1, k2) looks the same as the current cluster (transparent pixels compare equal whatever their RGB)"""
            c1, c2 = s.lookup("cluster1"), s.lookup("cluster2")
            def same(k, c, ac):
                rgb_eq = z3.And(PR(k) == to_z3(c[0]), PG(k) == to_z3(c[1]), PB(k) == to_z3(c[2]))
                if not alpha_mode:
                    return rgb_eq
                ac = to_z3(ac)
                return z3.If(PA(k) == 0, ac == 0, z3.And(ac != 0, rgb_eq))
            return z3.And(same(k1, c1, s.lookup("a_cluster1")), same(k2, c2, s.lookup("a_cluster2")))

        def line_pred_px(a, final, g=None):
            return None

        extra = {}
        if pixels:
            extra = dict(cells=fresh_cells("init"), glyphs={" ": 0, "\u2580": 1, "\u2584": 2},
                         fg=(z3.BoolVal(True), z3.IntVal(0), z3.IntVal(0), z3.IntVal(0)), bg=(z3.BoolVal(True), z3.IntVal(0), z3.IntVal(0), z3.IntVal(0)))
        st.ghost["vt"] = vt_new(r0, z3.IntVal(0), B0, TW, TH, line_pred=line_pred, **extra)
        img0 = st.new("PIL.Image", {"mode": "src"})

        def outer_inv(s, i, N):
            g = s.ghost["vt"]
            return z3.And(N == H, to_z3(s.lookup("row_no")) == 2 * i, z3.BoolVal(g["parser"] == "ground"),
                          to_z3(g["nl"]) == z3.If(i < H, i, H - 1), to_z3(g["line_idx"]) == to_z3(g["nl"]),
                          to_z3(g["row"]) == r0 + to_z3(g["nl"]), to_z3(g["bottom"]) == B0,
                          z3.Implies(i < H, z3.And(to_z3(g["line_w"]) == 0, to_z3(g["col"]) == 0, to_z3(g["written"]) == 0)),
                          z3.Implies(i == H, z3.And(to_z3(g["line_w"]) == W, to_z3(g["written"]) == W, z3.Not(g["last_nl"]), to_z3(g["col"]) == W)),
                          to_z3(g["skipped"]) == 0, z3.Not(g["irregular"]))

        def px_outer(s, i, N):
            cells = dict(s.ghost["vt"]["cells"])
            base = 2 * W * (i - 1)
            # the line completed last shows exactly its two pixel rows (proved for every i, hence for every line)
            return [lambda c: z3.Implies(z3.And(i >= 1, 0 <= c, c < W), cell_ok(cells, c, base + c, base + W + c))]

        def px_inner(s, j, N):
            g = s.ghost["vt"]
            cells = dict(g["cells"])
            B = 2 * W * s.ghost["cur_line"]
            pos = to_z3(g["line_w"])
            frozen = s.fork()      # the cluster variables as they are now
            return [lambda k: z3.Implies(z3.And(0 <= k, k < pos), cell_ok(cells, k, B + k, B + W + k)),
                    lambda k: z3.Implies(z3.And(pos <= k, k < j), z3.And(same_cluster(frozen, B + k, B + W + k), *px_facts(B + k), *px_facts(B + W + k)))]

        def inner_inv(s, j, N):
            g = s.ghost["vt"]
            n = to_z3(s.lookup("n"))
            parts = [N == W, to_z3(g["line_w"]) + n == j, n >= 0, to_z3(g["col"]) == to_z3(g["line_w"]), to_z3(g["written"]) == to_z3(g["line_w"]),
                     to_z3(g["skipped"]) == 0, z3.Not(g["irregular"]), z3.BoolVal(g["parser"] == "ground"),
                     to_z3(g["nl"]) == s.ghost["cur_line"], to_z3(g["line_idx"]) == s.ghost["cur_line"], to_z3(g["row"]) == r0 + s.ghost["cur_line"],
                     to_z3(g["bottom"]) == B0, to_z3(s.lookup("row_no")) == 2 * s.ghost["cur_line"] + 2, s.ghost["cur_line"] >= 0, s.ghost["cur_line"] < H,
                     in_range(s.lookup("cluster1")), in_range(s.lookup("cluster2"))]
            return z3.And(*parts)

        def T3(nm):
            return tuple(z3.Int(f"{nm}.{c}") for c in "rgb")

        def havoc_inner(e, s, tag):
            for nm in ("n", "a_cluster1", "a_cluster2", "a1", "a2"):
                if nm in s.env:
                    s.env[nm] = z3.Int(f"{nm}!{tag}")
            for nm in ("cluster1", "cluster2", "px1", "px2"):
                if nm in s.env:
                    s.env[nm] = T3(f"{nm}!{tag}")
            g = havoc_vt(s, tag)
            if pixels:
                g["cells"] = fresh_cells(tag)
                g["fg"] = (z3.Bool(f"fgd!{tag}"),) + tuple(z3.Int(f"fg{c}!{tag}") for c in "rgb")
                g["bg"] = (z3.Bool(f"bgd!{tag}"),) + tuple(z3.Int(f"bg{c}!{tag}") for c in "rgb")

        def havoc_outer(e, s, tag):
            havoc_inner(e, s, tag)
            for nm in ("n", "a_cluster1", "a_cluster2", "a1", "a2"):
                s.env[nm] = z3.Int(f"{nm}!{tag}")
            for nm in ("cluster1", "cluster2", "px1", "px2"):
                s.env[nm] = T3(f"{nm}!{tag}")
            s.env["row_no"] = z3.Int(f"row_no!{tag}")
            s.env["rgb_pair"] = s.env["a_pair"] = Opaque("pair")

        class Outer(LoopSpec):
            pass
        outer = LoopSpec(outer_inv, havoc_outer, qinv=px_outer if pixels else None)
        inner = LoopSpec(inner_inv, havoc_inner, qinv=px_inner if pixels else None)
        eng.invariants = {1: outer, 2: inner}
        # the inner invariant refers to the line being built: captured when the outer loop body starts
        orig_for_symbolic = eng.for_symbolic

        def for_symbolic(n, seq, s0, lid, spec):
            if lid == 2:
                s0.ghost["cur_line"] = to_z3(s0.ghost["vt"]["nl"])
            return orig_for_symbolic(n, seq, s0, lid, spec)
        eng.for_symbolic = for_symbolic
        st.env.update(self=self_, img=img0, alpha=Opaque("alpha"), frame=z3.Bool("frame"), split_cells=False)
        if c11:
            frame_image_world(eng, "BlockImage")
        outs = run_function(eng, ctx.fn(BLOCK, "BlockImage._render_image"), st)
        if c11:
            frame_image_exits(eng, outs, img0, z3.Bool("frame"))
        for kind, val, s in outs:
            if kind != "return":
                eng.oblige(f"no-exception:{getattr(val, 'cls', kind)}", s, False, kind="raise")
                continue
            g = val.f["vt"]
            vt = VT(eng, s, line_pred=line_pred)
            vt.g = dict(g)
            vt.finish()       # the last line is complete at the end of the string
            eng.oblige("H-1-newlines,no-trailing-newline,attributes-reset,cursor-after-last-cell-of-last-line", s,
                       z3.And(to_z3(g["nl"]) == H - 1, z3.Not(g["last_nl"]), g["sgr_default"], to_z3(g["row"]) == r0 + H - 1, to_z3(g["col"]) == W,
                              to_z3(g["bottom"]) == B0, z3.BoolVal(g["parser"] == "ground")), kind="post")
        return eng.obligations
    return u


for _mode in ("RGB", "RGBA"):
    for _bg in (True, False):
        block_unit(_mode, _bg)
        block_unit(_mode, _bg, pixels=True)


# ------------------------------------------------------------------------------------------------ split_cells=True: the cell structure
# What the urwid canvas relies on (C17): with split_cells=True every line of the render is W cells, each an optional colour prefix
# followed by one glyph, separated by exactly one NUL (none after the last cell); the first cell of every line has a prefix; and a
# prefix is self-contained for its run: it sets the background (or resets all attributes) and, unless the run's glyph is a blank,
# the foreground too.  Checked on the real body with a monitor of the writes instead of the VT machine.
def block_cells_unit(mode, bg_known):
    @unit("C17", f"block:BlockImage._render_image[{mode},bg={'known' if bg_known else 'unknown'},split_cells]/cell-structure")
    def u(ctx, mode=mode, bg_known=bg_known):
        eng = ctx.engine(f"C17/block._render_image[{mode},bg={'known' if bg_known else 'unknown'},split_cells]", "C17")
        eng.default_replay = {"C17": "C17.content", "C01": "C01.render_block"}
        eng.inv_props = ("C17",)
        st = State()
        W, H = z3.Ints("W H")
        st.pc += [W >= 1, H >= 1]
        self_, on_kitty, bg = block_world(ctx, eng, st, mode, bg_known, W, H)
        bl = ctx.ns("term_image.image.block")
        BGP, FGP, RESET = bl.d["SGR_BG_DIRECT"].split("%")[0], bl.d["SGR_FG_DIRECT"].split("%")[0], bl.d["SGR_DEFAULT"]
        UP, LO = bl.d["UPPER_PIXEL"], bl.d["LOWER_PIXEL"]
        st.ghost["m"] = dict(cells=z3.IntVal(0), lines=z3.IntVal(0), pending_nul=z3.BoolVal(False), bg=z3.BoolVal(False), fg=z3.BoolVal(False),
                             in_prefix=z3.BoolVal(False), first_has_prefix=z3.BoolVal(True), done=z3.BoolVal(False))

        def ob(e, s, name, goal):
            e.oblige(name, s, goal, kind="structure")

        def write(e, s, recv, a, k):
            s = e.fork(s)
            m = dict(s.ghost["m"])
            x = a[0]
            items = list(x.items) if isinstance(x, TS) else [x]
            first = items[0] if items else ""
            at_boundary = z3.Or(m["pending_nul"], m["cells"] == 0)

            def start_prefix():
                # the first SGR after glyphs opens a new prefix: what the previous one had set is no longer relied on
                m["bg"] = z3.If(m["in_prefix"], m["bg"], False)
                m["fg"] = z3.If(m["in_prefix"], m["fg"], False)
                m["in_prefix"] = z3.BoolVal(True)
            if isinstance(first, str) and first.startswith(RESET) and len(items) == 1:
                rest = first[len(RESET):]
                if rest == "\n":
                    ob(e, s, "line-complete:W-cells,no-NUL-after-the-last-cell", z3.And(m["cells"] == W, z3.Not(m["pending_nul"])))
                    m.update(cells=z3.IntVal(0), lines=m["lines"] + 1, pending_nul=z3.BoolVal(False), in_prefix=z3.BoolVal(False), bg=z3.BoolVal(False), fg=z3.BoolVal(False))
                elif rest == "":
                    # either the reset that ends the last line, or the prefix of a transparent run
                    is_end = z3.And(m["cells"] == W, z3.Not(m["pending_nul"]))
                    ob(e, s, "attribute-reset-only-at-a-cell-boundary-or-after-the-last-cell", z3.Or(at_boundary, is_end))
                    start_prefix()
                    m["bg"], m["fg"] = z3.BoolVal(True), z3.BoolVal(True)      # default colours: nothing earlier shows through
                    m["done"] = is_end
                else:
                    raise Unsupported(f"text after a reset: {rest!r}")
            elif isinstance(first, str) and first.startswith(BGP) and all(not isinstance(p_, (tstr.Rep, tstr.Text)) for p_ in items):
                ob(e, s, "colour-sequence-only-at-a-cell-boundary", at_boundary)
                start_prefix()
                m["bg"] = z3.BoolVal(True)
            elif isinstance(first, str) and first.startswith(FGP) and all(not isinstance(p_, (tstr.Rep, tstr.Text)) for p_ in items):
                ob(e, s, "colour-sequence-only-at-a-cell-boundary", at_boundary)
                start_prefix()
                m["fg"] = z3.BoolVal(True)
            elif len(items) == 1 and isinstance(first, tstr.Rep):
                body = first.ts.items
                if not (len(body) == 1 and isinstance(body[0], str) and len(body[0]) == 2 and body[0][1] == "\0" and body[0][0] in (" ", UP, LO)):
                    raise Unsupported(f"repeated text {body!r}")
                glyph = body[0][0]
                n = to_z3(as_arith(first.n))
                ob(e, s, "cells-follow-a-NUL-or-start-the-line", z3.Implies(n >= 1, at_boundary))
                ob(e, s, "prefix-self-contained:background-set(or-reset),foreground-set-unless-the-glyph-is-a-blank", z3.Implies(n >= 1, z3.And(m["bg"], z3.BoolVal(glyph == " ") if glyph == " " else m["fg"])))
                ob(e, s, "first-cell-of-a-line-has-a-prefix", z3.Implies(z3.And(n >= 1, m["cells"] == 0), m["in_prefix"]))
                m["cells"] = m["cells"] + Max(n, 0)
                m["pending_nul"] = z3.If(n >= 1, True, m["pending_nul"])
                m["in_prefix"] = z3.If(n >= 1, False, m["in_prefix"])
            elif first == "" and len(items) <= 1:
                pass
            else:
                raise Unsupported(f"write of {x!r} in split-cell mode")
            s.ghost["m"] = m
            return [(None, s)]
        eng.methods[("StringIO", "write")] = write
        eng.methods[("StringIO", "tell")] = lambda e, s, recv, a, k: [(Rec("bufpos", {"back": 0}), s)]
        eng.theory |= {"bufpos"}
        eng.methods[("bufpos", "__binop__")] = lambda e, s, v, a, k: [(Rec("bufpos", {"back": v.f["back"] + a[0]}), s)] if not is_sym(a[0]) else _unsup_pos()

        def _unsup_pos():
            raise Unsupported("symbolic buffer position")

        def seek(e, s, recv, a, k):
            p_ = a[0]
            if not (isinstance(p_, Rec) and p_.name == "bufpos" and p_.f["back"] == 1):
                raise Unsupported("seek to another position")
            s = e.fork(s)
            m = dict(s.ghost["m"])
            ob(e, s, "the-character-dropped-at-the-end-of-a-line-is-the-NUL-after-its-last-cell", m["pending_nul"])
            m["pending_nul"] = z3.BoolVal(False)
            s.ghost["m"] = m
            return [(None, s)]
        eng.methods[("StringIO", "seek")] = seek
        eng.methods[("StringIO", "getvalue")] = lambda e, s, recv, a, k: [(Rec("rendered", {"m": dict(s.ghost["m"])}), s)]
        img0 = st.new("PIL.Image", {"mode": "src"})

        def outer_inv(s, i, N):
            m = s.ghost["m"]
            return z3.And(N == H, to_z3(s.lookup("row_no")) == 2 * i, m["lines"] == z3.If(i < H, i, H - 1),
                          z3.Implies(i < H, z3.And(m["cells"] == 0, z3.Not(m["pending_nul"]), z3.Not(m["in_prefix"]))),
                          z3.Implies(i == H, z3.And(m["cells"] == W, z3.Not(m["pending_nul"]))))

        def inner_inv(s, j, N):
            m = s.ghost["m"]
            n = to_z3(s.lookup("n"))
            return z3.And(N == W, m["cells"] + n == j, n >= 0, m["cells"] >= 0, m["pending_nul"] == (m["cells"] > 0),
                          m["lines"] == s.ghost["cur_line"], to_z3(s.lookup("row_no")) == 2 * s.ghost["cur_line"] + 2, s.ghost["cur_line"] >= 0, s.ghost["cur_line"] < H,
                          in_range(s.lookup("cluster1")), in_range(s.lookup("cluster2")))

        def T3(nm):
            return tuple(z3.Int(f"{nm}.{c}") for c in "rgb")

        def havoc_inner(e, s, tag):
            for nm in ("n", "a_cluster1", "a_cluster2", "a1", "a2"):
                if nm in s.env:
                    s.env[nm] = z3.Int(f"{nm}!{tag}")
            for nm in ("cluster1", "cluster2", "px1", "px2"):
                if nm in s.env:
                    s.env[nm] = T3(f"{nm}!{tag}")
            s.ghost["m"] = dict(cells=z3.Int(f"m_cells!{tag}"), lines=z3.Int(f"m_lines!{tag}"), pending_nul=z3.Bool(f"m_nul!{tag}"), bg=z3.Bool(f"m_bg!{tag}"),
                                fg=z3.Bool(f"m_fg!{tag}"), in_prefix=z3.Bool(f"m_inp!{tag}"), first_has_prefix=z3.BoolVal(True), done=z3.BoolVal(False))

        def havoc_outer(e, s, tag):
            havoc_inner(e, s, tag)
            for nm in ("n", "a_cluster1", "a_cluster2", "a1", "a2"):
                s.env[nm] = z3.Int(f"{nm}!{tag}")
            for nm in ("cluster1", "cluster2", "px1", "px2"):
                s.env[nm] = T3(f"{nm}!{tag}")
            s.env["row_no"] = z3.Int(f"row_no!{tag}")
            s.env["rgb_pair"] = s.env["a_pair"] = Opaque("pair")
        import ast as _ast
        fnode = ctx.fn(BLOCK, "BlockImage._render_image")
        loops = sorted([x for x in _ast.walk(fnode) if isinstance(x, _ast.For)], key=lambda x: (x.lineno, x.col_offset))
        KNOWN = {"n", "a_cluster1", "a_cluster2", "a1", "a2", "cluster1", "cluster2", "px1", "px2", "row_no", "rgb_pair", "a_pair", "no_alpha", "r", "g", "b"}
        specs = {}
        for lid, (hv, iv) in enumerate(((havoc_outer, outer_inv), (havoc_inner, inner_inv)), 1):
            unknown = unknown_loop_locals(fnode, loops[lid - 1], KNOWN) if lid <= len(loops) else {}

            def hv2(e, s, tag, hv=hv, unknown=unknown):
                hv(e, s, tag)
                return havoc_unknown_locals(e, [s], unknown, tag)
            specs[lid] = LoopSpec(iv, hv2)
        eng.invariants = specs
        orig_for_symbolic = eng.for_symbolic

        def for_symbolic(n, seq, s0, lid, spec):
            if lid == 2:
                s0.ghost["cur_line"] = to_z3(s0.ghost["m"]["lines"])
            return orig_for_symbolic(n, seq, s0, lid, spec)
        eng.for_symbolic = for_symbolic
        st.env.update(self=self_, img=img0, alpha=Opaque("alpha"), frame=z3.Bool("frame"), split_cells=True)
        outs = run_function(eng, fnode, st)
        for kind, val, s in outs:
            if kind != "return":
                eng.oblige(f"no-exception:{getattr(val, 'cls', kind)}", s, False, kind="raise")
                continue
            m = val.f["m"]
            eng.oblige("H-lines-of-W-cells,ends-with-the-reset-after-the-last-cell", s, z3.And(m["lines"] == H - 1, m["cells"] == W, z3.Not(m["pending_nul"]), m["done"]), kind="post")
        return eng.obligations
    return u


for _mode in ("RGB", "RGBA"):
    for _bg in (True, False):
        block_cells_unit(_mode, _bg)
