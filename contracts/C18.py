"""C18 - The urwid screen never leaves a ghost image behind (library-side bookkeeping)."""
import z3
from pyvc.runner import unit, run_function
from pyvc.values import *
from pyvc.engine import State, LoopSpec
from .common import *

URW = "widget/_urwid.py"
TRUSTED = ["urwid's canvas/shard structure describes the screen; kitty / konsole honour delete-by-z-index and delete-all",
           "Python dispatches `__class__` inside a method to the defining class (UrwidImage)"]
ASSUMPTIONS = []
NOT_DECIDED = ["that the shard walk of _ti_clear_images computes exactly the on-screen image views (urwid geometry is assumed)"]

LIM = 2 ** 31
IntSet = z3.ArraySort(z3.IntSort(), z3.BoolSort())


def rank(z):
    """position in the documented progression 1, -1, 2, -2, ..."""
    return If(z > 0, 2 * z - 2, -2 * z - 1)


def alloc_inv(free, live, nxt):
    z = z3.Int("z!q")
    return z3.And(
        nxt != 0, z3.Or(z3.And(nxt > 0, nxt <= LIM), z3.And(nxt < 0, nxt > -LIM)),
        z3.ForAll([z], z3.Implies(z3.Or(free[z], live[z]),
                                  z3.And(z != 0, z < LIM, z > -LIM, rank(z) < rank(nxt), z3.Not(z3.And(free[z], live[z]))))))


def alloc_world(eng, st):
    free, live = z3.Const("free0", IntSet), z3.Const("live0", IntSet)
    nxt = z3.Int("next0")
    fs = st.new("zset", {"set": free})
    cls = st.new("UrwidImageCls", {"_ti_free_z_indexes": fs, "_ti_next_z_index": nxt})
    st.ghost["live"] = live

    def zs_bool(e, s, recv, a, k):
        b = e.sym_bool("free_nonempty")
        z = z3.Int("z!b")
        s.pc.append(b == z3.Exists([z], s.H(recv)["set"][z]))
        return [(b, s)]

    def zs_pop(e, s, recv, a, k):
        s = e.fork(s)
        x = e.sym_int("popped")
        z = z3.Int("z!p")
        out = []
        for nonempty, s2 in e.split(s, z3.Exists([z], s.H(recv)["set"][z])):
            if not nonempty:
                e.raise_("KeyError", s2)
                continue
            s2.pc.append(s2.H(recv)["set"][x])        # pop returns *some* element of the set
            s2.H(recv)["set"] = z3.Store(s2.H(recv)["set"], x, False)
            out.append((x, s2))
        return out

    def zs_add(e, s, recv, a, k):
        s = e.fork(s)
        s.H(recv)["set"] = z3.Store(s.H(recv)["set"], to_z3(a[0]), True)
        return [(None, s)]
    eng.methods[("zset", "__bool__")] = zs_bool
    eng.methods[("zset", "pop")] = zs_pop
    eng.methods[("zset", "add")] = zs_add
    eng.closed_classes.add("zset")
    eng.genv["__class__"] = cls
    eng.genv["UrwidImageError"] = ClassV("UrwidImageError")
    eng.exc_parents["UrwidImageError"] = "TermImageError"
    return cls, fs, free, live, nxt


@unit("C18", "_urwid:UrwidImage._ti_get_z_index")
def u_get_z(ctx):
    eng = ctx.engine("C18/_ti_get_z_index", "C18")
    st = State()
    cls, fs, free, live, nxt = alloc_world(eng, st)
    st.pc.append(alloc_inv(free, live, nxt))
    outs = run_function(eng, ctx.fn(URW, "UrwidImage._ti_get_z_index"), st)
    z = z3.Int("z!e")

    def ensure(v, s):
        v = to_z3(v)
        free2, nxt2 = s.H(fs)["set"], to_z3(s.H(cls)["_ti_next_z_index"])
        live2 = z3.Store(live, v, True)          # the caller stores it in the new widget
        return z3.And(z3.Not(live[v]),            # pairwise distinct among live widgets
                      v != 0, v < LIM, v > -LIM,  # signed 32-bit range excluding its minimum (and the reserved 0)
                      alloc_inv(free2, live2, nxt2),
                      # a recycled index comes from the free set, a new one is the documented next value
                      z3.Or(z3.And(free[v], nxt2 == nxt), z3.And(v == nxt, rank(nxt2) == rank(nxt) + 1, free2 == free)))
    # exhaustion raises exactly when nothing is free and the progression is used up
    return exits(eng, outs, ensure=ensure,
                 raises={"UrwidImageError": lambda s: z3.And(z3.Not(z3.Exists([z], free[z])), nxt == LIM)},
                 replay="C18.alloc")


@unit("C18", "_urwid:UrwidImage.__del__")
def u_del(ctx):
    eng = ctx.engine("C18/UrwidImage.__del__", "C18")
    obs = []
    for has in (True, False):
        eng.label = f"C18/UrwidImage.__del__[has_z={has}]"
        st = State()
        cls, fs, free, live, nxt = alloc_world(eng, st)
        st.pc.append(alloc_inv(free, live, nxt))
        zi = z3.Int("self_z")
        fields = {}
        if has:
            fields["_ti_z_index"] = zi
            st.pc.append(live[zi])
        self_ = st.new("UrwidImage", fields)
        st.env["self"] = self_
        outs = run_function(eng, ctx.fn(URW, "UrwidImage.__del__"), st)

        def ensure(v, s, has=has):
            free2, nxt2 = s.H(fs)["set"], to_z3(s.H(cls)["_ti_next_z_index"])
            if not has:
                return z3.And(free2 == free, nxt2 == nxt)
            live2 = z3.Store(live, zi, False)
            return z3.And(free2[zi], alloc_inv(free2, live2, nxt2), nxt2 == nxt)   # the index is returned for reuse
        exits(eng, outs, ensure=ensure, replay="C18.alloc")
    return eng.obligations


@unit("C18", "_urwid:disguise-arithmetic")
def u_disguise(ctx):
    """every clear changes the hidden suffix of an image line: (s+1) mod 3 != s, and the sum canvas+widget state changes"""
    eng = ctx.engine("C18/_ti_change_disguise", "C18")
    for who, qual in (("widget", "UrwidImage._ti_change_disguise"), ("canvas", "UrwidImageCanvas._ti_change_disguise")):
        eng.label = f"C18/{qual}"
        st = State()
        s0 = z3.Int("state0")
        st.pc += [s0 >= 0, s0 <= 2]
        o = st.new("obj", {"_ti_disguise_state": s0})
        st.env["self" if who == "widget" else "cls"] = o
        outs = run_function(eng, ctx.fn(URW, qual), st)

        def ensure(v, s):
            s1 = to_z3(s.H(o)["_ti_disguise_state"])
            other = z3.Int("other_state")
            return z3.And(s1 >= 0, s1 <= 2, s1 != s0,
                          # suffix "\b " * (canvas + widget) differs before/after whatever the other state is
                          z3.Implies(z3.And(other >= 0, other <= 2), s1 + other != s0 + other))
        exits(eng, outs, ensure=ensure)
    return eng.obligations
