"""C18 - The urwid screen never leaves a ghost image behind (library-side bookkeeping)."""
import z3
from pyvc.runner import unit, run_function
from pyvc.values import *
from pyvc.engine import State, LoopSpec, _b_isinstance as BUILTIN_ISINSTANCE
from .common import *

URW = "widget/_urwid.py"
TRUSTED = ["urwid's canvas/shard structure describes the screen; kitty / konsole honour delete-by-z-index and delete-all",
           "Python dispatches `__class__` inside a method to the defining class (UrwidImage)"]
ASSUMPTIONS = []
NOT_DECIDED = ["that the shard walk of _ti_clear_images computes exactly the on-screen image views: not proved (urwid's shard geometry is outside the engine); a BOUNDED search against urwid's own shard functions stands in (bounded_standins)"]

LIM = 2 ** 31
IntSet = z3.ArraySort(z3.IntSort(), z3.BoolSort())


def rank(z):
    """position in the documented progression 1, -1, 2, -2, ..."""
    return If(z > 0, 2 * z - 2, -2 * z - 1)


def alloc_inv(free, live, nxt):
    z = z3.Int("z!q")
    return z3.And(
        nxt != 0, z3.Or(z3.And(nxt > 0, nxt <= LIM), z3.And(nxt < 0, nxt > -LIM)),
        z3.ForAll([z], z3.Implies(z3.Or(free[z], live[z]),
                                  z3.And(z != 0, z < LIM, z > -LIM, rank(z) < rank(nxt), z3.Not(z3.And(free[z], live[z]))))))


def alloc_world(eng, st):
    free, live = z3.Const("free0", IntSet), z3.Const("live0", IntSet)
    nxt = z3.Int("next0")
    fs = st.new("zset", {"set": free})
    cls = st.new("UrwidImageCls", {"_ti_free_z_indexes": fs, "_ti_next_z_index": nxt})
    st.ghost["live"] = live

    def zs_bool(e, s, recv, a, k):
        b = e.sym_bool("free_nonempty")
        z = z3.Int("z!b")
        s.pc.append(b == z3.Exists([z], s.H(recv)["set"][z]))
        return [(b, s)]

    def zs_pop(e, s, recv, a, k):
        s = e.fork(s)
        x = e.sym_int("popped")
        z = z3.Int("z!p")
        out = []
        for nonempty, s2 in e.split(s, z3.Exists([z], s.H(recv)["set"][z])):
            if not nonempty:
                e.raise_("KeyError", s2)
                continue
            s2.pc.append(s2.H(recv)["set"][x])        # pop returns *some* element of the set
            s2.H(recv)["set"] = z3.Store(s2.H(recv)["set"], x, False)
            out.append((x, s2))
        return out

    def zs_add(e, s, recv, a, k):
        s = e.fork(s)
        s.H(recv)["set"] = z3.Store(s.H(recv)["set"], to_z3(a[0]), True)
        return [(None, s)]
    eng.methods[("zset", "__bool__")] = zs_bool
    eng.methods[("zset", "pop")] = zs_pop
    eng.methods[("zset", "add")] = zs_add
    eng.closed_classes.add("zset")
    eng.genv["__class__"] = cls
    eng.genv["UrwidImageError"] = ClassV("UrwidImageError")
    eng.exc_parents["UrwidImageError"] = "TermImageError"
    return cls, fs, free, live, nxt


@unit("C18", "_urwid:UrwidImage._ti_get_z_index")
def u_get_z(ctx):
    eng = ctx.engine("C18/_ti_get_z_index", "C18")
    st = State()
    cls, fs, free, live, nxt = alloc_world(eng, st)
    st.pc.append(alloc_inv(free, live, nxt))
    fn_ = ctx.fn(URW, "UrwidImage._ti_get_z_index")
    if fn_.args.args:
        # written as a classmethod: called on a SUBCLASS of UrwidImage (documented as supported); reads fall through to the
        # class, writes create a subclass attribute - the shared allocator state must still be the one that is updated
        sub = st.new("UrwidImageSubclass", {"@inherit": {k_: (True, v_) for k_, v_ in st.H(cls).items()}})
        st.env[fn_.args.args[0].arg] = sub
    outs = run_function(eng, fn_, st)
    z = z3.Int("z!e")

    def ensure(v, s):
        v = to_z3(v)
        free2, nxt2 = s.H(fs)["set"], to_z3(s.H(cls)["_ti_next_z_index"])
        live2 = z3.Store(live, v, True)          # the caller stores it in the new widget
        return z3.And(z3.Not(live[v]),            # pairwise distinct among live widgets
                      v != 0, v < LIM, v > -LIM,  # signed 32-bit range excluding its minimum (and the reserved 0)
                      alloc_inv(free2, live2, nxt2),
                      # a recycled index comes from the free set, a new one is the documented next value
                      z3.Or(z3.And(free[v], nxt2 == nxt), z3.And(v == nxt, rank(nxt2) == rank(nxt) + 1, free2 == free)))
    # exhaustion raises exactly when nothing is free and the progression is used up
    return exits(eng, outs, ensure=ensure,
                 raises={"UrwidImageError": lambda s: z3.And(z3.Not(z3.Exists([z], free[z])), nxt == LIM)},
                 replay="C18.alloc")


@unit("C18", "_urwid:UrwidImage.__init__")
def u_widget_init(ctx):
    """A kitty image widget renders with exactly the z-index it was allocated - whatever the format specifier said - because
    clear_images / _ti_clear_images delete placements by the widget's own z-index; other styles take no z-index at all."""
    obs = []
    for style in ("kitty", "text", "other"):
        for spec_has_z in ((False, True) if style == "kitty" else (False,)):
            for konsole in ((False, True) if style == "kitty" else (False,)):
                eng = ctx.engine(f"C18/UrwidImage.__init__[{style},spec-z={spec_has_z},konsole={konsole}]", "C18")
                eng.default_replay = "C18.widget_z_index"
                st = State()
                eng.classes.update({"KittyImage": ("GraphicsImage",), "GraphicsImage": ("BaseImage",), "BlockImage": ("TextImage",),
                                    "TextImage": ("BaseImage",), "ITerm2Image": ("GraphicsImage",), "BaseImage": (), "UrwidImage": ("Widget",), "Widget": ()})
                for c in ("KittyImage", "TextImage", "BaseImage"):
                    eng.genv[c] = ClassV(c)
                eng.genv["Size"] = ctx.ns("term_image.image.common").d["Size"]
                eng.genv["urwid"] = Namespace("urwid", {"Widget": ClassV("Widget")})
                eng.genv["super"] = Fn(lambda e, s, a, k: [(Rec("super", {}), s)])
                eng.attrs[("super", "__init__")] = lambda e, s, v: [(Fn(lambda e2, s2, a, k: [(None, s2)]), s)]
                zspec, zalloc = z3.Int("z_from_spec"), z3.Int("z_allocated")
                items = {"z_index": zspec} if spec_has_z else {}
                style_args = st.new("dict", {"@items": dict(items)})
                image = st.new({"kitty": "KittyImage", "text": "BlockImage", "other": "ITerm2Image"}[style], {})
                for c in ("KittyImage", "BlockImage", "ITerm2Image"):
                    eng.methods[(c, "_check_format_spec")] = lambda e, s, recv, a, k: [(("h", 0, "v", 0, Opaque("alpha"), style_args), s)]
                st.ghost["allocs"] = 0

                def get_z(e, s, recv, a, k):
                    s = e.fork(s)
                    s.ghost["allocs"] += 1
                    return [(zalloc, s)]
                eng.methods[("UrwidImage", "_ti_get_z_index")] = get_z
                eng.genv["get_terminal_name_version"] = Fn(lambda e, s, a, k, konsole=konsole: [(("konsole" if konsole else "kitty", "1"), s)])
                eng.genv["arg_type_error"] = Fn(lambda e, s, a, k: [(ExcVal("TypeError"), s)])
                self_ = st.new("UrwidImage", {})
                st.env.update(self=self_, image=image, format_spec="", upscale=False)
                outs = run_function(eng, ctx.fn(URW, "UrwidImage.__init__"), st)
                for kind, val, s in outs:
                    if kind == "raise":
                        eng.oblige(f"no-exception:{val.cls}", s, False, kind="raise")
                        continue
                    h = s.H(self_)
                    sa = h.get("_ti_style_args")
                    it = s.H(sa)["@items"] if isinstance(sa, Ref) else None
                    if it is None:
                        raise Unsupported("widget does not keep its style arguments in _ti_style_args")
                    if style == "kitty":
                        goal = And("z_index" in it and Eq(it["z_index"], zalloc), "_ti_z_index" in h and Eq(h["_ti_z_index"], zalloc), s.ghost["allocs"] == 1,
                                   # konsole keeps blending (less flicker); everywhere else overlapped images are cleared per line
                                   ("blend" not in it) if konsole else (it.get("blend") is False))
                        eng.oblige("kitty-widget-renders-with-its-own-allocated-z-index(the-one-it-is-deleted-by)", s, goal, kind="post")
                    else:
                        eng.oblige("no-z-index-taken-by-other-styles", s, And(s.ghost["allocs"] == 0, "_ti_z_index" not in h, "z_index" not in it,
                                                                               (it.get("split_cells") is True) if style == "text" else True), kind="post")
                obs += eng.obligations
    return obs


@unit("C18", "_urwid:UrwidImage.__del__")
def u_del(ctx):
    eng = ctx.engine("C18/UrwidImage.__del__", "C18")
    obs = []
    for has in (True, False):
        eng.label = f"C18/UrwidImage.__del__[has_z={has}]"
        st = State()
        cls, fs, free, live, nxt = alloc_world(eng, st)
        st.pc.append(alloc_inv(free, live, nxt))
        zi = z3.Int("self_z")
        fields = {}
        if has:
            fields["_ti_z_index"] = zi
            st.pc.append(live[zi])
        self_ = st.new("UrwidImage", fields)
        st.env["self"] = self_
        outs = run_function(eng, ctx.fn(URW, "UrwidImage.__del__"), st)

        def ensure(v, s, has=has):
            free2, nxt2 = s.H(fs)["set"], to_z3(s.H(cls)["_ti_next_z_index"])
            if not has:
                return z3.And(free2 == free, nxt2 == nxt)
            live2 = z3.Store(live, zi, False)
            return z3.And(free2[zi], alloc_inv(free2, live2, nxt2), nxt2 == nxt)   # the index is returned for reuse
        exits(eng, outs, ensure=ensure, replay="C18.alloc")
    return eng.obligations


@unit("C18", "_urwid:disguise-arithmetic")
def u_disguise(ctx):
    """every clear changes the hidden suffix of an image line: (s+1) mod 3 != s, and the sum canvas+widget state changes"""
    eng = ctx.engine("C18/_ti_change_disguise", "C18")
    for who, qual in (("widget", "UrwidImage._ti_change_disguise"), ("canvas", "UrwidImageCanvas._ti_change_disguise")):
        eng.label = f"C18/{qual}"
        st = State()
        s0 = z3.Int("state0")
        st.pc += [s0 >= 0, s0 <= 2]
        o = st.new("obj", {"_ti_disguise_state": s0})
        st.env["self" if who == "widget" else "cls"] = o
        outs = run_function(eng, ctx.fn(URW, qual), st)

        def ensure(v, s):
            s1 = to_z3(s.H(o)["_ti_disguise_state"])
            other = z3.Int("other_state")
            return z3.And(s1 >= 0, s1 <= 2, s1 != s0,
                          # suffix "\b " * (canvas + widget) differs before/after whatever the other state is
                          z3.Implies(z3.And(other >= 0, other <= 2), s1 + other != s0 + other))
        exits(eng, outs, ensure=ensure)
    return eng.obligations


# ------------------------------------------------------------------------------------------------ screen: bracket, clear hooks
def screen_world(ctx, eng, st):
    cs = ctx.ns("term_image._ctlseqs")
    ns = ctx.ns("term_image.widget._urwid")
    for k in ("BEGIN_SYNCED_UPDATE", "END_SYNCED_UPDATE"):
        eng.genv[k] = ns.d[k]
    eng.genv["ctlseqs"] = cs
    st.ghost["out"] = []          # what the screen wrote / did, in order
    self_ = st.new("UrwidImageScreen", {"_ti_screen_canv": None, "_ti_image_cviews": None})
    eng.closed_classes.add("UrwidImageScreen")

    def log(tag):
        def f(e, s, recv, a, k):
            s = e.fork(s)
            s.ghost["out"] = s.ghost["out"] + [(tag,) + tuple(a)]
            return [(None, s)]
        return f
    eng.methods[("UrwidImageScreen", "write")] = log("write")
    eng.methods[("UrwidImageScreen", "flush")] = log("flush")
    eng.methods[("UrwidImageScreen", "clear_images")] = log("clear_images")
    return self_, log


def base_call(eng, name, may_raise=True):
    """super().<name>(...): urwid's own implementation (assumed: may write, may raise)"""
    def attr(e, s, v):
        def f(e2, s2, a, k):
            s2 = e2.fork(s2)
            s2.ghost["out"] = s2.ghost["out"] + [("base." + name,)]
            if may_raise:
                for exc in ("Boom", "KeyboardInterrupt"):
                    e2.raise_(ExcVal(exc), e2.fork(s2), fault=True)
            return [(Opaque("base result"), s2)]
        return [(Fn(f), s)]
    eng.attrs[("super", name)] = attr
    eng.genv["super"] = Fn(lambda e, s, a, k: [(Rec("super", {}), s)])


@unit("C18", "_urwid:UrwidImageScreen.draw_screen")
def u_draw_screen(ctx):
    obs = []
    for same_canvas in (True, False):
        eng = ctx.engine(f"C18/draw_screen[{'same' if same_canvas else 'new'}-canvas]", "C18")
        eng.default_replay = "C18.screen"
        st = State()
        self_, log = screen_world(ctx, eng, st)
        base_call(eng, "draw_screen")
        canvas = st.new("canvas", {})
        if same_canvas:
            st.H(self_)["_ti_screen_canv"] = canvas

        def clear_imgs(e, s, recv, a, k):
            s = e.fork(s)
            s.ghost["out"] = s.ghost["out"] + [("_ti_clear_images",)]
            for exc in ("Boom", "KeyboardInterrupt"):
                e.raise_(ExcVal(exc), e.fork(s), fault=True)
            return [(None, s)]
        eng.methods[("UrwidImageScreen", "_ti_clear_images")] = clear_imgs
        st.env.update(self=self_, maxres=Opaque("maxres"), canvas=canvas)
        outs = run_function(eng, ctx.fn(URW, "UrwidImageScreen.draw_screen"), st)
        BEGIN, END = eng.genv["BEGIN_SYNCED_UPDATE"], eng.genv["END_SYNCED_UPDATE"]
        for kind, val, s in outs:
            out = s.ghost["out"]
            writes = [x for x in out if x[0] == "write"]
            ok = (len(out) >= 3 and out[0] == ("write", BEGIN) and out[-2] == ("write", END) and out[-1] == ("flush",)
                  and all(x[1] not in (BEGIN, END) for x in writes[1:-1]))
            eng.oblige(f"all-output-of-a-redraw-bracketed-by-begin/end-synchronized-update,then-flushed@{kind}", s, ok, kind="exit")
            names = [x[0] for x in out]
            if "base.draw_screen" in names:
                idx = names.index("base.draw_screen")
                cleared_before = "_ti_clear_images" in names[:idx]
                eng.oblige("stale-images-handled-before-the-new-content-is-drawn(new-canvas)", s, cleared_before or same_canvas, kind="exit")
            if kind in ("return", "normal"):
                eng.oblige("remembers-the-canvas-just-drawn", s, s.H(self_)["_ti_screen_canv"] is canvas, kind="post")
        obs += eng.obligations
    return obs


@unit("C18", "_urwid:UrwidImageScreen.clear/_start/_stop")
def u_clear_hooks(ctx):
    obs = []
    for name in ("clear", "_start", "_stop"):
        eng = ctx.engine(f"C18/UrwidImageScreen.{name}", "C18")
        eng.default_replay = "C18.hooks"
        st = State()
        self_, log = screen_world(ctx, eng, st)
        base_call(eng, name, may_raise=False)
        CANV0, VIEWS0 = st.new("canvas", {}), st.new("viewset", {})
        st.H(self_)["_ti_screen_canv"], st.H(self_)["_ti_image_cviews"] = CANV0, VIEWS0
        # the set of tracked views may be empty while images are on the terminal (an image widget that is itself the top widget is
        # drawn but never tracked: only composite canvases are walked) - the hooks clear regardless
        eng.methods[("viewset", "__bool__")] = lambda e, s, recv, a, k: [(z3.Bool("some_view_is_tracked"), s)]
        eng.methods[("viewset", "__len__")] = lambda e, s, recv, a, k: [(z3.If(z3.Bool("some_view_is_tracked"), e.sym_int("n_views_pos"), 0), s)]
        st.env.update(self=self_, args=(), kwargs=st.new("dict", {"@items": {}}))
        outs = run_function(eng, ctx.fn(URW, f"UrwidImageScreen.{name}"), st)
        for kind, val, s in outs:
            names = [x[0] for x in s.ghost["out"]]
            eng.oblige("images-cleared(once)-and-the-base-implementation-runs", s, And(kind != "raise", names.count("clear_images") == 1, names.count("base." + name) == 1), kind="post")
            # data invariant of the screen: `_ti_image_cviews` describes the canvas remembered in `_ti_screen_canv` (draw_screen
            # only recomputes it for a new canvas object); these hooks must leave both alone
            h = s.H(self_)
            eng.oblige("bookkeeping(canvas,views)-untouched", s, And(h["_ti_screen_canv"] is CANV0, h["_ti_image_cviews"] is VIEWS0), kind="post")
            if name == "_stop":
                eng.oblige("images-cleared-before-the-screen-is-stopped", s, names.index("clear_images") < names.index("base._stop") if "clear_images" in names and "base._stop" in names else False, kind="post")
        obs += eng.obligations
    return obs


@unit("C18", "_urwid:UrwidImageScreen.clear_images")
def u_clear_images(ctx):
    obs = []
    cs = ctx.ns("term_image._ctlseqs")
    for n_widgets in (0, 2):
        for now in (True, False):
            for supported in (True, False):
                eng = ctx.engine(f"C18/clear_images[widgets={n_widgets},now={now},kitty-supported={supported}]", "C18")
                eng.default_replay = "C18.screen"
                st = State()
                self_, log = screen_world(ctx, eng, st)
                del eng.methods[("UrwidImageScreen", "clear_images")]
                eng.genv.update(UTIL_ERRS)
                eng.classes.update({"UrwidImage": (), "KittyImage": ("GraphicsImage",), "BlockImage": ()})
                eng.genv.update(UrwidImage=ClassV("UrwidImage"))
                kitty_cls = st.new("KittyCls", {"forced_support": False})
                eng.methods[("KittyCls", "is_supported")] = lambda e, s, recv, a, k: [(supported, s)]
                eng.genv["KittyImage"] = kitty_cls
                eng.isinstance_alias = {"KittyCls": "KittyImage"}
                canvcls = st.new("CanvasCls", {"disguise_changes": 0})

                def canv_disguise(e, s, recv, a, k):
                    s = e.fork(s)
                    s.H(recv)["disguise_changes"] += 1
                    return [(None, s)]
                eng.methods[("CanvasCls", "_ti_change_disguise")] = canv_disguise
                eng.genv["UrwidImageCanvas"] = canvcls

                def write_tty(e, s, a, k):
                    s = e.fork(s)
                    s.ghost["out"] = s.ghost["out"] + [("write_tty", a[0])]
                    return [(None, s)]
                eng.genv["write_tty"] = Fn(write_tty)
                z1, z2 = z3.Ints("z_index_1 z_index_2")
                w1 = st.new("UrwidImage", {"_ti_image": st.new("KittyImage", {}), "_ti_z_index": z1, "disguise_changes": 0})
                w2 = st.new("UrwidImage", {"_ti_image": st.new("BlockImage", {}), "disguise_changes": 0})

                def w_disguise(e, s, recv, a, k):
                    s = e.fork(s)
                    s.H(recv)["disguise_changes"] += 1
                    return [(None, s)]
                eng.methods[("UrwidImage", "_ti_change_disguise")] = w_disguise
                widgets = (w1, w2)[:n_widgets]
                st.env.update(self=self_, widgets=widgets, now=now)
                outs = run_function(eng, ctx.fn(URW, "UrwidImageScreen.clear_images"), st)
                from pyvc.tstr import TS, IntDec
                for kind, val, s in outs:
                    out = s.ghost["out"]
                    if kind == "raise":
                        eng.oblige(f"no-exception:{val.cls}", s, False, kind="raise")
                        continue
                    if not supported:
                        eng.oblige("nothing-sent-when-the-protocol-is-unsupported", s, out == [], kind="post")
                        continue
                    sent = [x for x in out if x[0] in ("write", "write_tty")]
                    via = "write_tty" if now else "write"
                    if n_widgets == 0:
                        exp = cs.d["KITTY_DELETE_ALL_b"] if now else cs.d["KITTY_DELETE_ALL"]
                        ok = len(sent) == 1 and sent[0][0] == via and sent[0][1] == exp and s.H(canvcls)["disguise_changes"] == 1
                        eng.oblige("delete-all-sent(immediately-iff-now)-and-every-canvas-forced-to-redraw", s, ok, kind="post")
                    else:
                        # only the kitty widget: delete by its z-index, and force its lines to be redrawn
                        ok = len(sent) == 1 and sent[0][0] == via and s.H(w1)["disguise_changes"] == 1 and s.H(w2)["disguise_changes"] == 0
                        data = sent[0][1] if sent else None
                        zs = [p.v for p in data.items if isinstance(p, IntDec)] if isinstance(data, TS) else []
                        eng.oblige("delete-by-z-index-of-exactly-the-kitty-widgets", s, And(ok, len(zs) == 1 and Eq(zs[0], z1)), kind="post")
                obs += eng.obligations
    return obs


@unit("C18", "_urwid:UrwidImageScreen._ti_clear_images[top-canvas-not-composite]")
def u_ti_clear_noncomposite(ctx):
    """the top-level canvas is not a CompositeCanvas (e.g. a SolidFill top widget): no image can be on the new screen, so EVERY
    image shown before - kitty images and, on Konsole, iterm2 images, which only a delete-all removes - is deleted and the
    bookkeeping set is emptied, without an exception"""
    obs = []
    for had_images in (True, False):
        for supported in (True, False, "forced"):
            # "forced": kitty support is forced on a terminal that reports neither protocol (the documented escape hatch): images are
            # drawn, so they have to be tracked and deleted exactly as on a terminal that supports them
            forced = supported == "forced"
            eng = ctx.engine(f"C18/_ti_clear_images[non-composite,had-images={had_images},supported={supported}]", "C18")
            eng.default_replay = "C18.screen"
            st = State()
            self_, log = screen_world(ctx, eng, st)
            eng.classes.update({"CompositeCanvas": (), "SolidCanvas": ()})
            eng.genv["urwid"] = Namespace("urwid", {"CompositeCanvas": ClassV("CompositeCanvas")})
            kitty_cls = st.new("KittyCls", {"forced_support": forced})
            eng.methods[("KittyCls", "is_supported")] = lambda e, s, recv, a, k, supported=supported: [(supported is True, s)]
            eng.genv["KittyImage"] = kitty_cls
            eng.genv["ITerm2Image"] = st.new("KittyCls", {"forced_support": False}) if forced else kitty_cls
            eng.genv["get_terminal_name_version"] = Fn(lambda e, s, a, k, forced=forced: [(("wezterm" if forced else "konsole", "22"), s)])
            # `_ti_image_cviews` is a frozenset (see __init__ and the last line of this function): immutable.  Its elements: D views,
            # each of a kitty image or (Konsole) of an iterm2 image
            D = z3.Int("n_views_before")
            st.pc.append(D >= 1 if had_images else D == 0)
            K = z3.Function("view_is_kitty", z3.IntSort(), z3.BoolSort())
            WID = z3.Function("view_widget", z3.IntSort(), z3.IntSort())

            def elem(i, s_):
                i = to_z3(i)
                widget = Rec("widget", {"wid": WID(i), "_ti_image": Rec("image", {"kitty": K(i)})})
                return (Rec("canvas", {"widget_info": (widget, "size", "focus")}), "row", "col", "trim")
            cviews = SeqV(D, elem, "frozenset")
            st.H(self_)["_ti_image_cviews"] = cviews
            st.H(self_)["_ti_screen_canv"] = st.new("SolidCanvas", {})
            eng.genv["frozenset"] = Fn(lambda e, s, a, k: [_new_fs(e, s)] if not a else _unsup("frozenset(x)"))
            eng.genv["isinstance"] = Fn(lambda e, s, a, k: [(a[0].f["kitty"], s)] if isinstance(a[0], Rec) and a[0].name == "image"
                                        else BUILTIN_ISINSTANCE(e, s, a, k))
            orig_iter = eng.iter_concrete

            def iter_concrete(v, s_, orig_iter=orig_iter):
                if isinstance(v, SeqV) and is_sym(v.length):
                    return [("ALL", v)]          # `f(*collection)`: all of its elements as arguments
                return orig_iter(v, s_)
            eng.iter_concrete = iter_concrete
            st.env["self"] = self_
            outs = run_function(eng, ctx.fn(URW, "UrwidImageScreen._ti_clear_images"), st)
            for kind, val, s in outs:
                if kind == "raise":
                    eng.oblige(f"no-exception:{val.cls}", s, False, kind="raise")
                    continue
                calls = [x for x in s.ghost["out"] if x[0] == "clear_images"]
                cur = s.H(self_)["_ti_image_cviews"]
                empty_now = isinstance(cur, Ref) and s.H(cur).get("len") == 0
                if supported and had_images:      # (True or "forced")
                    j0 = eng.sym_int("j_sk")
                    if any(c[1:] == () for c in calls):
                        everything = True          # a delete-all
                    elif calls and all(len(c) == 2 and isinstance(c[1], tuple) and c[1][0] == "ALL" for c in calls):
                        # delete by widget: removes kitty images only (clear_images unit) - sufficient only if every view was one
                        everything = z3.Implies(z3.And(0 <= j0, j0 < D), K(j0))
                    else:
                        everything = False
                    eng.oblige("previously-shown-images-deleted(all-of-them,whatever-their-style)-and-forgotten", s, And(everything, empty_now), kind="post",
                               replay="C18.noncomposite")
                elif supported:
                    eng.oblige("nothing-to-delete", s, len(calls) == 0, kind="post")
            obs += eng.obligations
    return obs


def _new_fs(e, s):
    s = e.fork(s)
    return s.new("frozenset", {"len": 0}), s


@unit("C18", "_urwid:UrwidImageScreen._ti_clear_images[delete-what-disappeared]")
def u_ti_clear_tail(ctx):
    """the tail of _ti_clear_images (from `kitty_widgets = []`): given the views on screen before (`self._ti_image_cviews`) and
    the views of the canvas about to be drawn (`image_cviews`, computed by the shard walk, assumed), every image that is no
    longer at its previous position is deleted before the new content is shown, and the bookkeeping is replaced"""
    import ast as _ast
    fn = ctx.fn(URW, "UrwidImageScreen._ti_clear_images")
    idx = [i for i, st_ in enumerate(fn.body) if isinstance(st_, _ast.Assign) and getattr(st_.targets[0], "id", None) == "kitty_widgets"]
    if len(idx) != 1:
        raise Unsupported("_ti_clear_images: the statement `kitty_widgets = []` was not found exactly once")
    start = idx[0]
    while start > 0 and isinstance(fn.body[start - 1], (_ast.Assign, _ast.AnnAssign, _ast.Expr)) and "image_cviews" in _ast.unparse(fn.body[start - 1]):
        start -= 1          # simple statements about the two view sets that sit between the shard walk and `kitty_widgets = []`
    tail = fn.body[start:]
    eng = ctx.engine("C18/_ti_clear_images[tail]", "C18")
    eng.default_replay = "C18.overlay"
    eng.number_loops(fn)
    st = State()
    self_, log = screen_world(ctx, eng, st)
    D = z3.Int("n_disappeared")            # |old - new|
    st.pc.append(D >= 0)
    K = z3.Function("disappeared_is_kitty", z3.IntSort(), z3.BoolSort())
    WID = z3.Function("disappeared_widget", z3.IntSort(), z3.IntSort())
    old = st.new("viewset", {"which": "old"})
    new = st.new("viewset", {"which": "new"})
    st.H(self_)["_ti_image_cviews"] = old

    VF = lambda nm: z3.Function("disappeared_view_" + nm, z3.IntSort(), z3.IntSort())
    eng.attrs[("canvas", "cols")] = lambda e, s, v: [(Fn(lambda e2, s2, a, k: [(v.f["cw"], s2)]), s)]
    eng.attrs[("canvas", "rows")] = lambda e, s, v: [(Fn(lambda e2, s2, a, k: [(v.f["ch"], s2)]), s)]

    def elem(i, s_):
        i = to_z3(i)
        s_.ghost["Qterms"] = list(s_.ghost.get("Qterms", [])) + [WID(i)]
        widget = Rec("widget", {"wid": WID(i), "_ti_image": Rec("image", {"kitty": K(i)})})
        canv = Rec("canvas", {"widget_info": (widget, "size", "focus"), "cw": VF("canvas_cols")(i), "ch": VF("canvas_rows")(i)})
        # (canvas, row, col, left trim, top trim, columns, rows): any geometry - a view that vanished was on the terminal whatever
        # part of its canvas it showed (a view trimmed at the top shows real image lines)
        return (canv, VF("row")(i), VF("col")(i), VF("trim_left")(i), VF("trim_top")(i), VF("cols")(i), VF("rows")(i))
    def other_elem(i, s_):
        i = to_z3(i)
        K2, W2 = z3.Function("other_is_kitty", z3.IntSort(), z3.BoolSort()), z3.Function("other_widget", z3.IntSort(), z3.IntSort())
        widget = Rec("widget", {"wid": W2(i), "_ti_image": Rec("image", {"kitty": K2(i)})})
        return (Rec("canvas", {"widget_info": (widget, "size", "focus")}), "row", "col", "trim")

    def vs_sub(e, s, recv, a, k):
        if recv is old and a[0] is new:
            return [(SeqV(D, elem, "set-difference"), s)]
        n2 = e.sym_int("n_other_difference")          # some other set: unrelated to what disappeared
        s.pc.append(n2 >= 0)
        return [(SeqV(n2, other_elem, "set-difference"), s)]
    eng.methods[("viewset", "__sub__")] = vs_sub
    eng.methods[("viewset", "__or__")] = lambda e, s, recv, a, k: [(e.fork(s).new("viewset", {"which": "union"}), s)] if False else [_new_vs(e, s)]
    eng.genv["KittyImage"] = ClassV("KittyImage")
    eng.genv["isinstance"] = Fn(lambda e, s, a, k: [(a[0].f["kitty"], s)] if isinstance(a[0], Rec) and a[0].name == "image" else _unsup("isinstance"))
    eng.genv["frozenset"] = Fn(lambda e, s, a, k: [(Rec("frozenset_of", {"src": a[0]}), s)])
    kw = st.new("symlist", {"len": z3.IntVal(0)})
    eng.genv["__list__"] = None
    orig_ev_list = eng.ev_List

    def ev_List(e_, s_):
        if not e_.elts:
            s_ = eng.fork(s_)
            r = s_.new("symlist", {"len": z3.IntVal(0), "inlist": z3.K(z3.IntSort(), z3.BoolVal(False))})
            return [(r, s_)]
        return orig_ev_list(e_, s_)
    eng.ev_List = ev_List

    def sl_append(e, s, recv, a, k):
        s = e.fork(s)
        h = s.H(recv)
        w = to_z3(a[0].f["wid"])
        # clear_images() advances a widget's disguise once per occurrence in its argument list (and the disguise has three states):
        # a widget listed three times would look unchanged to urwid although its images were deleted
        e.oblige("each-widget-listed-once(its-disguise-changes-by-exactly-one-step)", s, z3.Not(h["inlist"][w]), kind="safety")
        h["inlist"] = z3.Store(h["inlist"], w, True)
        h["len"] = h["len"] + 1
        return [(None, s)]
    eng.methods[("symlist", "append")] = sl_append

    def sl_clear(e, s, recv, a, k):
        s = e.fork(s)
        s.H(recv).update(len=z3.IntVal(0), inlist=z3.K(z3.IntSort(), z3.BoolVal(False)))
        return [(None, s)]
    eng.methods[("symlist", "clear")] = sl_clear
    eng.methods[("symlist", "__bool__")] = lambda e, s, recv, a, k: [(s.H(recv)["len"] > 0, s)]
    def sl_contains(e, s, recv, a, k):
        h = s.H(recv)
        r = h["inlist"][to_z3(a[0].f["wid"])]
        s = e.fork(s, z3.Implies(r, h["len"] >= 1))       # a list with a member is not empty
        return [(r, s)]
    eng.methods[("symlist", "__contains__")] = sl_contains

    def clear_images(e, s, recv, a, k):
        for exc in ("KeyboardInterrupt", "OSError"):
            e.raise_(ExcVal(exc), e.fork(s), fault=True)        # writing the delete commands may be interrupted / fail: nothing deleted
        s = e.fork(s)
        s.ghost["out"] = s.ghost["out"] + [("clear_images", a)]
        return [(None, s)]
    eng.methods[("UrwidImageScreen", "clear_images")] = clear_images
    # `self.clear_images(*kitty_widgets)`: star-argument of the symbolic list
    orig_iter = eng.iter_concrete

    def iter_concrete(v, s_):
        if isinstance(v, Ref) and v.cls == "symlist":
            return [("ALL", v)]
        return orig_iter(v, s_)
    eng.iter_concrete = iter_concrete
    from pyvc.engine import LoopSpec
    loop_id = [eng.loop_ids[(n_.lineno, n_.col_offset)] for n_ in _ast.walk(fn) if isinstance(n_, _ast.For) and n_ in tail]
    if len(loop_id) != 1:
        raise Unsupported("tail loop not found")

    def inv(s, i, N):
        lst = s.lookup("kitty_widgets")
        return z3.And(N == D, s.H(lst)["len"] >= 0, s.H(lst)["len"] <= i, z3.Implies(i >= 1, s.H(lst)["len"] >= 1), z3.BoolVal(s.ghost["out"] == []))

    def qinv(s, i, N):
        lst = s.H(s.lookup("kitty_widgets"))
        # every view looked at so far was a kitty image's, and its widget is in the list
        return [lambda j: z3.Implies(z3.And(0 <= j, j < i), z3.And(K(j), lst["inlist"][WID(j)])),
                lambda w: z3.Implies(lst["len"] == 0, z3.Not(lst["inlist"][w]))]        # an empty list has no member

    def havoc(e, s, tag):
        s.H(s.lookup("kitty_widgets"))["len"] = z3.Int(f"kwlen!{tag}")
        s.H(s.lookup("kitty_widgets"))["inlist"] = z3.Array(f"kwin!{tag}", z3.IntSort(), z3.BoolSort())
        for nm in ("canv", "_", "widget"):
            s.env[nm] = Opaque(nm)
    eng.invariants = {loop_id[0]: LoopSpec(inv, havoc, qinv=qinv, on_break=lambda s: s)}
    st.env.update(self=self_, image_cviews=new)
    outs = eng.run(tail, st)
    for kind, val, s in outs:
        if kind == "raise":
            if s.ghost.get("faulted") and val.cls in ("KeyboardInterrupt", "OSError"):
                # the deletes did not go out: the views stay on the books, so that the next redraw still deletes what has disappeared
                eng.oblige(f"deletes-not-written({val.cls}):views-still-on-the-books", s, s.H(self_)["_ti_image_cviews"] is old, kind="raise")
                continue
            eng.oblige(f"no-exception:{val.cls}", s, False, kind="raise")
            continue
        out = s.ghost["out"]
        j0 = eng.sym_int("j_sk")
        s2 = s.fork()
        s2.pc += [to_z3(q(j0)) for q in s.ghost.get("Q", [])]
        calls = [x for x in out if x[0] == "clear_images"]
        if len(calls) == 1 and calls[0][1] == ():
            # delete-all: always sufficient ("a single clear_images() takes care of all images")
            eng.oblige("delete-all-only-when-something-disappeared", s2, D >= 1, kind="post")
        elif len(calls) == 1 and len(calls[0][1]) == 1 and calls[0][1][0][0] == "ALL":
            lst = s2.H(calls[0][1][0][1])
            eng.oblige("delete-by-z-index-for-every-disappeared-image(all-kitty)", s2,
                       z3.And(lst["len"] >= 1, D >= 1, z3.Implies(z3.And(0 <= j0, j0 < D), z3.And(K(j0), lst["inlist"][WID(j0)]))), kind="post")
        else:
            eng.oblige("nothing-deleted-only-when-nothing-disappeared", s2, z3.And(D == 0, z3.BoolVal(len(calls) == 0)), kind="post")
        cur = s.H(self_)["_ti_image_cviews"]
        eng.oblige("bookkeeping-replaced-by-the-views-just-computed", s, isinstance(cur, Rec) and cur.name == "frozenset_of" and cur.f["src"] is new, kind="post")
    return eng.obligations


def _unsup(msg):
    raise Unsupported(msg)


def _new_vs(e, s):
    s = e.fork(s)
    return s.new("viewset", {"which": "union"}), s


# ------------------------------------------------------------------------------------------------ shard walk: what is recorded per view
@unit("C18", "_urwid:UrwidImageScreen._ti_clear_images[view-recorded-per-canvas-view]")
def u_ti_walk_step(ctx):
    """One step of the shard walk (the body of `for cview in cviews`), for an arbitrary view at an arbitrary position: a view of a
    tracked image (kitty, or iterm2 on Konsole) is recorded under a key that holds its canvas, its position on the screen AND its
    whole extent - left / top trim, columns, rows - so that a view that is cut, narrowed or shortened differs from what was
    recorded and is deleted by the tail (unit above); any other view records nothing.  Assumed, not proved: that `row` / `col`
    are the view's position (the bookkeeping of urwid's shard tails)."""
    import ast as _ast
    fn = ctx.fn(URW, "UrwidImageScreen._ti_clear_images")
    loops = [n_ for n_ in _ast.walk(fn) if isinstance(n_, _ast.For) and isinstance(n_.target, _ast.Name) and n_.target.id == "cview"]
    if len(loops) != 1:
        raise Unsupported("_ti_clear_images: the loop `for cview in cviews` was not found exactly once")
    body = loops[0].body
    obs = []
    for canv_kind in ("kitty", "iterm2", "block", "text-canvas", "image-canvas-without-widget"):
        for term in ("konsole", "wezterm"):
            eng = ctx.engine(f"C18/_ti_clear_images[walk-step,{canv_kind},{term}]", "C18")
            eng.default_replay = "C18.narrowed_view"
            st = State()
            self_, log = screen_world(ctx, eng, st)
            eng.classes.update({"UrwidImageCanvas": ("Canvas",), "TextCanvas": ("Canvas",), "KittyImage": ("GraphicsImage",), "ITerm2Image": ("GraphicsImage",),
                                "BlockImage": ("TextImage",)})
            for c_ in ("UrwidImageCanvas", "KittyImage", "ITerm2Image"):
                eng.genv[c_] = ClassV(c_)
            eng.genv["get_terminal_name_version"] = Fn(lambda e, s, a, k, term=term: [((term, "22"), s)])
            tl, tt, cols, rows, row, col, n_rows = z3.Ints("trim_left trim_top view_cols view_rows row col n_rows")
            st.pc += [tl >= 0, tt >= 0, cols >= 1, rows >= 1, row >= 1, col >= 1, n_rows >= 1]
            img_cls = {"kitty": "KittyImage", "iterm2": "ITerm2Image", "block": "BlockImage"}.get(canv_kind, "KittyImage")
            widget = st.new("UrwidImage", {"_ti_image": st.new(img_cls, {})})
            if canv_kind == "text-canvas":
                canv = st.new("TextCanvas", {"widget_info": (widget, "size", "focus")})
            elif canv_kind == "image-canvas-without-widget":
                canv = st.new("UrwidImageCanvas", {"widget_info": None})
            else:
                canv = st.new("UrwidImageCanvas", {"widget_info": (widget, "size", "focus")})
            st.ghost["added"] = []
            views = st.new("viewset_build", {})

            def add(e, s, recv, a, k):
                s = e.fork(s)
                s.ghost["added"] = s.ghost["added"] + [a[0]]
                return [(None, s)]
            eng.methods[("viewset_build", "add")] = add
            tails = st.new("tailmap", {})
            eng.methods[("tailmap", "__setitem__")] = lambda e, s, recv, a, k: [(None, s)]
            eng.methods[("tailmap", "__contains__")] = lambda e, s, recv, a, k: [(e.sym_bool("in_tails"), s)]

            def process_shard_tails(e, s, a, k):
                # skips the columns taken by views that started in earlier shards: `col` moves right by some amount
                s = e.fork(s)
                skip = e.sym_int("skipped_cols")
                s.pc.append(skip >= 0)
                s.env["col"] = to_z3(s.env["col"]) + skip
                return [(None, s)]
            st.env.update(self=self_, image_cviews=views, shard_tails=tails, row=row, col=col, n_rows=n_rows,
                          cview=(tl, tt, cols, rows, Opaque("attr_map"), canv), process_shard_tails=Fn(process_shard_tails))
            outs = eng.run(body, st)
            tracked = canv_kind == "kitty" or (canv_kind == "iterm2" and term == "konsole")
            for kind, val, s in outs:
                if kind == "raise":
                    eng.oblige(f"no-exception:{val.cls}", s, False, kind="raise")
                    continue
                added = s.ghost["added"]
                if not tracked:
                    eng.oblige("untracked-view-records-nothing", s, len(added) == 0, kind="post")
                    continue
                col_here = None
                ok = len(added) == 1 and isinstance(added[0], tuple)
                if ok:
                    key = added[0]
                    has = lambda v: z3.Or(*[Eq(x, v) for x in key if is_sym(x) or isinstance(x, int)]) if any(is_sym(x) or isinstance(x, int) for x in key) else z3.BoolVal(False)
                    # `col` at the time of recording: the column after the skipped tails, i.e. the final col minus this view's columns
                    col_here = to_z3(s.env["col"]) - cols
                    goal = And(any(x is canv for x in key), has(row), has(col_here), has(tl), has(tt), has(cols), has(rows))
                else:
                    goal = False
                eng.oblige("tracked-view-recorded-once-under(canvas,row,col,left-trim,top-trim,columns,rows)", s, goal, kind="post")
            obs += eng.obligations
    return obs


# ------------------------------------------------------------------------------------------------ bounded stand-in: the shard walk's geometry
def extra_checks(tier, seed):
    """The assumed half of the walk-step unit (`row` / `col` ARE the view's position) is outside the engine's reach (dictionaries with
    symbolic integer keys; urwid's `shard_body` as the specification).  BOUNDED stand-in, never counted as proved: the real
    `_ti_clear_images` against urwid's own shard functions on layouts built by urwid (replay/C18.py: shard_walk).  A disagreement is
    a violation with a replayed input, reported only if found again on an immediate re-run."""
    import json as _json, os as _os, subprocess as _sp
    from pyvc import runner as _r

    def run():
        try:
            out = _sp.run([_r.VENV_PY, _os.path.join(_r.VERIF, "replay", "run.py"), "C18.shard_walk", "{}", "{}"], capture_output=True, text=True, timeout=900,
                          env={**_os.environ, "VERIF_REPO": _r.REPO, "PYTHONDONTWRITEBYTECODE": "1"})
            return _json.loads(out.stdout.strip().splitlines()[-1])
        except Exception as e:  # noqa: BLE001
            return {"reproduced": False, "error": repr(e)}
    rr = run()
    entry = {"what": "shard walk of _ti_clear_images vs urwid.canvas.shard_body / shard_body_tail (positions of image views)", "bound": str(rr.get("input")),
             "failing_input_found": bool(rr.get("reproduced"))}
    out = {"bounded": [entry], "report": {"shard_walk_search": {"bound": rr.get("input"), "failing_input_found": bool(rr.get("reproduced"))}}}
    if rr.get("error"):
        entry["error"] = str(rr["error"])[-300:]
        out["undecided"] = ["bounded-search=C18.shard_walk reason=the search itself failed: " + str(rr["error"])[-200:]]
    elif rr.get("reproduced"):
        if not run().get("reproduced"):
            out["undecided"] = ["bounded-search=C18.shard_walk reason=not-reproducible-on-re-run"]
        else:
            rdir = _os.path.join(_r.OUT, "replays", "C18")
            _os.makedirs(rdir, exist_ok=True)
            path = _os.path.join(rdir, "bounded_C18.shard_walk.json")
            _json.dump({"obligation": "bounded search C18.shard_walk: the positions recorded for image views are urwid's", "property": "C18", "replay": rr, "reproduced": True,
                        "replay_cmd": f"{_r.VENV_PY} {_r.VERIF}/replay/run.py C18.shard_walk '{{}}' '{{}}'"}, open(path, "w"), indent=1)
            out["violations"] = [f"VIOLATION property=C18 replay={path}"]
    return out
