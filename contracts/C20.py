"""C20 - Style settings resolve instance -> nearest class -> default, and unset restores.

Class-attribute heap (DESIGN 4.3): the object a setting is read from / written to has its OWN namespace (heap fields) and an
INHERITED slot per attribute: (present?, value) = what the nearest ancestor that defines it provides (for an instance: its
class chain; for a class: its parent chain), arbitrary and symbolic.  lookup = own, else inherited, else the documented default.
Ancestors and siblings are other objects: the functions under proof only ever hold a reference to `self`/`cls`, so any write
to them would have to go through `type(self)` / `__class__`, which are modelled as separate heap objects and checked untouched."""
import ast
import z3
from pyvc.runner import unit, run_function
from pyvc.values import *
from pyvc.engine import State, _b_type
from .common import *

COMMON, ITERM, KITTY = "image/common.py", "image/iterm2.py", "image/kitty.py"
TRUSTED = ["CPython attribute lookup (instance namespace, then the class chain) and the descriptor protocol (a property without a setter rejects assignment; metaclass properties implement class-level access)",
           "the abstraction of a class hierarchy as (own namespace, nearest-ancestor value): single inheritance chains of style classes"]
ASSUMPTIONS = []
NOT_DECIDED = []


def lookup(own_present, own_val, inh_present, inh_val, default):
    return If(own_present, own_val, If(inh_present, inh_val, default))


def prop_parts(ctx, rel, cls, name):
    """fget (lambda of the ClassProperty(...) call), fset / fdel (the decorated functions) of a metaclass property"""
    tree, _ = ctx.tree(rel)
    fget = fset = fdel = None
    for n in ast.walk(tree):
        if isinstance(n, ast.ClassDef) and n.name == cls:
            for x in n.body:
                if isinstance(x, ast.Assign) and getattr(x.targets[0], "id", None) == name and isinstance(x.value, ast.Call):
                    if x.value.args and isinstance(x.value.args[0], ast.Lambda):
                        fget = x.value.args[0]
                if isinstance(x, ast.FunctionDef) and x.name == name:
                    for d in x.decorator_list:
                        if isinstance(d, ast.Attribute) and d.attr == "setter":
                            fset = x
                        if isinstance(d, ast.Attribute) and d.attr == "deleter":
                            fdel = x
    ctx.fn(rel, cls)
    return fget, fset, fdel


def setting_unit(name, attr, default, valid, invalid, rel=ITERM, meta="ITerm2ImageMeta"):
    @unit("C20", f"iterm2:{meta}.{name}")
    def u(ctx):
        fget, fset, fdel = prop_parts(ctx, rel, meta, name)
        if not (fget and fset and fdel):
            raise Unsupported(f"{meta}.{name} is no longer a property with getter, setter and deleter")
        # the instance-level counterpart must reuse exactly these three functions
        tree, _ = ctx.tree(rel)
        reuse = any(isinstance(n, ast.Assign) and getattr(n.targets[0], "id", None) == name and isinstance(n.value, ast.Call)
                    and [ast.unparse(a) for a in n.value.args] == [f"{meta}.{name}.fget", f"{meta}.{name}.fset", f"{meta}.{name}.fdel"]
                    for c in ast.walk(tree) if isinstance(c, ast.ClassDef) and c.name == "ITerm2Image" for n in c.body)
        obs = []
        for own_has in (True, False):
            eng = ctx.engine(f"C20/{name}[own={'set' if own_has else 'unset'}]", "C20")
            eng.default_replay = "C20.settings"
            eng.genv.update(UTIL_ERRS)
            st = State()
            ownv = z3.Int("own_value") if isinstance(default, int) and not isinstance(default, bool) else z3.Bool("own_value")
            inhv = z3.Int("inherited_value") if isinstance(default, int) and not isinstance(default, bool) else z3.Bool("inherited_value")
            inhp = z3.Bool("an_ancestor_sets_it")
            fields = {"@inherit": {attr: (inhp, inhv)}}
            if own_has:
                fields[attr] = ownv
            parent = st.new("attrobj", {"@inherit": {}, attr: inhv})       # the nearest ancestor: must stay untouched
            eng.genv["type"] = Fn(lambda e, s, a, k, parent=parent: [(parent, s)])
            eng.oblige("instance-level-property-reuses-the-class-level-accessors", st, reuse, kind="post")
            # the setting read through its own name inside the setter / deleter: the getter's body on that object
            eng.attrs[("attrobj", name)] = lambda e, s, v, fget=fget: [(val_, _pop_env(s2)) for val_, s2 in
                                                                     e.ev(fget.body, _with_env(e, s, {fget.args.args[0].arg: v}))]
            # ---- get
            s0 = st.fork()
            self_ = s0.new("attrobj", dict(fields))
            s0.env[fget.args.args[0].arg] = self_
            for v, s in eng.ev(fget.body, s0):
                eng.oblige("get=own-else-nearest-ancestor-else-default", s, Eq(v, lookup(own_has, ownv, inhp, inhv, default)), kind="post")
            # ---- set (valid and invalid values)
            for label, val, ok in [("valid", v_, True) for v_ in valid] + [("invalid", v_, False) for v_ in invalid]:
                s0 = st.fork()
                self_ = s0.new("attrobj", dict(fields))
                s0.env.update({fset.args.args[0].arg: self_, fset.args.args[1].arg: val})
                if is_sym(val) and ok and name == "jpeg_quality":
                    s0.pc.append(val <= 95)          # documented range: anything up to 95 (negative disables JPEG)
                before_parent = dict(s0.H(parent))
                eng.label = f"C20/{name}.set[{label}:{val!r},own={'set' if own_has else 'unset'}]"
                for kind, rv, s in run_function(eng, fset, s0):
                    h = s.H(self_)
                    untouched = And(*[Eq(s.H(parent)[k_], before_parent[k_]) for k_ in before_parent if k_ != "@inherit"])
                    if ok:
                        eng.oblige("set-writes-only-the-target's-own-slot", s, And(kind != "raise", attr in h and Eq(h[attr], val), untouched), kind="post")
                    else:
                        same = (attr in h and Eq(h[attr], ownv)) if own_has else (attr not in h)
                        eng.oblige("invalid-value-rejected-without-changing-anything", s,
                                   And(kind == "raise" and val_exc(rv) in ("TypeError", "ValueError"), same, untouched), kind="raise")
            # ---- delete
            s0 = st.fork()
            self_ = s0.new("attrobj", dict(fields))
            s0.env[fdel.args.args[0].arg] = self_
            before_parent = dict(s0.H(parent))
            eng.label = f"C20/{name}.del[own={'set' if own_has else 'unset'}]"
            for kind, rv, s in run_function(eng, fdel, s0):
                h = s.H(self_)
                untouched = And(*[Eq(s.H(parent)[k_], before_parent[k_]) for k_ in before_parent if k_ != "@inherit"])
                eng.oblige("unset-removes-only-the-target's-own-slot(then-it-follows-the-next-level)", s, And(kind != "raise", attr not in h, untouched), kind="post")
            obs += eng.obligations
        return obs
    return u


def _with_env(e, s, binds):
    s2 = e.fork(s)
    s2.frames.append(dict(binds))
    return s2


def _pop_env(s):
    s.frames.pop()
    return s


def val_exc(v):
    return getattr(v, "cls", None)


setting_unit("jpeg_quality", "_jpeg_quality", -1, valid=[z3.IntVal(0), z3.IntVal(95), z3.IntVal(-5), z3.Int("q_le_95")], invalid=[z3.IntVal(96), "80", 1.5])
setting_unit("read_from_file", "_read_from_file", True, valid=[True, False], invalid=[1, "yes", None])


@unit("C20", "iterm2:ITerm2ImageMeta.native_anim_max_bytes")
def u_native_anim(ctx):
    """one global value shared by all classes: the cell lives on the metaclass (`__class__`), whatever class is used to access it"""
    fget, fset, fdel = prop_parts(ctx, ITERM, "ITerm2ImageMeta", "native_anim_max_bytes")
    if not (fget and fset and fdel):
        raise Unsupported("native_anim_max_bytes is no longer a property with getter, setter and deleter")
    eng = ctx.engine("C20/native_anim_max_bytes", "C20")
    eng.default_replay = "C20.settings"
    eng.genv.update(UTIL_ERRS)
    st = State()
    cur, dflt = z3.Int("current_limit"), z3.Int("default_limit")
    # name mangling: `__class__.__native_anim_max_bytes` inside the class body is `_ITerm2ImageMeta__native_anim_max_bytes`
    meta = st.new("attrobj", {"@inherit": {}, "_native_anim_max_bytes": cur, "_ITerm2ImageMeta__native_anim_max_bytes": dflt, "__native_anim_max_bytes": dflt})
    eng.genv["__class__"] = meta
    cls_a = st.new("attrobj", {"@inherit": {}})           # any style class (KittyImage-independent): never holds the value itself
    s0 = st.fork()
    s0.env[fget.args.args[0].arg] = cls_a
    for v, s in eng.ev(fget.body, s0):
        eng.oblige("get-reads-the-single-global-cell", s, Eq(v, cur), kind="post")
    # the class used for access may be an instance of ITerm2ImageMeta itself or of a metaclass DERIVED from it (type(cls) is then
    # not the metaclass that holds the cell): the one global cell is the same in both cases
    meta_sub = st.new("attrobj", {"@inherit": {"_native_anim_max_bytes": (True, cur), "_ITerm2ImageMeta__native_anim_max_bytes": (True, dflt)}})
    for mk, type_of_cls in (("", meta), (",class-of-a-derived-metaclass", meta_sub)):
        for label, val, ok in (("valid", z3.Int("new_limit"), True), ("zero", z3.IntVal(0), False), ("str", "5", False)):
            s0 = st.fork()
            if ok:
                s0.pc.append(val > 0)
            s0.env.update({fset.args.args[0].arg: cls_a, fset.args.args[1].arg: val})
            eng.label = f"C20/native_anim_max_bytes.set[{label}{mk}]"
            eng.genv["type"] = Fn(lambda e, s, a, k, type_of_cls=type_of_cls: [(type_of_cls, s)] if a[0] is cls_a else _b_type(e, s, a, k))
            for kind, rv, s in run_function(eng, fset, s0):
                cell = s.H(meta)["_native_anim_max_bytes"]
                own_clean = "_native_anim_max_bytes" not in s.H(cls_a) and "_native_anim_max_bytes" not in s.H(meta_sub)
                if ok:
                    eng.oblige("set-writes-the-global-cell,not-the-class-used-for-access(nor-its-own-metaclass)", s, And(kind != "raise", Eq(cell, val), own_clean), kind="post")
                else:
                    eng.oblige("invalid-value-rejected-without-changing-anything", s, And(kind == "raise" and val_exc(rv) in ("TypeError", "ValueError"), Eq(cell, cur), own_clean), kind="raise")
            eng.genv.pop("type", None)
    for mk, type_of_cls in (("", meta), ("[class-of-a-derived-metaclass]", meta_sub)):
        s0 = st.fork()
        s0.env[fdel.args.args[0].arg] = cls_a
        eng.label = "C20/native_anim_max_bytes.del" + mk
        eng.genv["type"] = Fn(lambda e, s, a, k, type_of_cls=type_of_cls: [(type_of_cls, s)] if a[0] is cls_a else _b_type(e, s, a, k))
        for kind, rv, s in run_function(eng, fdel, s0):
            eng.oblige("delete-resets-the-global-cell-to-the-default", s,
                       And(kind != "raise", Eq(s.H(meta)["_native_anim_max_bytes"], dflt), "_native_anim_max_bytes" not in s.H(meta_sub)), kind="post")
        eng.genv.pop("type", None)
    # ... and so is the getter
    s0 = st.fork()
    s0.env[fget.args.args[0].arg] = cls_a
    s0.H(meta_sub)["_native_anim_max_bytes"] = z3.Int("stray_value_on_the_derived_metaclass")
    eng.label = "C20/native_anim_max_bytes.get[class-of-a-derived-metaclass]"
    eng.genv["type"] = Fn(lambda e, s, a, k: [(meta_sub, s)] if a[0] is cls_a else _b_type(e, s, a, k))
    for v, s in eng.ev(fget.body, s0):
        eng.oblige("get-reads-the-single-global-cell", s, Eq(v, cur), kind="post")
    eng.genv.pop("type", None)
    # instance level: read-only shadows (a property with only a getter rejects assignment and deletion: descriptor protocol)
    tree, _ = ctx.tree(ITERM)
    for pname in ("native_anim_max_bytes",):
        ro = [n for c in ast.walk(tree) if isinstance(c, ast.ClassDef) and c.name == "ITerm2Image" for n in c.body
              if isinstance(n, ast.Assign) and getattr(n.targets[0], "id", None) == pname and isinstance(n.value, ast.Call)
              and getattr(n.value.func, "id", None) == "ClassProperty" and len(n.value.args) == 1]
        has_setter = any(isinstance(n, ast.FunctionDef) and n.name == pname for c in ast.walk(tree) if isinstance(c, ast.ClassDef) and c.name == "ITerm2Image" for n in c.body)
        eng.label = f"C20/ITerm2Image.{pname}(instance)"
        eng.oblige("instance-level-write-rejected(read-only-shadow,no-setter)", st, bool(ro) and not has_setter, kind="post")
        if ro:
            lam = ro[0].value.args[0]
            s0 = st.fork()
            inst = s0.new("attrobj", {"@inherit": {}})
            eng.genv["type"] = Fn(lambda e, s, a, k: [(meta_cls, s)])
            meta_cls = s0.new("attrobj", {"@inherit": {"_native_anim_max_bytes": (True, cur)}})      # class attribute lookup reaches the metaclass cell
            s0.env[lam.args.args[0].arg] = inst
            for v, s in eng.ev(lam.body, s0):
                eng.oblige("instance-read=global-value", s, Eq(v, cur), kind="post")
    return eng.obligations


@unit("C20", "common:forced_support")
def u_forced_support(ctx):
    fget, fset, fdel = prop_parts(ctx, COMMON, "ImageMeta", "forced_support")
    if not (fget and fset):
        raise Unsupported("ImageMeta.forced_support is no longer a property with getter and setter")
    eng = ctx.engine("C20/forced_support", "C20")
    eng.default_replay = "C20.settings"
    eng.genv.update(UTIL_ERRS)
    obs = []
    for own_has in (True, False):
        st = State()
        ownv, inhv, inhp = z3.Bool("own_value"), z3.Bool("inherited_value"), z3.Bool("an_ancestor_sets_it")
        fields = {"@inherit": {"_forced_support": (inhp, inhv)}}
        if own_has:
            fields["_forced_support"] = ownv
        s0 = st.fork()
        cls = s0.new("attrobj", dict(fields))
        s0.env[fget.args.args[0].arg] = cls
        s0.pc.append(z3.Or(inhp, z3.BoolVal(True)))
        eng.label = f"C20/forced_support.get[own={'set' if own_has else 'unset'}]"
        # the root (ImageMeta._forced_support = False) always provides the default: lookup never fails
        s0.H(cls)["@inherit"] = {"_forced_support": (True, z3.If(inhp, inhv, False))}
        for v, s in eng.ev(fget.body, s0):
            eng.oblige("get=own-else-nearest-ancestor-else-False", s, Eq(v, lookup(own_has, ownv, inhp, inhv, False)), kind="post")
        for label, val, ok in (("True", True, True), ("False", False, True), ("int", 1, False), ("None", None, False)):
            s0 = st.fork()
            cls = s0.new("attrobj", dict(fields))
            s0.env.update({fset.args.args[0].arg: cls, fset.args.args[1].arg: val})
            eng.label = f"C20/forced_support.set[{label},own={'set' if own_has else 'unset'}]"
            for kind, rv, s in run_function(eng, fset, s0):
                h = s.H(cls)
                if ok:
                    eng.oblige("set-writes-only-the-class's-own-slot", s, And(kind != "raise", "_forced_support" in h and h["_forced_support"] is val), kind="post")
                else:
                    same = ("_forced_support" in h and Eq(h["_forced_support"], ownv)) if own_has else ("_forced_support" not in h)
                    eng.oblige("non-bool-rejected-without-changing-anything", s, And(kind == "raise" and val_exc(rv) == "TypeError", same), kind="raise")
        obs += eng.obligations
        eng.obligations = []
    # instance level: BaseImage.forced_support is a getter-only ClassProperty reading type(self)._forced_support
    tree, _ = ctx.tree(COMMON)
    ro = [n for c in ast.walk(tree) if isinstance(c, ast.ClassDef) and c.name == "BaseImage" for n in c.body
          if isinstance(n, ast.Assign) and getattr(n.targets[0], "id", None) == "forced_support" and isinstance(n.value, ast.Call)
          and getattr(n.value.func, "id", None) == "ClassProperty" and len(n.value.args) == 1 and isinstance(n.value.args[0], ast.Lambda)]
    has_setter = any(isinstance(n, ast.FunctionDef) and n.name == "forced_support" for c in ast.walk(tree) if isinstance(c, ast.ClassDef) and c.name == "BaseImage" for n in c.body)
    st = State()
    eng.label = "C20/BaseImage.forced_support(instance)"
    eng.oblige("instance-level-write-rejected(read-only-shadow,no-setter)", st, bool(ro) and not has_setter, kind="post")
    if ro:
        lam = ro[0].value.args[0]
        v_cls = z3.Bool("class_effective_value")
        inst = st.new("attrobj", {"@inherit": {}})
        the_cls = st.new("attrobj", {"@inherit": {}, "_forced_support": v_cls})
        eng.genv["type"] = Fn(lambda e, s, a, k: [(the_cls, s)])
        st.env[lam.args.args[0].arg] = inst
        for v, s in eng.ev(lam.body, st):
            eng.oblige("instance-read=its-class's-effective-value", s, Eq(v, v_cls), kind="post")
    return obs + eng.obligations


@unit("C20", "common:BaseImage.set_render_method")
def u_set_render_method(ctx):
    nodes = ctx.fn_all(COMMON, "BaseImage.set_render_method")
    if len(nodes) != 2:
        raise Unsupported("set_render_method is no longer a class/instance method pair")
    cls_form, inst_form = nodes
    ns = ctx.ns("term_image.image.kitty")
    LINES, WHOLE = ns.d["LINES"], ns.d["WHOLE"]
    obs = []
    for form, node in (("class", cls_form), ("instance", inst_form)):
        for own_has in (True, False):
            for defines_methods in ((True, False) if form == "class" else (True,)):
                for label, val, verdict in (("None", None, "unset"), ("valid", "WHOLE", "set"), ("unknown", "bogus", "ValueError"), ("non-str", 5, "TypeError"),
                                            # falsy values that are not `None` are not "unset": they are rejected like any other non-string
                                            ("zero", 0, "TypeError"), ("False", False, "TypeError"), ("empty-tuple", (), "TypeError"),
                                            ("empty-string", "", "ValueError")):
                    eng = ctx.engine(f"C20/set_render_method[{form},{label},own={'set' if own_has else 'unset'},defines-own-default={defines_methods}]", "C20")
                    eng.default_replay = "C20.settings"
                    eng.genv.update(UTIL_ERRS)
                    st = State()
                    inh_m = "lines"       # what the nearest ancestor currently provides
                    fields = {"@inherit": {"_render_method": (True, inh_m), "_render_methods": (True, frozenset((LINES, WHOLE))), "_default_render_method": (True, LINES),
                                           "__name__": (True, "Style")}}
                    if own_has:
                        fields["_render_method"] = "whole"
                    if form == "class" and defines_methods:
                        # a style class that itself defines the methods and the default (KittyImage, ITerm2Image): the class-wide
                        # value it falls back to is its own default
                        fields["_default_render_method"] = LINES
                        fields["_render_methods"] = frozenset((LINES, WHOLE))
                    target = st.new("attrobj", dict(fields))
                    klass = st.new("attrobj", {"@inherit": {}, "_render_methods": frozenset((LINES, WHOLE)), "__name__": "Style", "_render_method": "lines",
                                               "_default_render_method": LINES})
                    eng.genv["type"] = Fn(lambda e, s, a, k, klass=klass: [(klass, s)])
                    eng.genv["vars"] = Fn(lambda e, s, a, k: [(Namespace("vars", {k_: v_ for k_, v_ in s.H(a[0]).items() if not k_.startswith("@")}), s)])
                    st.env.update({node.args.args[0].arg: target, "method": val})
                    before_klass = dict(st.H(klass))
                    outs = run_function(eng, node, st)
                    for kind, rv, s in outs:
                        h = s.H(target)
                        own_now = h.get("_render_method", "<absent>")
                        klass_same = all(s.H(klass).get(k_) == before_klass.get(k_) for k_ in before_klass if not k_.startswith("@"))
                        if verdict in ("ValueError", "TypeError"):
                            unchanged = own_now == ("whole" if own_has else "<absent>")
                            eng.oblige("invalid-method-rejected-without-changing-anything", s, And(kind == "raise" and val_exc(rv) == verdict, unchanged, klass_same), kind="raise")
                        elif verdict == "set":
                            eng.oblige("set-writes-only-the-target's-own-slot", s, And(kind != "raise", own_now == val, klass_same), kind="post")
                        else:
                            # unset: the level follows the next one again - its own override is gone; a style class that defines its
                            # own default falls back to exactly that default
                            if form == "class" and defines_methods:
                                ok = own_now == LINES
                            else:
                                ok = own_now == "<absent>"
                            eng.oblige("unset-makes-the-level-follow-the-next-one(own-override-removed)", s, And(kind != "raise", ok, klass_same), kind="post")
                    obs += eng.obligations
    return obs
from .render_kitty import *    # noqa: F401,F403,E402  (the method a render actually uses: per-call override, any letter case)
from .render_iterm2 import *   # noqa: F401,F403,E402
from . import image_iterator as _image_iterator  # noqa: F401,E402  (frames of an iteration are rendered with the style arguments given for it)
from .old_draw import iterm2_display_unit  # noqa: F401,E402  (a per-call method override given to an animated draw() reaches the frames)
