"""iTerm2 style: ITerm2Image._render_image under contract (C01 geometry, C03 size= / read-from-file, C11 files closed)."""
import ast
import z3
from pyvc.runner import unit, run_function
from pyvc.values import *
from pyvc.engine import State, LoopSpec
from pyvc import tstr
from pyvc.tstr import TS, VT, vt_new, Payload
from .common import *
from .render_block import havoc_vt, stringio_world

ITERM = "image/iterm2.py"


def stream_world(eng, st):
    """io.BytesIO / open(): byte streams with (len, pos); PIL save writes k >= 1 bytes sequentially from the current position
    (assumed).  Every stream opened is recorded in ghost `opened`; close() / __exit__ marks it closed (C11)."""
    st.ghost["opened"] = []

    def mk(e, s, kind, length, extra=None):
        s = e.fork(s)
        r = s.new("stream", {"kind": kind, "len": length, "pos": z3.IntVal(0), "closed": False, **(extra or {})})
        s.ghost["opened"] = s.ghost["opened"] + [r]
        return r, s

    def bytesio(e, s, a, k):
        n = a[0].f["len"] if a else z3.IntVal(0)
        return [mk(e, s, "BytesIO", n)]

    def open_(e, s, a, k):
        if len(a) < 2 or a[1] != "rb":
            raise Unsupported("open() mode")
        e.raise_(ExcVal("OSError"), e.fork(s), fault=True)
        n = e.sym_int("file_len")
        s.pc.append(n >= 1)
        r, s2 = mk(e, s, "file", n, {"path": a[0]})
        return [(r, s2)]
    eng.genv["io"].d["BytesIO"] = Fn(bytesio)
    eng.genv["open"] = Fn(open_)

    def seek(e, s, recv, a, k):
        s = e.fork(s)
        h = s.H(recv)
        off, wh = a[0], (a[1] if len(a) > 1 else 0)
        if wh == 0:
            h["pos"] = off
        elif wh == 2:
            h["pos"] = h["len"] + off
        else:
            raise Unsupported("seek whence")
        return [(h["pos"], s)]

    def tell(e, s, recv, a, k):
        return [(s.H(recv)["pos"], s)]

    def truncate(e, s, recv, a, k):
        s = e.fork(s)
        h = s.H(recv)
        h["len"] = h["pos"]
        return [(h["len"], s)]

    def getvalue(e, s, recv, a, k):
        return [(Rec("bytes", {"len": s.H(recv)["len"], "of": recv.id}), s)]

    def read(e, s, recv, a, k):
        s = e.fork(s)
        h = s.H(recv)
        if a:
            new = Min(h["pos"] + a[0], h["len"])
        else:
            new = h["len"]
        r = Rec("bytes", {"len": new - h["pos"], "of": recv.id, "lo": h["pos"], "hi": new})
        h["pos"] = new
        return [(r, s)]

    def close(e, s, recv, a, k):
        s = e.fork(s)
        s.H(recv)["closed"] = True
        return [(None, s)]
    for name, f in (("seek", seek), ("tell", tell), ("truncate", truncate), ("getvalue", getvalue), ("read", read), ("close", close)):
        eng.methods[("stream", name)] = f
    eng.methods[("stream", "__enter__")] = lambda e, s, recv, a, k: [(recv, s)]
    eng.methods[("stream", "__exit__")] = close

    def b64(e, s, a, k):
        # standard_b64encode(x): len = 4 * ceil(len(x) / 3), alphabet without ESC/BEL (assumed)
        n = a[0].f["len"]
        of = a[0].f.get("of")
        saves = [sv for sv in s.ghost.get("saves", []) if sv["stream"] == of]
        if saves:
            # what is transmitted is exactly the last encoding written to that stream: from offset 0, nothing stale after it
            last = saves[-1]
            whole = a[0].f.get("lo") is None or Eq(a[0].f.get("lo"), 0)
            e.oblige("C03:payload-is-exactly-the-image-just-encoded", s, And(whole, last["start"] == 0, n == last["n"]), prop="C03", kind="pre")
        else:
            # nothing was encoded into that stream: only the source FILE itself may be sent as it is (the read-from-file gate); an
            # in-memory buffer that no image was saved into is not an image
            src = [r for r in s.ghost.get("opened", []) if r.id == of]
            if src and s.H(src[0]).get("kind") != "file":
                e.oblige("C03:payload-is-an-image-that-was-encoded(or-the-source-file-itself)", s, False, prop="C03", kind="pre")
        return [(Rec("b64", {"decoded_len": n, "len": 4 * ((n + 2) / 3)}), s)]
    eng.genv["standard_b64encode"] = Fn(b64)
    eng.attrs[("b64", "decode")] = lambda e, s, v: [(Fn(lambda e2, s2, a, k: [(TS([Payload("b64", z3.IntVal(0), v.f["len"], decoded_len=v.f["decoded_len"])]), s2)]), s)]


def pil_save(e, s, recv, a, k):
    """img.save(stream, format, ...): writes k >= 1 bytes from the stream's position (PIL, assumed); may fail"""
    stream = a[0]
    e.raise_(ExcVal("ValueError"), e.fork(s), fault=True)
    e.raise_(ExcVal("OSError"), e.fork(s), fault=True)
    s = e.fork(s)
    n = e.sym_int("encoded_len")
    s.pc.append(n >= 1)
    h = s.H(stream)
    h["pos"] = h["pos"] + n
    h["len"] = Max(h["len"], h["pos"])
    s.ghost["saves"] = s.ghost.get("saves", []) + [dict(stream=stream.id, fmt=a[1] if len(a) > 1 else None, kw=dict(k), img=recv.id, n=n, start=h["pos"] - n)]
    return [(None, s)]


def iterm2_unit(method, term, src, override=None, src_mode="RGB", alpha_kind="float"):
    """override: the per-call `method` argument as spelled by the caller; the image's own effective method is then another one.
    src_mode / alpha_kind: the source image's mode and the kind of the alpha option (threshold / colour string / None), for the
    read-from-file gate: the file is sent as it is only when no alpha option can change what is shown"""
    tag = f"{method},{term},src={src}" + (f",override={override}" if override else "") + (f",mode={src_mode},alpha={alpha_kind}" if (src_mode, alpha_kind) != ("RGB", "float") else "")

    @unit(("C01", "C03", "C11", "C20"), f"iterm2:ITerm2Image._render_image[{tag}]")
    def u(ctx, method=method, term=term, src=src):
        eng = ctx.engine(f"C01/iterm2._render_image[{tag}]", "C01")
        eng.default_replay = {"C01": "C01.render", "C03": "C03.render", "C11": "C11.fds", "C20": "C20.method_override"}
        st = State()
        ns = ctx.ns("term_image.image.iterm2")
        cs = ctx.ns("term_image._ctlseqs")
        for k in ("CURSOR_FORWARD", "CURSOR_UP", "ERASE_CHARS", "ITERM2_START", "ST", "LINES", "WHOLE", "ANIM"):
            eng.genv[k] = ns.d[k]
        eng.genv["ctlseqs"] = cs
        eng.genv["ImageSource"] = ctx.ns("term_image.image.common").d["ImageSource"]
        eng.genv["RenderError"] = ClassV("RenderError")
        eng.genv["TermImageUserWarning"] = ClassV("TermImageUserWarning")

        def warn(e, s, a, k):
            # a warning the caller's filters escalate to an error surfaces here as an exception of the warning's class
            e.raise_(ExcVal("TermImageUserWarning"), e.fork(s), fault=True)
            return [(None, s)]
        eng.genv["warnings"] = Namespace("warnings", {"warn": Fn(warn)})
        eng.genv["mul"] = Fn(lambda e, s, a, k: e.binop(ast.Mult(), a[0], a[1], s))
        stringio_world(eng)
        stream_world(eng, st)
        rw, rh, cw, ch, mw, mh, ow, oh, r0, TW, TH, B0 = z3.Ints("r_width r_height cw ch min_w min_h ori_w ori_h r0 TW TH bottom0")
        st.pc += [rw >= 1, rh >= 1, cw >= 1, ch >= 1, mw >= 1, mh >= 1, ow >= 1, oh >= 1, TW >= rw, TH >= rh, r0 >= 0, B0 >= r0 + rh - 1, B0 - TH + 1 <= r0]
        W, H = rw, rh
        konsole = term == "konsole"

        def line_pred(a, final):
            # pre-fill lines of the non-konsole WHOLE/ANIM layout are only skipped over here; the image placed afterwards covers them
            # (checked at the end: the placement is exactly the rectangle)
            cover = a["written"] + a["skipped"] == W if (method != "lines" and not konsole) else z3.And(a["written"] == W, a["skipped"] == 0)
            return z3.And(a["line_w"] == W, cover, to_z3(a["erased_to"]) <= W,
                          z3.Not(a["irregular"]) if not (method != "lines" and not konsole) else z3.Or(z3.Not(a["irregular"]), z3.BoolVal(True) if final else z3.BoolVal(False)))
        st.ghost["vt"] = vt_new(r0, z3.IntVal(0), B0, TW, TH, line_pred=line_pred)
        IS = eng.genv["ImageSource"].d
        animated = z3.Bool("is_animated")       # (a still render of an animated image - one frame of it - takes every method too)
        effective = method if override is None else ("whole" if method == "lines" else "lines")
        self_ = st.new("ITerm2Image", {"_render_method": effective, "_TERM": term, "_source_type": IS["PIL_IMAGE"] if src.startswith("pil") else IS["FILE_PATH"],
                                       "_is_animated": animated, "_source": "SRC_PATH", "_original_size": (ow, oh)})
        eng.attrs[("ITerm2Image", "rendered_size")] = lambda e, s, v: [((rw, rh), s)]
        eng.attrs[("ITerm2Image", "jpeg_quality")] = lambda e, s, v: [(z3.Int("jpeg_quality"), s)]
        eng.attrs[("ITerm2Image", "read_from_file")] = lambda e, s, v: [(z3.Bool("read_from_file"), s)]
        eng.attrs[("ITerm2Image", "native_anim_max_bytes")] = lambda e, s, v: [(z3.Int("native_anim_max_bytes"), s)]
        eng.methods[("ITerm2Image", "_get_render_size")] = lambda e, s, recv, a, k: [((rw * cw, rh * ch), s)]
        eng.methods[("ITerm2Image", "_get_minimal_render_size")] = lambda e, s, recv, a, k: [((mw, mh), s)]
        eng.closed_classes.add("PIL.Image")
        eng.closed_only["PIL.Image"] = {"filename", "fp", "format"}
        mode_in = z3.Int("src_mode")       # index into the modes the gate distinguishes
        fields = {"mode": src_mode, "format": "PNG", "open": True, "role": "source"}
        if src == "pil-file":
            fields["filename"] = "IMG_FILENAME"
        img0 = st.new("PIL.Image", fields)
        eng.genv["os"] = Namespace("os", {"access": Fn(lambda e, s, a, k: [(z3.Bool("file_readable"), s)]), "R_OK": 4})
        st.ghost["closed_images"] = []

        def close_image(e, s, recv, a, k):
            s = e.fork(s)
            s.ghost["closed_images"] = s.ghost["closed_images"] + [a[0].id]
            return [(None, s)]
        eng.methods[("ITerm2Image", "_close_image")] = close_image
        out_mode = "RGB"

        def get_render_data(e, s, recv, a, k):
            e.raise_(ExcVal("RenderError"), e.fork(s), fault=True)
            s = e.fork(s)
            im = s.new("PIL.Image", {"mode": out_mode, "size": k.get("size"), "role": "converted"})
            s.ghost["render_data_size"] = k.get("size")
            return [((im, None, None), s)]
        eng.methods[("ITerm2Image", "_get_render_data")] = get_render_data
        c11_frame = (src_mode, alpha_kind) == ("RGB", "float") and override is None and method != "anim"
        if c11_frame:
            frame_image_world(eng, "ITerm2Image")
        eng.methods[("PIL.Image", "save")] = pil_save
        eng.methods[("PIL.Image", "tobytes")] = lambda e, s, recv, a, k: [(Rec("bytes", {"len": s.H(recv)["size"][0] * s.H(recv)["size"][1] * len(s.H(recv)["mode"])}), s)]
        eng.methods[("PIL.Image", "__enter__")] = lambda e, s, recv, a, k: [(recv, s)]

        def img_exit(e, s, recv, a, k):
            s = e.fork(s)
            s.H(recv)["open"] = False
            return [(None, s)]
        eng.methods[("PIL.Image", "__exit__")] = img_exit

        def frombytes(e, s, a, k):
            mode, size, data = a
            e.oblige("C03:strip-has-exactly-width*cell_height*bands-bytes", s, data.f["len"] == size[0] * size[1] * len(mode), prop="C03", kind="pre")
            s = e.fork(s)
            s.ghost["strips"] = s.ghost.get("strips", 0) + 1
            im = s.new("PIL.Image", {"mode": mode, "size": size, "role": "strip", "open": True})
            s.ghost["strip_images"] = s.ghost.get("strip_images", []) + [im]
            return [(im, s)]
        eng.genv["PIL"] = Namespace("PIL", {"Image": Namespace("Image", {"frombytes": Fn(frombytes)})})
        if True:        # (the per-line loop has its invariant whatever method is asked for: a request that falls into it is then decided, not out of reach)
            def inv(s, i, N):
                g = s.ghost["vt"]
                cimg = s.lookup("compressed_image")
                raw = s.lookup("raw_image")
                bpl = (rw * cw) * ch * len(out_mode)
                return z3.And(N == rh, to_z3(g["nl"]) == z3.If(i < rh, i, rh - 1), to_z3(g["line_idx"]) == to_z3(g["nl"]), to_z3(g["row"]) == r0 + to_z3(g["nl"]),
                              z3.Implies(i < rh, z3.And(to_z3(g["col"]) == 0, to_z3(g["line_w"]) == 0, to_z3(g["written"]) == 0)),
                              z3.Implies(i == rh, z3.And(to_z3(g["line_w"]) == W, to_z3(g["written"]) == W, z3.Not(g["last_nl"]),
                                                         z3.Or(to_z3(g["col"]) == W, z3.And(W == TW, to_z3(g["col"]) == TW - 1)))),
                              to_z3(g["skipped"]) == 0, z3.Not(g["irregular"]), to_z3(g["bottom"]) == B0, z3.BoolVal(g["parser"] == "ground"), g["sgr_default"],
                              z3.Implies(i < rh, to_z3(g["erased_to"]) == 0), to_z3(g["erased_to"]) <= W,
                              s.H(raw)["pos"] == i * bpl, s.H(raw)["len"] == rh * bpl, to_z3(s.lookup("bytes_per_line")) == bpl, to_z3(s.lookup("cell_height")) == ch,
                              s.ghost.get("strips", 0) == i if is_sym(s.ghost.get("strips", 0)) else z3.BoolVal(True))

            def havoc(e, s, tag):
                g = havoc_vt(s, tag)
                g["erased_to"] = z3.Int(f"erased_to!{tag}")
                g["img"] = tuple(z3.Int(f"img{j}!{tag}") for j in range(4))
                g["iterm2"] = []
                for nm in ("compressed_image", "raw_image"):
                    h = s.H(s.lookup(nm))
                    h["pos"], h["len"] = z3.Int(f"{nm}_pos!{tag}"), z3.Int(f"{nm}_len!{tag}")
                    s.pc += [h["pos"] >= 0, h["len"] >= 0]
                s.ghost["strips"] = z3.Int(f"strips!{tag}")
                s.ghost["strip_images"] = []
                s.ghost["saves"] = []
                s.env["img"] = s.new("PIL.Image", {"mode": out_mode, "role": "strip-prev", "open": False})
            eng.invariants = {1: LoopSpec(inv, havoc)}
        mix = z3.Bool("mix")
        st.env.update(self=self_, img=img0, alpha=Opaque("alpha"), frame=z3.Bool("frame"), method=override, mix=mix, compress=z3.Int("compress"))
        # `alpha` only matters in the read-from-file gate (isinstance(alpha, float)) and img.mode membership tests
        st.env["alpha"] = {"float": z3.Real("alpha_threshold"), "hex": "#a1b2c3", "#": "#", "None": None}[alpha_kind]
        outs = run_function(eng, ctx.fn(ITERM, "ITerm2Image._render_image"), st)
        if c11_frame:
            # (when the source file itself is sent, _get_render_data is not called at all; frames of an iteration never take that way:
            # the gate excludes animated images)
            frame_image_exits(eng, [o for o in outs if o[2].ghost.get("rd_returned") is not None], img0, st.env["frame"])
        for kind, val, s in outs:
            if method == "whole":
                # the read-from-file gate (C03): the source file itself is transmitted only when that shows the same picture as a
                # render would: reading from file enabled, a still image, not downscaled, and no alpha option can affect the result
                as_is = [r for r in s.ghost["opened"] if s.H(r)["kind"] == "file"]
                no_alpha_effect = src_mode in ("1", "L", "RGB", "HSV", "CMYK") or (alpha_kind == "float" and src_mode not in ("P", "PA"))
                if as_is:
                    eng.oblige("C03:file-sent-as-it-is-only-when-no-alpha-option-can-change-the-picture,not-downscaled,still,reading-enabled", s,
                               And(no_alpha_effect, z3.Bool("read_from_file"), Not(animated) if is_sym(animated) else not animated, ow * oh <= (rw * cw) * (rh * ch)), prop="C03", kind="exit", replay="C03.file_gate")
            # ---- C11: every stream the function opened is closed again on every exit; the caller's image is closed only via _close_image
            for r in s.ghost["opened"]:
                if s.H(r)["kind"] == "file" or kind == "return":
                    # OS files on every exit; in-memory buffers hold no descriptor (only checked on the normal path)
                    eng.oblige(f"C11:{s.H(r)['kind']}-opened-by-the-render-is-closed@{kind}", s, s.H(r)["closed"] is True, prop="C11", kind="exit")
            if kind == "return":
                for im in s.ghost.get("strip_images", []):
                    eng.oblige("C11:per-line-image-closed", s, s.H(im)["open"] is False, prop="C11", kind="exit")
            if kind != "return":
                ok = kind == "raise" and val.cls in ("RenderError", "OSError", "ValueError", "TermImageUserWarning")
                eng.oblige(f"only-render-errors-escape:{getattr(val, 'cls', kind)}", s, ok, kind="raise")
                if kind == "raise" and val.cls == "TermImageUserWarning":
                    # the size warning comes after the render has everything it needs from the image it was given: an escalated
                    # warning must find that image already handed to _close_image (as every later failure does), not left to the
                    # garbage collector.  (A failing open() of the data stream, earlier, is the documented reliance on CPython's
                    # reference counting - see TRUSTED.)
                    eng.oblige("C11:image-handed-to-_close_image-before-a-failure-after-the-data-stream-was-opened", s, img0.id in s.ghost["closed_images"],
                               prop="C11", kind="exit", replay="C11.warn_escalated")
                continue
            if isinstance(val, Rec) and val.name == "rendered":
                g = dict(val.f["vt"])
                s2 = s
            else:
                s2 = s.fork()
                vt = VT(eng, s2, tag="whole", line_pred=line_pred)
                vt.feed(val)
                vt.commit()
                g = dict(s2.ghost["vt"])
            vt = VT(eng, s2, line_pred=line_pred)
            vt.g = dict(g)
            vt.finish()
            eng.oblige("H-1-newlines,no-trailing-newline,attributes-untouched,cursor-on-last-line-after-last-column", s2,
                       z3.And(to_z3(g["nl"]) == H - 1, z3.Not(g["last_nl"]), g["sgr_default"], to_z3(g["row"]) == r0 + H - 1,
                              z3.Or(to_z3(g["col"]) == W, z3.And(W == TW, to_z3(g["col"]) == TW - 1)), to_z3(g["bottom"]) == B0,
                              z3.BoolVal(g["parser"] == "ground")), kind="post")
            cmds = g.get("iterm2", [])
            eng.oblige("C20:render-method-used=the-per-call-override(any-letter-case),else-the-image's-effective-method", s2,
                       And(method == "lines" or len(cmds) >= 1, *[Eq(c_["height"], 1 if method == "lines" else rh) for c_ in cmds]), prop="C20", kind="post")
            req = s2.ghost.get("render_data_size")
            if req is not None:
                # the pixel data is asked for at the resolution of the method actually used: WHOLE the minimal size, LINES (and a
                # native-animation request that falls back) the full render size
                want = (mw, mh) if method == "whole" else (rw * cw, rh * ch)
                for pr_ in ("C20", "C03"):
                    eng.oblige(f"{pr_}:pixel-data-requested-at-the-resolution-of-the-method-used", s2, Eq(req, want), prop=pr_, kind="post",
                               replay="C20.method_override" if pr_ == "C20" else "C03.render")
            if method != "lines":
                ok = len(cmds) == 1 and And(Eq(cmds[0]["width"], rw), Eq(cmds[0]["height"], rh))
                eng.oblige("one-image-command-covering-exactly-the-rectangle", s2,
                           And(ok, g.get("img") is not None and And(to_z3(g["img"][0]) == r0, to_z3(g["img"][1]) == r0 + rh, to_z3(g["img"][2]) == 0, to_z3(g["img"][3]) == rw)),
                           kind="post",
                           # a native-animation request served by another layout than one command (per-line strips) is C11's
                           # business; for the rectangle clause of C01 it counts only if a replay shows cells uncovered
                           **({"over_approx": "layout other than one image command: the rectangle clause is decided by the replay"} if method == "anim" and len(cmds) != 1 else {}))
                if method == "anim":
                    # C11: a native-animation request that cannot be served natively (a frame of an iteration / animated draw, a
                    # still image) falls back to ONE whole-image command per frame, never to per-line strips
                    eng.oblige("C11:native-animation-request-falls-back-to-a-whole-image-frame(one-command)", s2, And(ok), prop="C11", kind="post",
                               replay="C11.anim_fallback")
                if cmds:
                    eng.oblige("C03:konsole-gets-doNotMoveCursor,others-do-not", s2, (cmds[0]["keys"].get("doNotMoveCursor") == 1) == konsole, prop="C03", kind="post")
        return eng.obligations
    return u


for _meth in ("lines", "whole", "anim"):
    for _term in ("konsole", "wezterm", "iterm2"):
        for _src in ("pil-nofile", "pil-file", "file"):
            iterm2_unit(_meth, _term, _src)
    for _ov in (_meth.upper(), _meth.capitalize()):
        iterm2_unit(_meth, "iterm2", "file", override=_ov)
for _sm in ("RGB", "RGBA", "LA", "P", "L"):
    for _ak in ("float", "hex", "#", "None"):
        if (_sm, _ak) != ("RGB", "float"):
            iterm2_unit("whole", "iterm2", "file", src_mode=_sm, alpha_kind=_ak)
