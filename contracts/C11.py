"""C11 - Image iteration matches frame-by-frame rendering and leaks nothing."""
from .render_data import *
from .render_iterm2 import *
from .render_kitty import *     # noqa: F401,F403  frame-image bookkeeping of KittyImage._render_image
from .render_block import *     # noqa: F401,F403  ... and of BlockImage._render_image
from .image_iterator import *

TRUSTED = ["typestate model of byte streams / PIL images: open() and io.BytesIO() create a stream, `with` / close() closes it; PIL.Image.frombytes creates an image",
           "CPython releases objects that are no longer referenced (exceptional exits only)"]
ASSUMPTIONS = []
NOT_DECIDED = ["textual equality of each iterated frame with format(image, spec) of that frame (dataflow argument only, DESIGN 5.C11)",
               "URL-sourced images: faults of os.write / os.close while the temporary copy is being written (not in the property's quantifier)"]

from .C04 import u_renderer_frame  # noqa: F401,E402  (size setting restored by _renderer on every exit)
from .old_draw import *   # noqa: F401,E402  old-API draw / _display_animated
from .url_source import *   # noqa: F401,F403,E402  URL-sourced images: temporary file lifetime
