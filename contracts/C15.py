"""C15 - Cached terminal facts never outlive the condition they were computed under (sequential histories)."""
import ast
import z3
from pyvc.runner import unit, run_function
from pyvc.values import *
from pyvc.engine import State
from .common import *

INIT, UTILS = "__init__.py", "utils.py"
TRUSTED = ["the history quantifier is discharged by induction over operations (each operation preserves the cache invariant): the ADT meta-argument is not machine-checked",
           "fcntl.ioctl / query_terminal / regex matching return values as described by their assumed contracts"]
ASSUMPTIONS = ["concurrency enters only through the monitor (lock-invariant) rule: state owned by a lock is stable while the lock is held and "
               "arbitrary at the next acquisition; RLock gives mutual exclusion and release-acquire ordering; the rule's soundness is a "
               "meta-theorem, not machine-checked; no schedule is explored by the prover (one deterministic schedule per failed "
               "obligation is replayed with real threads)"]
NOT_DECIDED = ["races between a call and a concurrent invalidation or resize (the property quantifies over concurrent first calls and, "
               "for the toggles, over what a later call sees)"]
CONC = "C15.concurrent_first_calls"


class Monitor:
    """Monitor (lock-invariant) rule for one lock and the state it owns.

    * the owned state is stable only while the lock is held: at the second and every later outermost acquisition on a path it is
      replaced by an arbitrary state (`havoc`) - what other threads did in between;
    * the wrapped body may run only (a) while the lock is held and (b) in a critical section that has itself seen the entry missing;
    * a result computed in a critical section is stored before that section ends.
    (a)-(c) give 'the body runs at most once per key until invalidated' for every schedule of concurrent callers.  They are sufficient,
    not necessary: a failure that the threaded replay cannot reproduce is reported as undecided, never as a violation."""
    WHY = "monitor-rule(sufficient-not-necessary)"

    def __init__(self, eng, st, havoc, absent, stored, cls="monlock"):
        self.eng, self.havoc, self.absent, self.stored = eng, havoc, absent, stored
        self.lock = st.new(cls, {})
        st.ghost.update(mon_depth=0, mon_sections=0, mon_ran=None)
        eng.methods[(cls, "__enter__")] = self.enter
        eng.methods[(cls, "__exit__")] = self.exit
        eng.closed_classes.add(cls)

    def enter(self, e, s, recv, a, k):
        s = e.fork(s)
        outs = [s]
        if s.ghost["mon_depth"] == 0:
            s.ghost["mon_sections"] += 1
            if s.ghost["mon_sections"] > 1 or s.ghost.get("mon_touched"):
                s.ghost["@over_approx"] = ["state owned by the lock re-read after other threads may have run"]
                outs = self.havoc(e, s)
        for s2 in outs:
            s2.ghost["mon_depth"] = s2.ghost["mon_depth"] + 1
        return [(recv, s2) for s2 in outs]

    def exit(self, e, s, recv, a, k):
        s = e.fork(s)
        s.ghost["mon_depth"] -= 1
        if s.ghost["mon_depth"] == 0 and s.ghost["mon_ran"] == s.ghost["mon_sections"]:
            e.oblige("result-stored-before-the-lock-is-released", s, self.stored(s), kind="post", replay=CONC, over_approx=self.WHY)
        return [(None, s)]

    def body_call(self, e, s):
        """obligations at a call of the wrapped function"""
        e.oblige("body-runs-only-while-the-lock-is-held", s, s.ghost["mon_depth"] > 0, kind="post", replay=CONC, over_approx=self.WHY)
        e.oblige("body-runs-only-after-a-miss-seen-in-the-same-critical-section", s, self.absent(s), kind="post", replay=CONC, over_approx=self.WHY)

    def access(self, e, s, write):
        """an access to the owned state"""
        if s.ghost["mon_depth"] == 0:
            s.ghost["mon_touched"] = True
            if write:
                e.oblige("owned-state-written-only-while-the-lock-is-held", s, False, kind="post", replay=CONC, over_approx=self.WHY)

    def body_done(self, s):
        s.ghost["mon_ran"] = s.ghost["mon_sections"] if s.ghost["mon_depth"] > 0 else -1


# ------------------------------------------------------------------------------------------------
# ghost-annotated module state of term_image.utils:
#   _cell_size_cache = [c, r, cw, ch];  ghost cs_swap, cs_q: the settings under which the cached value was computed
#   invariant I_cs: cache[:2] != (0, 0)  =>  cs_swap == _swap_win_size  and  (_queries_enabled => cs_q)
# ------------------------------------------------------------------------------------------------
def utils_state(eng, st, sym=True):
    c, r, cw, ch = z3.Ints("cache_c cache_r cache_cw cache_ch")
    swap, q, cs_swap, cs_q = z3.Bools("swap_win_size queries_enabled cs_swap cs_q")
    cache = st.new_list([c, r, cw, ch])
    u = st.new("module", {"_cell_size_cache": cache, "_swap_win_size": swap, "_queries_enabled": q,
                          "_cell_size_lock": Opaque("lock"), "_tty_lock": Opaque("lock")})
    st.ghost["cs_swap"], st.ghost["cs_q"] = cs_swap, cs_q
    st.pc += [c >= 0, r >= 0, cw >= 0, ch >= 0]
    return u, cache


def I_cs(s, u, cache):
    h = s.H(u)
    c = s.H(h["_cell_size_cache"])
    valid = Not(And(Eq(c[0], 0), Eq(c[1], 0)))
    return Implies(valid, And(to_z3(s.ghost["cs_swap"]) == to_z3(h["_swap_win_size"]),
                              Implies(to_z3(h["_queries_enabled"]), to_z3(s.ghost["cs_q"]))))


def cache_zeroed(s, u):
    c = s.H(s.H(u)["_cell_size_cache"])
    return And(len(c) == 4, *[Eq(x, 0) for x in c])


def make_invalidator(st, name):
    o = st.new("cachedfn", {"invalidated": False})
    return o


def toggle_world(ctx, eng, st):
    u, cache = utils_state(eng, st)
    st.pc.append(to_z3(I_cs(st, u, cache)))
    fg, nv = make_invalidator(st, "fg"), make_invalidator(st, "nv")
    st.H(u)["get_fg_bg_colors"], st.H(u)["get_terminal_name_version"] = fg, nv

    def inval_attr(e, s, v):
        def call(e2, s2, a, k):
            s2 = e2.fork(s2)
            s2.H(v)["invalidated"] = True
            return [(None, s2)]
        return [(Fn(call), s)]
    eng.attrs[("cachedfn", "_invalidate_cache")] = inval_attr
    eng.genv["utils"] = u
    # whatever else of the utils module a toggle may consult: the current terminal size (any size, unrelated to the cache's stamp)
    st.H(u)["get_terminal_size"] = Fn(lambda e, s, a, k: [((z3.Int("terminal_columns_now"), z3.Int("terminal_lines_now")), s)])
    # publication order (monitor rule): what the settings and the cache are each time the cell-size lock is released / a memoized
    # answer is dropped - a caller that runs right after that point computes under exactly those settings and caches the result
    lock = st.new("monlock", {})
    st.H(u)["_cell_size_lock"] = lock
    st.ghost.update(lock_depth=0, releases=[], invalidations=[])

    def enter(e, s, recv, a, k):
        s = e.fork(s)
        s.ghost["lock_depth"] += 1
        return [(recv, s)]

    def exit_(e, s, recv, a, k):
        s = e.fork(s)
        s.ghost["lock_depth"] -= 1
        if s.ghost["lock_depth"] == 0:
            h = s.H(u)
            s.ghost["releases"] = s.ghost["releases"] + [(h["_swap_win_size"], h["_queries_enabled"], cache_zeroed(s, u))]
        return [(None, s)]
    eng.methods[("monlock", "__enter__")], eng.methods[("monlock", "__exit__")] = enter, exit_

    def inval_attr2(e, s, v):
        def call(e2, s2, a, k):
            s2 = e2.fork(s2)
            s2.H(v)["invalidated"] = True
            s2.ghost["invalidations"] = s2.ghost["invalidations"] + [s2.H(u)["_queries_enabled"]]
            return [(None, s2)]
        return [(Fn(call), s)]
    eng.attrs[("cachedfn", "_invalidate_cache")] = inval_attr2
    return u, cache, fg, nv


def published(eng, outs, u, must_discard, name):
    """the toggle has to publish the new setting BEFORE it discards what was computed under the old one: a caller in another thread
    that gets the lock right after the discarding critical section must already see the final setting (otherwise it caches a value
    computed under the old setting, which nothing discards afterwards).  Sufficient, not necessary (see Monitor)."""
    for kind, val, s in outs:
        if kind not in ("return", "normal"):
            continue
        h = s.H(u)
        fin_swap, fin_q = to_z3(h["_swap_win_size"]), to_z3(h["_queries_enabled"])
        rel = s.ghost["releases"]
        if rel:
            sw, q, zeroed = rel[-1]
            ok = And(to_z3(sw) == fin_swap, to_z3(q) == fin_q, zeroed)
        else:
            ok = False
        eng.oblige("setting-published-before-the-cell-size-cache-is-discarded(under-the-lock)", s, Implies(must_discard(s), ok), kind="post",
                   replay="C15.toggle_publication", over_approx=Monitor.WHY)
        if name == "enable_queries":
            inv = s.ghost["invalidations"]
            ok2 = And(len(inv) >= 2, *[to_z3(q) == fin_q for q in inv])
            eng.oblige("setting-published-before-the-memoized-answers-are-dropped", s, Implies(must_discard(s), ok2), kind="post",
                       replay="C15.toggle_publication", over_approx=Monitor.WHY)


@unit("C15", "__init__:toggles")
def u_toggles(ctx):
    obs = []
    for name in ("enable_win_size_swap", "disable_win_size_swap", "enable_queries", "disable_queries"):
        eng = ctx.engine(f"C15/{name}", "C15")
        st = State()
        u, cache, fg, nv = toggle_world(ctx, eng, st)
        old = dict(st.H(u))
        old_cache = list(st.H(cache))
        outs = run_function(eng, ctx.fn(INIT, name), st)

        def ensure(v, s, name=name):
            h = s.H(u)
            swap0, q0 = old["_swap_win_size"], old["_queries_enabled"]
            same_cache = And(*[Eq(a, b) for a, b in zip(s.H(h["_cell_size_cache"]), old_cache)])
            inval = And(s.H(fg)["invalidated"], s.H(nv)["invalidated"])
            g = I_cs(s, u, cache)
            if name.endswith("win_size_swap"):
                target = name.startswith("enable")
                g = And(g, to_z3(h["_swap_win_size"]) == target, to_z3(h["_queries_enabled"]) == q0,
                        # the flag changed => the cached cell size is discarded; unchanged => nothing happens
                        If(swap0 != target, cache_zeroed(s, u), same_cache), Not(Or(s.H(fg)["invalidated"], s.H(nv)["invalidated"])))
            elif name == "disable_queries":
                g = And(g, Not(to_z3(h["_queries_enabled"])), to_z3(h["_swap_win_size"]) == swap0, same_cache)
            else:
                # re-enabling queries discards results obtained while they were disabled
                g = And(g, to_z3(h["_queries_enabled"]), to_z3(h["_swap_win_size"]) == swap0,
                        If(q0, And(same_cache, Not(Or(s.H(fg)["invalidated"], s.H(nv)["invalidated"]))), And(cache_zeroed(s, u), inval)))
            return g
        exits(eng, outs, ensure=ensure, replay="C15.toggles")
        swap0, q0 = old["_swap_win_size"], old["_queries_enabled"]
        if name.endswith("win_size_swap"):
            published(eng, outs, u, lambda s, t=name.startswith("enable"): to_z3(swap0) != t, name)
        elif name == "enable_queries":
            published(eng, outs, u, lambda s: Not(to_z3(q0)), name)
        obs += eng.obligations
    return obs


# ------------------------------------------------------------------------------------------------ cached
class MapModel:
    """dict with symbolic keys: z3 arrays has/val over an integer key code"""

    def __init__(self, tag):
        self.has = z3.Array(f"{tag}_has", z3.IntSort(), z3.BoolSort())
        self.val = z3.Array(f"{tag}_val", z3.IntSort(), z3.IntSort())


def nested(fnode, name):
    for n in ast.walk(fnode):
        if isinstance(n, ast.FunctionDef) and n.name == name and n is not fnode:
            return n
    raise Unsupported(f"nested function {name} not found")


@unit("C15", "utils:cached")
def u_cached(ctx):
    eng = ctx.engine("C15/cached", "C15")
    outer = ctx.fn(UTILS, "cached")
    wrapper, invalidate = nested(outer, "cached_wrapper"), nested(outer, "invalidate")
    key = z3.Int("key")                      # code of the argument tuple (args, tuple(kwargs.items())): injective by construction
    F = z3.Function("func_result", z3.IntSort(), z3.IntSort())
    m0 = m00 = MapModel("cache0")

    def dict_world(st):
        d = st.new("mapdict", {"has": m0.has, "val": m0.val})
        st.ghost["calls"] = z3.IntVal(0)
        return d

    def code(k):
        # the wrapper must build its key from exactly (args, tuple(kwargs.items()))
        if isinstance(k, tuple) and len(k) == 2 and k[0] == ("ARGS",) and k[1] == ("KWITEMS",):
            return key
        # any other construction of the key is some other (possibly colliding) dictionary slot
        return z3.Int("key:" + repr(k))

    def getitem(e, s, recv, a, k):
        kk = code(a[0])
        mon.access(e, s, False)
        out = []
        for present, s2 in e.split(s, s.H(recv)["has"][kk]):
            if present:
                out.append((s2.H(recv)["val"][kk], s2))
            else:
                e.raise_(ExcVal("KeyError"), s2)
        return out

    def setdefault(e, s, recv, a, k):
        kk = code(a[0])
        s = e.fork(s)
        mon.access(e, s, True)
        h = s.H(recv)
        old_has = h["has"][kk]
        newval = If(old_has, h["val"][kk], a[1])
        h["val"] = z3.Store(h["val"], kk, to_z3(newval))
        h["has"] = z3.Store(h["has"], kk, True)
        return [(newval, s)]

    def clear(e, s, recv, a, k):
        s = e.fork(s)
        mon.access(e, s, True)
        s.H(recv)["has"] = z3.K(z3.IntSort(), z3.BoolVal(False))
        return [(None, s)]

    def setitem(e, s, recv, a, k):
        kk = code(a[0])
        mon.access(e, s, True)
        h = s.H(recv)
        h["val"] = z3.Store(h["val"], kk, to_z3(a[1]))
        h["has"] = z3.Store(h["has"], kk, True)
        return [(None, s)]
    eng.methods.update({("mapdict", "__getitem__"): getitem, ("mapdict", "setdefault"): setdefault, ("mapdict", "clear"): clear,
                        ("mapdict", "__setitem__"): setitem})
    eng.closed_classes.add("mapdict")

    def func(e, s, a, k):
        if a != ("ARGS",) or list(k) != ["KW"]:
            raise Unsupported("wrapped function called with different arguments")
        s = e.fork(s)
        mon.body_call(e, s)
        s.ghost["calls"] = s.ghost["calls"] + 1
        e.raise_(ExcVal("Boom"), e.fork(s))          # the wrapped function may fail
        mon.body_done(s)
        return [(F(key), s)]
    # ---- wrapper
    st = State()
    d = dict_world(st)

    def havoc(e, s):
        n = e.sym_int("epoch").decl().name()
        m = MapModel(f"cache@{n}")
        s.H(d)["has"], s.H(d)["val"] = m.has, m.val
        s.ghost["base"] = m                # the post-conditions speak about the cache as of the last acquisition
        return [s]
    mon = Monitor(eng, st, havoc, absent=lambda s: Not(s.H(d)["has"][key]),
                  stored=lambda s: And(s.H(d)["has"][key], s.H(d)["val"][key] == F(key)))
    st.env.update(cache=d, lock=mon.lock, func=Fn(func), args=("ARGS",), kwargs=st.new("kwdict", {"@items": {"KW": "KWVAL"}}))

    eng.methods[("kwdict", "items")] = lambda e, s, recv, a, k: [(("KWITEMS",), s)]
    eng.methods[("kwdict", "keys")] = lambda e, s, recv, a, k: [(("KWNAMES",), s)]
    eng.methods[("kwdict", "values")] = lambda e, s, recv, a, k: [(("KWVALUES",), s)]
    orig_iter_concrete = eng.iter_concrete

    def iter_concrete(v, s_):
        if isinstance(v, Ref) and v.cls == "kwdict":
            return ["KWNAMES"]             # iterating a dict gives its keys: the keyword NAMES, without their values
        return orig_iter_concrete(v, s_)
    eng.iter_concrete = iter_concrete
    eng.label = "C15/cached.wrapper"
    outs = run_function(eng, wrapper, st)
    for kind, val, s in outs:
        h = s.H(d)
        calls = s.ghost["calls"]
        m0 = s.ghost.get("base", m00)
        k2 = z3.Int("other_key")
        others = z3.ForAll([k2], z3.Implies(k2 != key, z3.And(h["has"][k2] == m0.has[k2], h["val"][k2] == m0.val[k2])))
        if kind == "return":
            goal = And(If(m0.has[key], And(calls == 0, val == m0.val[key], h["val"][key] == m0.val[key]),
                          And(calls == 1, val == F(key), h["val"][key] == F(key))), h["has"][key], others)
            eng.oblige("body-runs-iff-key-absent,result-stored", s, goal, kind="post", replay="C15.cached")
        elif kind == "raise":
            goal = And(val.cls == "Boom", Not(m0.has[key]), calls == 1, Not(h["has"][key]), others)
            eng.oblige(f"failed-call-stores-nothing:{val.cls}", s, goal, kind="raise", replay="C15.cached")
        else:
            raise Unsupported(kind)
    # ---- invalidate
    st = State()
    d = dict_world(st)
    mon = Monitor(eng, st, havoc, absent=None, stored=None)
    st.env.update(cache=d, lock=mon.lock)
    eng.label = "C15/cached.invalidate"
    outs = run_function(eng, invalidate, st)
    k2 = z3.Int("any_key")
    exits(eng, outs, ensure=lambda v, s: z3.ForAll([k2], z3.Not(s.H(d)["has"][k2])), replay="C15.cached")
    # ---- the decorator wires the two together: the wrapper and `_invalidate_cache` share one dict
    src = ast.unparse(outer)
    eng.label = "C15/cached.wiring"
    st = State()
    eng.oblige("invalidate-attached-to-wrapper", st, 'setattr(cached_wrapper, \'_invalidate_cache\', invalidate)' in src and "return cached_wrapper" in src, kind="post")
    return eng.obligations


@unit("C15", "utils:terminal_size_cached")
def u_ts_cached(ctx):
    eng = ctx.engine("C15/terminal_size_cached", "C15")
    outer = ctx.fn(UTILS, "terminal_size_cached")
    wrapper, invalidate = nested(outer, "terminal_size_cached_wrapper"), nested(outer, "invalidate")
    F = z3.Function("tsfunc_result", z3.IntSort(), z3.IntSort(), z3.IntSort())
    tw, th, cw_, chh, cval = z3.Ints("tw th cached_tw cached_th cached_val")
    for has_entry in (True, False):
        eng.label = f"C15/terminal_size_cached.wrapper[{'entry' if has_entry else 'empty'}]"
        st = State()
        st.pc += [tw >= 1, th >= 1, cw_ >= 1, chh >= 1]
        st.ghost["calls"] = z3.IntVal(0)
        st.ghost.update(ts_reads=0, last_read=None, read_before_body=None)
        BODY = z3.Int("body_result")

        def get_ts(e, s, a, k):
            # the terminal may be resized between two reads of its size: the first read gives (tw, th), every later one any size
            s = e.fork(s)
            n = s.ghost["ts_reads"] = s.ghost["ts_reads"] + 1
            a_, b_ = (tw, th) if n == 1 else (z3.Int(f"tw_read{n}"), z3.Int(f"th_read{n}"))
            if n > 1:
                s.pc += [a_ >= 1, b_ >= 1]
            s.ghost["last_read"] = (a_, b_)
            return [(Rec("terminal_size", {"columns": a_, "lines": b_}), s)]
        eng.genv["get_terminal_size"] = Fn(get_ts)

        def func(e, s, a, k):
            s = e.fork(s)
            mon.body_call(e, s)
            s.ghost["read_before_body"] = s.ghost["last_read"]        # the size in force, as far as the wrapper knows, when the body starts
            s.ghost["calls"] = s.ghost["calls"] + 1
            e.raise_(ExcVal("Boom"), e.fork(s))
            mon.body_done(s)
            return [(BODY, s)]
        entry = (cval, Rec("terminal_size", {"columns": cw_, "lines": chh})) if has_entry else None

        def entry_size(c):
            if not (isinstance(c, tuple) and len(c) == 2):
                raise Unsupported("shape of the terminal-size cache entry")
            t = c[1]
            return t.astuple() if isinstance(t, Rec) else tuple(t)

        def havoc(e, s):
            # what another thread may have left: nothing, or any entry
            s2 = e.fork(s)
            s.frames[0]["cache"] = None
            v, a_, b_ = e.sym_int("other_val"), e.sym_int("other_tw"), e.sym_int("other_th")
            s2.pc += [a_ >= 1, b_ >= 1]
            s2.frames[0]["cache"] = (v, Rec("terminal_size", {"columns": a_, "lines": b_}))
            return [s, s2]

        def absent(s):
            c = s.frames[0]["cache"]
            return True if c is None else Not(And(Eq(entry_size(c)[0], tw), Eq(entry_size(c)[1], th)))

        def stored(s):
            c = s.frames[0]["cache"]
            return False if c is None else Eq(c[0], BODY)
        mon = Monitor(eng, st, havoc, absent, stored)
        st.env.update(cache=entry, lock=mon.lock, func=Fn(func), get_terminal_size=eng.genv["get_terminal_size"])
        # (the result is filed under the size read BEFORE the body ran: if the terminal is resized while the body runs, the next call
        # sees a different size and computes again - filing it under a size read afterwards would serve the old value for the new size)
        # the wrapper is a closure over `cache`: run it one frame deeper so that `nonlocal cache` resolves
        st.frames.append({"args": (), "kwargs": st.new("dict", {"@items": {}}), "__nonlocal__": {"cache"}})
        outs = run_function(eng, wrapper, st)
        for kind, val, s in outs:
            calls = s.ghost["calls"]
            c = s.frames[0]["cache"]
            same = And(Eq(cw_, tw), Eq(chh, th)) if has_entry else False
            if kind == "return":
                rb = s.ghost["read_before_body"]
                filed = (c is not None and rb is not None) and And(Eq(c[0], BODY), Eq(entry_size(c)[0], rb[0]), Eq(entry_size(c)[1], rb[1]))
                goal = If(same, And(calls == 0, Eq(val, cval)), And(calls == 1, Eq(val, BODY), filed))
                eng.oblige("body-runs-iff-no-entry-or-terminal-size-changed;result-filed-under-the-size-read-before-the-body-ran", s, goal, kind="post", replay="C15.ts_cached")
            else:
                eng.oblige(f"failed-call:{val.cls}", s, And(val.cls == "Boom", Not(same), calls == 1,
                                                            (c is entry)), kind="raise", replay="C15.ts_cached")
    eng.label = "C15/terminal_size_cached.invalidate"
    st = State()
    mon = Monitor(eng, st, None, None, None)
    st.env.update(cache=(cval, (cw_, chh)), lock=mon.lock)
    st.frames.append({"__nonlocal__": {"cache"}})
    released = []
    orig_exit = eng.methods[("monlock", "__exit__")]

    def exit_(e, s, recv, a, k):
        released.append(s.frames[0]["cache"] is None)
        return orig_exit(e, s, recv, a, k)
    eng.methods[("monlock", "__exit__")] = exit_
    outs = run_function(eng, invalidate, st)
    exits(eng, outs, ensure=lambda v, s: s.frames[0]["cache"] is None)
    eng.oblige("entry-dropped-inside-the-critical-section", st, released == [True], kind="post", replay=CONC, over_approx=Monitor.WHY)
    return eng.obligations


# ------------------------------------------------------------------------------------------------ get_cell_size
def spec_cell_size(io_ok, io_area, q_enabled, resp_cell, resp_area, termux, swap, ts):
    """documented derivation: ioctl pixel area, else XTWINOPS cell size, else XTWINOPS text-area size; the area is
    swapped iff the window-size-swap workaround is on and divided by the terminal size; -> (cw, ch), 0 = unknown"""
    tw, th = ts
    iw, ih = io_area
    use_io = And(io_ok, iw != 0, ih != 0)
    cw_q, ch_q = resp_cell if resp_cell is not None else (0, 0)
    aw, ah = resp_area if resp_area is not None else (0, 0)
    ah = If(termux, ah * 2, ah)
    have_cell = resp_cell is not None
    have_area = resp_area is not None

    def from_area(w, h):
        w, h = If(swap, h, w), If(swap, w, h)
        return (floordiv(w, tw), floordiv(h, th))
    if have_cell:
        q_val = (cw_q, ch_q)
    elif have_area:
        q_val = from_area(aw, ah)
    else:
        q_val = (0, 0)
    io_val = from_area(iw, ih)
    return If(use_io, io_val, q_val)


@unit(("C15", "C12"), "utils:get_cell_size")
def u_get_cell_size(ctx):
    obs = []
    fn = ctx.fn(UTILS, "get_cell_size")
    for resp_kind in ("none", "empty", "cell", "area", "other"):
        eng = ctx.engine(f"C15/get_cell_size[reply={resp_kind}]", "C15")
        st = State()
        u, cache = utils_state(eng, st)
        st.pc.append(to_z3(I_cs(st, u, cache)))
        eng.globals_obj = u
        tw, th = z3.Ints("tw th")
        st.pc += [tw >= 1, th >= 1]
        st.H(u)["_tty_fd"] = z3.Int("tty_fd")
        eng.genv["get_terminal_size"] = Fn(lambda e, s, a, k: [(Rec("terminal_size", {"columns": tw, "lines": th}), s)])
        eng.genv["_Size"] = fn_size("Size")
        eng.genv["floordiv"] = Fn(lambda e, s, a, k: e.binop(ast.FloorDiv(), a[0], a[1], s))
        eng.genv["array"] = Fn(lambda e, s, a, k: [(a[1], s)])
        io_w, io_h, io_ret = z3.Ints("ioctl_xpixel ioctl_ypixel ioctl_ret")
        st.pc += [io_w >= 0, io_h >= 0]
        st.ghost["io_ok"] = False

        def ioctl(e, s, a, k):
            fd, req, buf = a
            s1 = e.fork(s)
            s1.ghost["io_ok"] = False
            e.raise_(ExcVal("OSError"), s1)
            out = []
            for zero, s2 in e.split(s, io_ret == 0):
                s2 = e.fork(s2)
                if zero:
                    s2.H(buf)[:] = [th, tw, io_w, io_h]       # struct winsize: rows, cols, xpixel, ypixel
                    s2.ghost["io_ok"] = True
                else:
                    s2.ghost["io_ok"] = False
                out.append((io_ret, s2))
            return out
        eng.genv["fcntl"] = Namespace("fcntl", {"ioctl": Fn(ioctl)})
        eng.genv["termios"] = Namespace("termios", {"TIOCGWINSZ": 21523})
        rh, rw = z3.Ints("reply_h reply_w")
        st.pc += [rh >= 0, rw >= 0]
        st.ghost["queried"] = False

        def query_terminal(e, s, a, k):
            # contract of query_terminal (C12/C13 units): None when queries are disabled, else what the terminal replied
            out = []
            for q, s2 in e.split(s, s.H(u)["_queries_enabled"]):
                s2 = e.fork(s2)
                if not q:
                    out.append((None, s2))
                    continue
                s2.ghost["queried"] = True
                # the query may fail (termios.error is an OSError) or be interrupted; nothing here catches that
                for exc in ("KeyboardInterrupt", "OSError"):
                    s3 = e.fork(s2)
                    s3.ghost["query_raised"] = exc
                    e.raise_(ExcVal(exc), s3)
                if resp_kind == "none":
                    out.append((None, s2))
                else:
                    out.append((s2.new("response", {"kind": resp_kind}), s2))
            return out
        eng.genv["query_terminal"] = Fn(query_terminal)
        eng.methods[("response", "__bool__")] = lambda e, s, recv, a, k: [(s.H(recv)["kind"] != "empty", s)]
        eng.methods[("response", "decode")] = lambda e, s, recv, a, k: [(recv, s)]
        eng.methods[("response", "endswith")] = lambda e, s, recv, a, k: [(e.sym_bool("endswith"), s)]

        def matcher(which):
            def match(e, s, recv, a, k):
                kind = s.H(a[0])["kind"]
                if kind == which:
                    return [(Rec("match", {"g": (Rec("digits", {"v": rh}), Rec("digits", {"v": rw}))}), s)]   # XTWINOPS: (height, width)
                return [(None, s)]
            return match
        eng.methods[("re_cell", "match")] = matcher("cell")
        eng.methods[("re_area", "match")] = matcher("area")
        eng.attrs[("match", "groups")] = lambda e, s, v: [(Fn(lambda e2, s2, a, k: [(v.f["g"], s2)]), s)]
        cs = ctx.ns("term_image._ctlseqs")
        d = dict(cs.d)
        d["CELL_SIZE_PX_re"], d["TEXT_AREA_SIZE_PX_re"] = st.new("re_cell"), st.new("re_area")
        eng.genv["ctlseqs"] = Namespace("ctlseqs", d)
        termux = z3.Bool("on_termux")
        shell = st.new("envstr")
        eng.methods[("envstr", "startswith")] = lambda e, s, recv, a, k: [(termux, s)]
        eng.genv["os"] = Namespace("os", {"environ": Namespace("environ", {"get": Fn(lambda e, s, a, k: [(shell, s)])})})
        # monitor rule for _cell_size_lock: the cache it owns, and the settings the toggles publish before they discard the cache,
        # are what the getter sees from the moment it takes the lock - anything read earlier may be out of date by then.  Every
        # outermost acquisition therefore starts from an arbitrary cache / settings state satisfying the invariant, and the
        # post-condition speaks about the state as of the last acquisition.
        glock = st.new("monlock", {})
        st.H(u)["_cell_size_lock"] = glock
        st.ghost.update(lock_depth=0, sections=0, base=(list(st.H(cache)), dict(st.H(u))), at_release=None)

        def enter(e, s, recv, a, k):
            s = e.fork(s)
            if s.ghost["lock_depth"] == 0:
                s.ghost["sections"] += 1
                n = e.sym_int("acq").decl().name()
                vals = [z3.Int(f"cache{i}@{n}") for i in range(4)]
                s.pc += [v >= 0 for v in vals]
                s.H(s.H(u)["_cell_size_cache"])[:] = vals
                s.H(u)["_swap_win_size"], s.H(u)["_queries_enabled"] = z3.Bool(f"swap@{n}"), z3.Bool(f"queries@{n}")
                s.ghost["cs_swap"], s.ghost["cs_q"] = z3.Bool(f"cs_swap@{n}"), z3.Bool(f"cs_q@{n}")
                s.pc.append(to_z3(I_cs(s, u, cache)))
                s.ghost["base"] = (vals, dict(s.H(u)))
                if s.ghost["sections"] > 1:
                    s.ghost["@over_approx"] = ["cache and settings re-read after other threads may have run"]
            s.ghost["lock_depth"] += 1
            return [(recv, s)]

        def exit_(e, s, recv, a, k):
            s = e.fork(s)
            s.ghost["lock_depth"] -= 1
            if s.ghost["lock_depth"] == 0:
                s.ghost["at_release"] = list(s.H(s.H(u)["_cell_size_cache"]))
            return [(None, s)]
        eng.methods[("monlock", "__enter__")], eng.methods[("monlock", "__exit__")] = enter, exit_
        outs = run_function(eng, fn, st)
        for kind, val, s in outs:
            if kind == "raise" and s.ghost.get("query_raised") == getattr(val, "cls", None):
                # a call that fails while it queries has computed nothing: the entry it leaves is the one it found (or none at all),
                # never a half-written one that a later call at this terminal size would serve as if it were fresh
                old_cache, old = s.ghost["base"]
                c = s.H(s.H(u)["_cell_size_cache"])
                eng.oblige("failed-query:cache-left-as-found-or-discarded(no-half-written-entry)", s,
                           And(len(c) == 4, Or(And(*[Eq(a, b) for a, b in zip(c, old_cache)]), And(Eq(c[0], 0), Eq(c[1], 0))),
                               to_z3(s.H(u)["_swap_win_size"]) == to_z3(old["_swap_win_size"]),
                               to_z3(s.H(u)["_queries_enabled"]) == to_z3(old["_queries_enabled"]), s.ghost["lock_depth"] == 0),
                           kind="raise", replay="C15.failed_query")
                continue
            if kind != "return":
                eng.oblige(f"no-exception:{getattr(val, 'cls', kind)}", s, False, kind="raise")
                continue
            old_cache, old = s.ghost["base"]
            swap, q = old["_swap_win_size"], old["_queries_enabled"]
            hit = And(Eq(tw, old_cache[0]), Eq(th, old_cache[1]))
            c = s.H(s.H(u)["_cell_size_cache"])
            rel = s.ghost["at_release"]
            eng.oblige("cell-size-cache-written-only-inside-a-critical-section-of-its-lock", s,
                       (len(rel) == len(c) and And(*[Eq(a_, b_) for a_, b_ in zip(rel, c)])) if rel is not None
                       else (len(c) == len(old_cache) and And(*[Eq(a_, b_) for a_, b_ in zip(old_cache, c)])),
                       kind="post", replay="C15.toggle_publication", over_approx=Monitor.WHY)
            io_ok = s.ghost["io_ok"]
            resp_cell = (rw, rh) if resp_kind == "cell" else None
            resp_area = (rw, rh) if resp_kind == "area" else None
            used_q = And(q, Not(And(io_ok, io_w != 0, io_h != 0)))
            if resp_kind in ("cell", "area"):
                fresh = If(q, spec_cell_size(io_ok, (io_w, io_h), q, resp_cell, resp_area, termux, swap, (tw, th)),
                           spec_cell_size(io_ok, (io_w, io_h), q, None, None, termux, swap, (tw, th)))
            else:
                fresh = spec_cell_size(io_ok, (io_w, io_h), q, None, None, termux, swap, (tw, th))
            value = If(hit, (old_cache[2], old_cache[3]), fresh)
            res_ok = (val is None) if False else None
            unknown = Or(Eq(value[0], 0), Eq(value[1], 0))
            if val is None:
                r = unknown
            else:
                r = And(Not(unknown), Eq(val, value))
            unchanged = And(len(c) == 4, *[Eq(a, b) for a, b in zip(c, old_cache)])
            # after a miss the cache records the current terminal size with the fresh value (also when it is `unknown`): an entry
            # must never survive a change of the terminal size, or it would be served again when the size comes back although
            # the pixel geometry may differ by then (seeded change C15-2 exploits exactly a relaxed version of this clause)
            valid = And(len(c) == 4, If(hit, unchanged, Eq(tuple(c), (tw, th) + tuple(fresh))))
            # ghost update: a value written now was computed under the current settings
            s.ghost["cs_swap"], s.ghost["cs_q"] = If(unchanged, s.ghost["cs_swap"], swap), If(unchanged, s.ghost["cs_q"], q)
            goal = And(r, Implies(hit, unchanged), valid, I_cs(s, u, cache),
                       to_z3(s.H(u)["_swap_win_size"]) == swap, to_z3(s.H(u)["_queries_enabled"]) == q,
                       # a cache hit neither touches the tty nor queries
                       Implies(hit, Not(s.ghost["queried"])))
            eng.oblige("value=cached-if-terminal-size-unchanged-else-fresh", s, goal, kind="post", replay="C15.get_cell_size_any")
            eng.oblige("C12:cell-size-derived-as-documented(ioctl,else-XTWINOPS-cell,else-text-area/terminal;swap)", s, And(r, Implies(Not(hit), valid)), prop="C12", kind="post", replay="C15.get_cell_size")
        obs += eng.obligations
    return obs


# ------------------------------------------------------------------------------------------------ cell ratio
@unit("C15", "__init__:cell-ratio")
def u_cell_ratio(ctx):
    obs = []
    ns = ctx.ns("term_image")
    ACR = ns.d["AutoCellRatio"]
    for what in ("get", "set-float", "set-FIXED", "set-DYNAMIC"):
        for cell_known in (True, False):
            eng = ctx.engine(f"C15/{what}[cell size {'known' if cell_known else 'unknown'}]", "C15")
            st = State()
            cw, ch = z3.Ints("cw ch")
            st.pc += [cw >= 1, ch >= 1]
            ratio0 = z3.Real("cell_ratio0")
            is_dyn = z3.Bool("is_dynamic")        # _cell_ratio is None
            st.pc.append(ratio0 > 0)
            sup = z3.Int("is_supported")          # -1 None, 0 False, 1 True
            st.pc += [sup >= -1, sup <= 1]
            g = st.new("module", {})
            eng.globals_obj = g
            acr = st.new("AutoCellRatioCls", {})
            eng.genv.update(UTIL_ERRS)
            eng.genv["TermImageError"] = ClassV("TermImageError")
            eng.genv["truediv"] = Fn(lambda e, s, a, k: e.binop(ast.Div(), a[0], a[1], s))
            st.ghost["cell_size_calls"] = 0

            def get_cell_size(e, s, a, k):
                s = e.fork(s)
                s.ghost["cell_size_calls"] += 1
                return [((size_rec(cw, ch) if cell_known else None), s)]
            eng.genv["get_cell_size"] = Fn(get_cell_size)
            # AutoCellRatio: enum namespace with a mutable class attribute is_supported
            eng.classes["AutoCellRatio"] = ()
            for dyn in ((True, False) if what == "get" else (False,)):
                for supv in ((None,) if what in ("get", "set-float") else (None, True, False)):
                    s0 = st.fork()
                    s0.H(g)["_cell_ratio"] = None if dyn else ratio0
                    acr_ns = Namespace("AutoCellRatio", dict(ACR.d))
                    holder = s0.new("acr_state", {"is_supported": supv})
                    eng.genv["AutoCellRatio"] = holder
                    eng.attrs[("acr_state", "FIXED")] = lambda e, s, v: [(ACR.d["FIXED"], s)]
                    eng.attrs[("acr_state", "DYNAMIC")] = lambda e, s, v: [(ACR.d["DYNAMIC"], s)]
                    eng.label = f"C15/{what}[cell size {'known' if cell_known else 'unknown'},dynamic={dyn},supported={supv}]"
                    # isinstance(ratio, AutoCellRatio): the holder stands for the enum class
                    eng.isinstance_alias = {"acr_state": "AutoCellRatio"}
                    fresh_ratio = truediv(cw, ch) if cell_known else z3.RealVal("1/2")
                    if what == "get":
                        outs = run_function(eng, ctx.fn(INIT, "get_cell_ratio"), s0)
                        exits(eng, outs, ensure=lambda v, s, dyn=dyn: And(v > 0, Eq(v, fresh_ratio) if dyn else Eq(v, ratio0),
                                                                          # DYNAMIC is computed from the *current* cell size at every call
                                                                          s.ghost["cell_size_calls"] == (1 if dyn else 0)),
                              replay="C15.cell_ratio")
                        continue
                    r = z3.Real("ratio_arg")
                    arg = r if what == "set-float" else ACR.d[what.split("-")[1]]
                    s0.env["ratio"] = arg
                    outs = run_function(eng, ctx.fn(INIT, "set_cell_ratio"), s0)
                    sup_after = (cell_known if supv is None else supv)

                    def ensure(v, s, what=what, supv=supv, sup_after=sup_after):
                        cr = s.H(g)["_cell_ratio"]
                        if what == "set-float":
                            return And(cr is not None and Eq(cr, r), s.H(holder)["is_supported"] is supv)
                        ok = s.H(holder)["is_supported"] is sup_after or s.H(holder)["is_supported"] == sup_after
                        if what == "set-FIXED":
                            # FIXED snapshots the ratio of the *current* cell size
                            return And(ok, cr is not None and Eq(cr, fresh_ratio))
                        return And(ok, cr is None)
                    raises = {"ValueError": lambda s: And(what == "set-float", r <= 0, Eq(s.H(g)["_cell_ratio"], ratio0))}
                    if what != "set-float":
                        raises = {"TermImageError": lambda s, sup_after=sup_after: And(not sup_after, Eq(s.H(g)["_cell_ratio"], ratio0))}
                    exits(eng, outs, ensure=ensure, raises=raises, replay="C15.cell_ratio")
            obs += eng.obligations
    return obs


# ------------------------------------------------------------------------------------------------ the decorators over call histories
@unit("C15", "utils:terminal_size_cached/histories")
def u_ts_cached_histories(ctx):
    """Every history of up to three calls of a function under @terminal_size_cached (terminal size arbitrary at each call, the wrapped
    function returning or raising, an invalidation anywhere): a value returned was computed at the terminal size in force now, after
    the last invalidation.  The decorator's own body is executed to build the closures, so the names of its local state do not matter;
    the history length is bounded (3), the values are not - this unit can refute, the per-call unit above is what proves."""
    import ast as _ast
    import itertools as _it
    obs = []
    outer = ctx.fn(UTILS, "terminal_size_cached")
    body = [st_ for st_ in eng_body(outer) if not isinstance(st_, _ast.Return)]
    for plan in _it.product(("call", "inval+call"), ("call", "inval+call"), ("call", "inval+call")):
        eng = ctx.engine(f"C15/terminal_size_cached.history[{','.join(plan)}]", "C15")
        eng.default_replay = "C15.ts_cached"
        st = State()
        st.ghost.update(computed=[], now=None, epoch=0)
        ts = [(z3.Int(f"tw{i}"), z3.Int(f"th{i}")) for i in range(3)]
        for a_, b_ in ts:
            st.pc += [a_ >= 1, b_ >= 1]
        eng.genv["get_terminal_size"] = Fn(lambda e, s, a, k: [(Rec("terminal_size", {"columns": s.ghost["now"][0], "lines": s.ghost["now"][1]}), s)])
        eng.genv["RLock"] = Fn(lambda e, s, a, k: [(e.fork(s).new("lock", {}) if False else Opaque("lock"), s)])
        eng.genv["wraps"] = Fn(lambda e, s, a, k: [(Fn(lambda e2, s2, a2, k2: [(a2[0], s2)]), s)])
        attrs = {}

        def setattr_(e, s, a, k):
            attrs[a[1]] = a[2]
            return [(None, s)]
        eng.genv["setattr"] = Fn(setattr_)
        eng.methods[("lock", "__enter__")] = lambda e, s, recv, a, k: [(recv, s)]

        def func(e, s, a, k):
            s = e.fork(s)
            v = e.sym_int("computed_value")
            e.raise_(ExcVal("Boom"), e.fork(s))
            s.ghost["computed"] = s.ghost["computed"] + [(v, s.ghost["now"], s.ghost["epoch"])]
            return [(v, s)]
        st.env.update(func=Fn(func))
        eng.number_loops(outer)
        states = [s for kind, _, s in eng.run(body, st) if kind == "normal"]
        wrapper_name = next(n.name for n in outer.body if isinstance(n, _ast.FunctionDef) and n.name.endswith("wrapper"))
        for step, what in enumerate(plan):
            nxt = []
            for s in states:
                s = s.fork()
                if what.startswith("inval"):
                    inv_fn = attrs.get("_invalidate_terminal_size_cache")
                    if inv_fn is None:
                        raise Unsupported("the decorator did not publish _invalidate_terminal_size_cache")
                    outs_i = eng.call(inv_fn, (), {}, s)
                    if len(outs_i) != 1:
                        raise Unsupported("invalidate() forks")
                    s = outs_i[0][1].fork()
                    s.ghost["epoch"] = s.ghost["epoch"] + 1
                s.ghost["now"] = ts[step]
                eng.rstack.append([])
                rets = eng.call(s.lookup(wrapper_name), (), {}, s)
                raised = eng.rstack.pop()
                for exc, s2 in raised:
                    eng.oblige(f"call{step + 1}:only-the-wrapped-function's-own-error-escapes", s2, exc.cls == "Boom", kind="raise")
                    nxt.append(s2)
                for v, s2 in rets:
                    now, ep = s2.ghost["now"], s2.ghost["epoch"]
                    ok = Or(*[And(Eq(v, cv), Eq(cts[0], now[0]), Eq(cts[1], now[1]), cep == ep) for cv, cts, cep in s2.ghost["computed"]]) if s2.ghost["computed"] else False
                    eng.oblige(f"call{step + 1}:the-value-returned-was-computed-at-the-terminal-size-in-force-now(after-the-last-invalidation)", s2, ok, kind="post")
                    nxt.append(s2)
            states = nxt
        obs += eng.obligations
    return obs


def eng_body(fnode):
    import ast as _ast
    b = list(fnode.body)
    if b and isinstance(b[0], _ast.Expr) and isinstance(getattr(b[0], "value", None), _ast.Constant) and isinstance(b[0].value.value, str):
        b = b[1:]
    return b
