from .iterator import *   # registers the units shared by C08 / C09 / C10
from .image_iterator import *   # old-API ImageIterator (shared with C11)
from .C08 import TRUSTED, ASSUMPTIONS
NOT_DECIDED = []
