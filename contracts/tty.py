"""Ghost model of the terminal's termios state (C13, C07) and assumed contracts of termios / os / select."""
import termios as _termios
import z3
from pyvc.values import *
from pyvc.engine import State

NCCS = 32
FAULTS = ("KeyboardInterrupt", "OSError")


def tty_init(st, tag="tty0"):
    """ghost st.ghost['tty'] = (flags..., cc tuple); returns the initial snapshot"""
    flags = [z3.BitVec(f"{tag}_{n}", 32) for n in ("iflag", "oflag", "cflag", "lflag")] + [z3.Int(f"{tag}_ispeed"), z3.Int(f"{tag}_ospeed")]
    cc = tuple(z3.Int(f"{tag}_cc{i}") for i in range(NCCS))
    snap = (tuple(flags), cc)
    st.ghost["tty"] = snap
    return snap


def tty_equal(a, b):
    (fa, ca), (fb, cb) = a, b
    return And(*[to_z3(x) == to_z3(y) for x, y in zip(fa, fb)], *[to_z3(x) == to_z3(y) for x, y in zip(ca, cb)])


def to_bv(x):
    if is_sym(x):
        return x
    return z3.BitVecVal(x, 32)


def install(eng, faults=FAULTS, fault_model="both"):
    """termios namespace with tcgetattr / tcsetattr over the ghost state.  Every call may raise `faults`
    (an interrupted tcsetattr may or may not have taken effect)."""

    def fault(e, s, effect=None, restoring=False):
        """a fault at this external call.  Inside a `finally` clause only the call that puts the attributes back (`restoring`) is exempt
        (nothing can be done about a signal that interrupts the restore itself - the properties say so); any OTHER call a clean-up
        clause makes (a drain, a read, a select) is interruptible like everywhere else, and the restore must still happen"""
        for exc in faults:
            e.raise_(ExcVal(exc), e.fork(s), fault=True, in_cleanup_too=not restoring)
            if effect is not None:
                s2 = e.fork(s)
                effect(s2)
                e.raise_(ExcVal(exc), s2, fault=True, in_cleanup_too=not restoring)

    def tcgetattr(e, s, a, k):
        fault(e, s)
        s = e.fork(s)
        flags, cc = s.ghost["tty"]
        ccl = s.new_list(list(cc))                 # a fresh list each call: no aliasing with the terminal state
        return [(s.new_list(list(flags) + [ccl]), s)]

    def tcsetattr(e, s, a, k):
        fd, when, attr = a
        def effect(s2):
            h = s2.H(attr)
            if len(h) != 7:
                raise Unsupported("attribute list shape")
            cc = tuple(s2.H(h[6]))
            s2.ghost["tty"] = (tuple(h[:4]) and tuple(to_bv(x) for x in h[:4]) + tuple(h[4:6]), cc)   # the terminal stores a snapshot
            s2.ghost["tcsetattr_calls"] = s2.ghost.get("tcsetattr_calls", 0) + 1
            if not is_sym(when) and when == _termios.TCSAFLUSH:
                s2.ghost["stale_input"] = False        # TCSAFLUSH: change after all output is sent, DISCARDING all queued input
                s2.ghost["input_discards"] = s2.ghost.get("input_discards", 0) + 1
            elif is_sym(when):
                raise Unsupported("tcsetattr with a symbolic `when`")
        fault(e, s, effect, restoring=True)
        s = e.fork(s)
        effect(s)
        return [(None, s)]

    def tcdrain(e, s, a, k):
        fault(e, s)
        e.raise_(ExcVal("termios.error"), e.fork(s))
        return [(None, s)]
    def tcflush(e, s, a, k):
        fault(e, s)             # discards queued input / output; the attribute set is not touched
        if len(a) > 1 and not is_sym(a[1]) and a[1] in (_termios.TCIFLUSH, _termios.TCIOFLUSH):
            s = e.fork(s)
            s.ghost["stale_input"] = False
            s.ghost["input_discards"] = s.ghost.get("input_discards", 0) + 1
        return [(None, s)]
    ns = {n: getattr(_termios, n) for n in ("ECHO", "ICANON", "VMIN", "VTIME", "TCSANOW", "TCSAFLUSH", "TCSADRAIN", "TIOCGWINSZ", "TCIFLUSH", "TCOFLUSH", "TCIOFLUSH",
                                            "ISIG", "ECHONL", "OPOST")}
    ns.update(tcgetattr=Fn(tcgetattr), tcsetattr=Fn(tcsetattr), tcdrain=Fn(tcdrain), tcflush=Fn(tcflush), error=ClassV("termios.error"))
    eng.genv["termios"] = Namespace("termios", ns)
    return fault
