"""C06 - draw() leaves the picture in place and the cursor on the line below it."""
from .renderable import *   # registers the units

TRUSTED = ["terminal model of DESIGN appendix A (pyvc/tstr.py VT): logical rows, clamping cursor movement, CUU/CUD parameter 0 = 1",
           "`_render_` obeys the documented render-output contract (Block); sys.stdout is the terminal; sleep has no effect on the screen",
           "Padding.pad obeys its C05 placement contract (PBlock)"]
ASSUMPTIONS = []
NOT_DECIDED = []
from .old_draw import *   # noqa: F401,E402  old-API draw / _display_animated
